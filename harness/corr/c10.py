"""C10 - unanswered requests are retried until answered, and only then.

Tie A: the decision structure of Crazyflie.send_packet (when is a retry timer armed, when is the packet handed to the
link - as Boolean functions of the conditions the code tests), the arguments the retry callback forwards, the default
timeout, the comparisons of _check_for_answers, what close_link / _link_error_cb / open_link do to the pending timers,
the packet-size check and the needs_resending assignments of the drivers are re-extracted into Gen/C10.lean.
Tie B: the real Crazyflie object (real Commander, Caller, CRTPPacket) with a recording fake link and a manually fired
fake `Timer` substituted in the cflib.crazyflie module namespace only, against the Lean model (Driver/C10.lean) on generated
send / reply / timer-expiry / timer-callback / close / reopen / link-error scripts; the transmission log, the timers created
and cancelled and the pending patterns are compared after every event.
"""
import ast
import os
import struct

from harness.lib import extract as X
from harness.lib.common import ExtractError

PID = 'C10'
LEAN_TARGETS = ['CfVerif.Props.C10']
PROPS_MODULES = ['CfVerif.Props.C10']
DRIVER = 'Driver/C10.lean'
REQUIRED_THEOREMS = ['CfVerif.C10.' + n for n in (
    'src_repaired', 'gen_retry_args', 'gen_patterns', 'gen_size_check', 'gen_check_for_answers',
    'retries_until_answered', 'retry_fires', 'retries_at_timeout', 'retries_at_t0_plus_kT', 'no_retry_after_answer',
    'longest_prefix_only', 'nothing_on_closed_link', 'no_cross_session_tx', 'reliable_link_no_retry',
    'reliable_links_no_timers', 'driver_needs_resending', 'gen_link_read_once', 'gen_forget_order', 'gen_check_better', 'gen_deferred_link_error', 'driver_error_inside_send', 'after_callbacks_nothing',
    'retries_until_answered_reentrant', 'no_cross_session_tx_reentrant', 'late_forget_counterexample',
    'gen_lock_released', 'raising_sends_transparent', 'timers_never_block', 'retries_until_answered_with_raising_sends',
    'flat_send_lock_counterexample', 'live_no_retry_after_answer_counterexample',
    'live_no_cross_session_tx_counterexample', 'live_retries_at_timeout_counterexample')]
TRUSTED = ['harness/corr/c10.py: the path analysis of send_packet (conditions -> Boolean functions over six atoms), the extraction of '
           'close_link/_link_error_cb/open_link flags, and the correspondence harness',
           'threading.Timer modelled as: wait(interval); if not cancelled: call function (two separately scheduled steps); '
           'cancel() after the first step has no effect; Timer objects are truthy',
           'dict semantics of _answer_patterns (insertion order, get/set/del by tuple equality)',
           'the fake Timer/link/Commander-proxy substitutions reproduce what the real threads would do at yield-point granularity',
           'Crazyflie._send_lock replaced (on the instance) by a lock that reports `blocked` instead of hanging when it is acquired while held; '
           '`current_thread` in the cflib.crazyflie namespace answers with the identity of the scripted thread (application / timer i / driver)',
           'a raising driver send_packet counts as a transmission: the log records the CALL of link.send_packet']
ASSUMPTIONS = ['atomic steps: a send_packet critical section, one _check_for_answers call, the two steps of a timer thread, the two halves '
               'of close_link, _link_error_cb, open_link; CPython preemption INSIDE these (e.g. _check_for_answers deleting a pattern '
               'between the identity test and the re-registration in send_packet, or close_link racing _check_for_answers) is outside the model',
               'requests whose pattern is re-registered by a later request with the identical pattern are superseded (their retry chain '
               'stops); the retried-until-answered theorem excludes such continuations explicitly (QuietRun)',
               'open_link: only `self.link = <new link object>` and the clearing of pending timers are modelled; connection set-up traffic is '
               'ordinary send events between openLink and openEnd',
               'application callbacks that call back into the library (open_link / send_packet / close_link from inside connection_failed, '
               'disconnected, connection_lost, disconnected_link_error) are the events between linkError..linkErrorEnd / closeRest..closeEnd; '
               'connection_requested runs before open_link does anything and is an ordinary preceding event',
               'timer punctuality is a hypothesis of the closed form t0 + k*T only; all other theorems hold for arbitrarily late timers']

CF = 'cflib/crazyflie/__init__.py'
CRTP = 'cflib/crtp/crtpstack.py'
PATTERNS = 'self._answer_patterns'


# ---- Tie A ---------------------------------------------------------------------------------------------
def _lbool(b):
    return 'true' if b else 'false'


def _u(n):
    return ast.unparse(n)


class _Send:
    """Path analysis of Crazyflie.send_packet: which effects happen under which of the tested conditions.

    Conditions are translated to Lean Bool terms over the atoms
      lo = self.link is not None      he = len(expected_reply) > 0     rs = resend     nr = self.link.needs_resending
      pe = <pattern> in self._answer_patterns          ti = self._answer_patterns.get(<pattern>) is <retry timer param>
    A local that holds `self.link` (read once under the lock) is treated as `self.link`.
    Anything else in a condition, or a statement that is not understood, is a translation failure."""

    def __init__(self, fn):
        self.fn = fn
        self.params = [a.arg for a in fn.args.args]
        self.timer_params = set()      # names that, compared by identity with the map entry, give the atom `ti`
        self.pattern_exprs = {}        # local name -> set of source texts assigned to it
        self.stack = []                # Lean terms of the enclosing branch conditions
        self.env = {}                  # flow-sensitive: local name -> source text currently assigned (None = differs between paths)
        self.timers = []               # (var, interval text, lambda call node)
        self.registers = []            # (key text, value text)

    def norm(self, e):
        """source text of `e` with local names currently bound to `self.link` replaced by `self.link`
        (the code may read the attribute once into a local)"""
        import copy
        aliases = {k for k, v in self.env.items() if v == 'self.link'}
        if not aliases:
            return _u(e)

        class R(ast.NodeTransformer):
            def visit_Name(self, n):
                if n.id in aliases:
                    return ast.copy_location(ast.parse('self.link', mode='eval').body, n)
                return n
        return _u(ast.fix_missing_locations(R().visit(copy.deepcopy(e))))

    # -- conditions
    def cond(self, e):
        if isinstance(e, ast.BoolOp):
            op = ' && ' if isinstance(e.op, ast.And) else ' || '
            return '(' + op.join(self.cond(v) for v in e.values) + ')'
        if isinstance(e, ast.UnaryOp) and isinstance(e.op, ast.Not):
            return '(!' + self.cond(e.operand) + ')'
        s = self.norm(e)
        if s in ('self.link is not None', 'self.link', 'self.link != None'):
            return 'lo'
        if s in ('self.link is None', 'self.link == None'):
            return '(!lo)'
        if s in ('len(expected_reply) > 0', 'expected_reply', 'len(expected_reply) != 0', 'len(expected_reply) >= 1'):
            return 'he'
        if s in ('len(expected_reply) == 0',):
            return '(!he)'
        if s == 'resend':
            return 'rs'
        if s == 'self.link.needs_resending':
            return 'nr'
        if isinstance(e, ast.Compare) and len(e.ops) == 1:
            l, r, op = e.left, e.comparators[0], e.ops[0]
            if isinstance(op, (ast.In, ast.NotIn)) and _u(r) == PATTERNS and self.is_resend_pattern(l):
                return 'pe' if isinstance(op, ast.In) else '(!pe)'
            if isinstance(op, (ast.Is, ast.IsNot)):
                for a, b in ((l, r), (r, l)):
                    if self.is_map_get(a) and isinstance(b, ast.Name) and b.id in self.params and b.id not in ('pk', 'expected_reply', 'resend', 'timeout'):
                        self.timer_params.add(b.id)
                        return 'ti' if isinstance(op, ast.Is) else '(!ti)'
        if isinstance(e, ast.Subscript) and _u(e.value) == PATTERNS and self.is_resend_pattern(e.slice):
            # truthiness of the Timer object stored for the pattern: threading.Timer defines neither __bool__ nor __len__
            return 'true'
        raise ExtractError('send_packet: condition %r is not understood' % s)

    def is_resend_pattern(self, e):
        """the expression denotes the pattern handed over by the retry callback (expected_reply on the resend path)"""
        s = _u(e)
        if s == 'expected_reply':
            return True
        return isinstance(e, ast.Name) and self.env.get(e.id) == 'expected_reply'

    def is_map_get(self, e):
        return isinstance(e, ast.Call) and _u(e.func) == PATTERNS + '.get' and len(e.args) == 1 and not e.keywords \
            and self.is_resend_pattern(e.args[0])

    def path_kind(self):
        """is the current path only taken by first transmissions ('fresh') or only by retries ('resend')"""
        import itertools
        py = ' and '.join(self.stack) or 'True'
        for a, b in (('&&', ' and '), ('||', ' or '), ('!', ' not '), ('true', 'True'), ('false', 'False')):
            py = py.replace(a, b)
        vals = set()
        for bits in itertools.product((False, True), repeat=6):
            envb = dict(zip(('lo', 'he', 'rs', 'nr', 'pe', 'ti'), bits))
            if eval(py, {}, envb):
                vals.add(envb['rs'])
        X.expect(len(vals) == 1, 'send_packet: a retry timer is registered on a path taken by first transmissions and by retries alike')
        return 'resend' if vals.pop() else 'fresh'

    # -- effects
    def happens(self, stmts, what):
        """Lean Bool term: does effect `what` ('tx' | 'arm') happen when `stmts` run"""
        terms = []
        if stmts is self.fn_rest:
            self.env = {}
        for st in stmts:
            t = self.happens1(st, what)
            if t != 'false':
                terms.append(t)
        if not terms:
            return 'false'
        return terms[0] if len(terms) == 1 else '(' + ' || '.join(terms) + ')'

    def happens1(self, st, what):
        if isinstance(st, ast.If):
            c = self.cond(st.test)
            env0 = dict(self.env)
            self.stack.append(c)
            a = self.happens(st.body, what)
            env1, self.env = self.env, dict(env0)
            self.stack[-1] = '(!%s)' % c
            b = self.happens(st.orelse, what)
            self.stack.pop()
            self.env = {k: (v if env1.get(k, v) == v and k in env1 else None) for k, v in self.env.items()}
            for k in env1:
                self.env.setdefault(k, None)
            if a == 'false' and b == 'false':
                return 'false'
            if b == 'false':
                return '(%s && %s)' % (c, a)
            if a == 'false':
                return '((!%s) && %s)' % (c, b)
            return '(if %s then %s else %s)' % (c, a, b)
        if isinstance(st, ast.With):
            X.expect(all(_u(i.context_expr) == 'self._send_lock' for i in st.items), 'send_packet: unexpected with-block')
            return self.happens(st.body, what)
        if isinstance(st, ast.Try):
            X.expect(not st.handlers and not st.orelse, 'send_packet: try with handlers is not understood')
            a, b = self.happens(st.body, what), self.happens(st.finalbody, what)
            return a if b == 'false' else '(%s || %s)' % (a, b)
        if isinstance(st, ast.Expr) and isinstance(st.value, ast.Constant):
            return 'false'
        if isinstance(st, ast.Expr) and isinstance(st.value, ast.Call):
            f = self.norm(st.value.func)
            if f.startswith('logger.') or f in ('self._send_lock.acquire', 'self._send_lock.release', 'self.packet_sent.call'):
                return 'false'
            if f == 'self.link.send_packet':
                X.expect([_u(a) for a in st.value.args] == ['pk'], 'send_packet: link.send_packet called with ' + _u(st.value))
                return 'true' if what == 'tx' else 'false'
            if f.endswith('.start') and isinstance(st.value.func.value, ast.Name):
                return 'true' if what == 'start:' + st.value.func.value.id else 'false'
            raise ExtractError('send_packet: call %r is not understood' % _u(st.value))
        if isinstance(st, ast.Assign) and len(st.targets) == 1:
            tgt, val = st.targets[0], st.value
            if isinstance(tgt, ast.Name) and isinstance(val, ast.Call) and _u(val.func) in ('Timer', 'threading.Timer'):
                X.expect(len(val.args) == 2 and not val.keywords and isinstance(val.args[1], ast.Lambda) and
                         isinstance(val.args[1].body, ast.Call), 'send_packet: Timer(...) shape changed: ' + _u(val))
                if what == 'collect':
                    self.timers.append((tgt.id, _u(val.args[0]), val.args[1].body))
                return 'true' if what == 'timer:' + tgt.id else 'false'
            if isinstance(tgt, ast.Subscript) and _u(tgt.value) == PATTERNS:
                if what == 'collect':
                    key = tgt.slice
                    self.registers.append((self.env.get(key.id) if isinstance(key, ast.Name) else _u(key), _u(val), self.path_kind()))
                return 'true' if what == 'register:' + _u(val) else 'false'
            if isinstance(tgt, ast.Name):
                self.env[tgt.id] = _u(val)
                if what == 'collect':
                    self.pattern_exprs.setdefault(tgt.id, set()).add(_u(val))
                return 'false'
        raise ExtractError('send_packet: statement %r is not understood' % _u(st)[:80])


def _helper_body(cls, call):
    """body of self.<helper>() if `call` is such a call to a method of the class without arguments"""
    if isinstance(call, ast.Call) and isinstance(call.func, ast.Attribute) and _u(call.func.value) == 'self' \
            and not call.args and not call.keywords:
        for ch in cls.body:
            if isinstance(ch, ast.FunctionDef) and ch.name == call.func.attr:
                return ch.body
    return None


def _cancel_clear(cls, fn):
    """(cancels every registered timer, clears the pattern map) for a method body, inlining self.<helper>() one level"""
    stmts = []
    for st in ast.walk(fn):
        if isinstance(st, ast.Expr) and _helper_body(cls, st.value) is not None:
            stmts += _helper_body(cls, st.value)
    stmts += fn.body
    cancels = clears = False
    for top in stmts:
        for n in ast.walk(top):
            if isinstance(n, ast.For):
                it = _u(n.iter)
                if it in (PATTERNS + '.values()', 'list(%s.values())' % PATTERNS, 'tuple(%s.values())' % PATTERNS) and isinstance(n.target, ast.Name):
                    if any(isinstance(m, ast.Call) and _u(m.func) == n.target.id + '.cancel' for b in n.body for m in ast.walk(b)) \
                            and not any(isinstance(m, (ast.Break, ast.Return, ast.If)) for b in n.body for m in ast.walk(b)):
                        cancels = True
            if isinstance(n, ast.Assign) and len(n.targets) == 1 and _u(n.targets[0]) == PATTERNS and _u(n.value) in ('{}', 'dict()'):
                clears = True
            if isinstance(n, ast.Call) and _u(n.func) == PATTERNS + '.clear':
                clears = True
    return cancels, clears


def _forget_index(cls, fn):
    """index of the top-level statement of `fn` that forgets the patterns (directly or through a helper method); None if none"""
    for i, st in enumerate(fn.body):
        tmp = ast.FunctionDef(name='_', args=fn.args, body=[st], decorator_list=[], lineno=0, col_offset=0)
        if _cancel_clear(cls, tmp)[1]:
            return i
    return None


def _first_index(fn, pred):
    for i, st in enumerate(fn.body):
        if any(pred(n) for n in ast.walk(st)):
            return i
    return None


def _critical_section(cls, sp, rest, g):
    """statements of send_packet's critical section.  Either written inline (acquire ... release) or, since the D2 repair,
    `acquire; owner = current_thread(); try: self._send_packet_locked(<same names>) finally: <pick up a link error the driver
    reported from inside the send>; release` followed by running that deferred error.  Emits what the wrapper does."""
    tries = [st for st in rest if isinstance(st, ast.Try)]
    flags = {'sendLockReleasedInFinally': False, 'sendOwnerTracked': False, 'sendRunsDeferredErrorAfterRelease': False}
    body = rest
    cleanup = {'errmsg = self._deferred_link_error', 'self._deferred_link_error = None', 'self._send_lock_owner = None',
               'self._send_lock.release()'}

    def locked_call(st):
        """`self.<method of the class>(<names>)` as a statement: the call of the locked part"""
        if isinstance(st, ast.Expr) and isinstance(st.value, ast.Call) and isinstance(st.value.func, ast.Attribute) \
                and _u(st.value.func.value) == 'self' and not st.value.keywords and st.value.args \
                and all(isinstance(a, ast.Name) for a in st.value.args):
            for ch in cls.body:
                if isinstance(ch, ast.FunctionDef) and ch.name == st.value.func.attr:
                    return st.value, ch
        return None
    flat = [st for st in rest if locked_call(st)]
    if tries or flat:
        X.expect(len(tries) + len(flat) == 1, 'send_packet: several try blocks / calls of a locked part')
        t = (tries or flat)[0]
        i = rest.index(t)
        pre = [_u(st) for st in rest[:i]]
        X.expect(pre[:1] == ['self._send_lock.acquire()'] and set(pre[1:]) <= {'self._send_lock_owner = current_thread()'},
                 'send_packet: statements before the locked part are not understood: %s' % pre)
        post = rest[i + 1:]
        if tries:
            X.expect(not t.handlers and not t.orelse and len(t.body) == 1 and locked_call(t.body[0]),
                     'send_packet: the try block is not a single call of the locked part')
            call, callee = locked_call(t.body[0])
            fin = [_u(st) for st in t.finalbody]
            X.expect(set(fin) <= cleanup, 'send_packet: finally block is not understood: %s' % fin)
            flags['sendLockReleasedInFinally'] = fin[-1:] == ['self._send_lock.release()']
        else:
            # straight-line code: the cleanup only runs when the locked part returns normally
            call, callee = locked_call(t)
            fin = []
            while post and _u(post[0]) in cleanup:
                fin.append(_u(post.pop(0)))
            X.expect(fin[-1:] == ['self._send_lock.release()'], 'send_packet: the lock is not released after the locked part')
        cparams = [a.arg for a in callee.args.args][1:]
        X.expect(cparams == [a.id for a in call.args] and set(cparams) <= {a.arg for a in sp.args.args},
                 'send_packet: %s is not called with its own parameter names %s' % (call.func.attr, cparams))
        flags['sendOwnerTracked'] = 'self._send_lock_owner = current_thread()' in pre and 'self._send_lock_owner = None' in fin \
            and fin.index('self._send_lock_owner = None') < len(fin) - 1
        picks = 'errmsg = self._deferred_link_error' in fin and 'self._deferred_link_error = None' in fin and \
            fin.index('errmsg = self._deferred_link_error') < fin.index('self._deferred_link_error = None')
        if post:
            X.expect(len(post) == 1 and isinstance(post[0], ast.If) and _u(post[0].test) == 'errmsg is not None' and not post[0].orelse and
                     [_u(b) for b in post[0].body] == ['self._link_error_cb(errmsg)'], 'send_packet: statements after the locked part are not understood')
        flags['sendRunsDeferredErrorAfterRelease'] = bool(post) and picks and fin[-1:] == ['self._send_lock.release()']
        body = [st for st in callee.body if not (isinstance(st, ast.Expr) and isinstance(st.value, ast.Constant))]
    for k, v in flags.items():
        g.raw('def %s : Bool := %s' % (k, _lbool(v)))
    return body


def _needs_resending_assigns(node):
    return [(n.lineno, _u(n.targets[0]), n.value) for n in ast.walk(node)
            if isinstance(n, ast.Assign) and len(n.targets) == 1 and _u(n.targets[0]).endswith('.needs_resending')]


def extract(ctx):
    g = X.GenFile(PID, [CF, CRTP, 'cflib/crtp/crtpdriver.py', 'cflib/crtp/radiodriver.py', 'cflib/crtp/usbdriver.py',
                        'cflib/crazyflie/commander.py'])
    g.raw('set_option linter.unusedVariables false')
    tree = X.parse(CF)
    cls = X.find(tree, 'Crazyflie')

    # -- send_packet
    sp = X.find(cls, 'send_packet')
    params = [a.arg for a in sp.args.args]
    X.expect(params[:5] == ['self', 'pk', 'expected_reply', 'resend', 'timeout'], 'send_packet: parameters changed: %s' % params)
    defaults = dict(zip(params[len(params) - len(sp.args.defaults):], sp.args.defaults))
    X.expect(_u(defaults.get('expected_reply')) == '()' and _u(defaults.get('resend')) == 'False', 'send_packet: defaults changed')
    try:
        tmo = float(ast.literal_eval(defaults['timeout']))
    except Exception:
        raise ExtractError('send_packet: default timeout is not a literal')
    ms = round(tmo * 1000)
    X.expect(abs(ms - tmo * 1000) < 1e-6 and ms > 0, 'send_packet: default timeout %r is not a positive number of milliseconds' % tmo)
    g.nat('defaultTimeoutMs', ms)
    body = [s for s in sp.body if not (isinstance(s, ast.Expr) and isinstance(s.value, ast.Constant))]
    # the size check comes first, raises, and has no other effect
    X.expect(body and isinstance(body[0], ast.If) and len(body[0].body) == 1 and isinstance(body[0].body[0], ast.Raise) and not body[0].orelse,
             'send_packet: expected the packet size check (if ...: raise) as first statement')
    g.string('sizeCheck', _u(body[0].test))
    rest = _critical_section(cls, sp, body[1:], g)
    X.expect(not any(isinstance(n, (ast.Return, ast.Raise, ast.While, ast.For, ast.Break, ast.Continue)) for s in rest for n in ast.walk(s)),
             'send_packet: return/raise/loop after the size check is not understood')
    an = _Send(sp)
    an.fn_rest = rest
    an.happens(rest, 'collect')
    tx = an.happens(rest, 'tx')
    X.expect(len(an.timers) >= 1, 'send_packet: no retry Timer is created')
    tvars = sorted({t[0] for t in an.timers} | {v for _, v, _ in an.registers})
    X.expect(len(tvars) == 1, 'send_packet: retry timers are bound to several variables: %s' % tvars)
    tv = tvars[0]
    arm_t, arm_r, arm_s = an.happens(rest, 'timer:' + tv), an.happens(rest, 'register:' + tv), an.happens(rest, 'start:' + tv)
    X.expect(arm_t == arm_r == arm_s, 'send_packet: creating, registering and starting the retry timer no longer coincide: %s / %s / %s' % (arm_t, arm_r, arm_s))
    sig = '(lo he rs nr pe ti : Bool) : Bool := '
    g.raw('/-- a new retry timer is created, registered for the pattern and started -/')
    g.raw('def sendArms ' + sig + arm_t)
    g.raw('/-- the packet is handed to the link -/')
    g.raw('def sendTransmits ' + sig + tx)
    loads = sum(1 for st in rest for n in ast.walk(st) if isinstance(n, ast.Attribute) and _u(n) == 'self.link' and isinstance(n.ctx, ast.Load))
    g.raw('/-- `self.link` is read once inside the critical section (a link error in another thread cannot change the link between the decision and the transmission) -/')
    g.raw('def sendReadsLinkOnce : Bool := ' + _lbool(loads == 1))
    # which pattern is registered on which path, and the timer interval
    for kind in ('fresh', 'resend'):
        keys = sorted({str(k) for k, _, kd in an.registers if kd == kind})
        X.expect(len(keys) == 1, 'send_packet: expected one registration of the retry timer on the %s path, found %s' % (kind, keys))
        g.string(kind + 'Pattern', keys[0])
    X.expect(all(v == an.registers[0][1] for _, v, _ in an.registers), 'send_packet: registered values differ')
    g.strings('timerIntervals', sorted({t[1] for t in an.timers}))

    # -- the retry callback: what the timer hands back to send_packet
    retry = X.find(cls, '_no_answer_do_retry')
    rparams = [a.arg for a in retry.args.args][1:]
    calls = [n for n in ast.walk(retry) if isinstance(n, ast.Call) and _u(n.func) == 'self.send_packet']
    X.expect(len(calls) == 1, '_no_answer_do_retry: expected exactly one self.send_packet(...)')
    bound = {}
    for p, a in zip(params[1:], calls[0].args):
        bound[p] = a
    for k in calls[0].keywords:
        X.expect(k.arg in params, '_no_answer_do_retry: unknown keyword %s' % k.arg)
        bound[k.arg] = k.value
    X.expect(_u(bound.get('resend')) == 'True', '_no_answer_do_retry: resend=True expected')
    lam_args = set()
    for (_, _, call) in an.timers:
        X.expect(_u(call.func) == 'self._no_answer_do_retry' and not call.keywords and len(call.args) == len(rparams),
                 'send_packet: the timer callback is not self._no_answer_do_retry(%s)' % ', '.join(rparams))
        lam_args.add(tuple(_u(a) for a in call.args))
    X.expect(len(lam_args) == 1, 'send_packet: the retry timers are created with different callbacks: %s' % sorted(lam_args))
    lam = dict(zip(rparams, next(iter(lam_args))))

    def through(p):
        """what send_packet parameter p receives on a retry, as an expression of the send_packet call that armed the timer"""
        if p not in bound:
            return ''
        e = bound[p]
        X.expect(isinstance(e, ast.Name) and e.id in lam, '_no_answer_do_retry: %s=%s is not one of its parameters' % (p, _u(e)))
        return lam[e.id]
    g.string('retryPk', through('pk'))
    g.string('retryPattern', through('expected_reply'))
    g.string('retryTimeout', through('timeout'))
    tparam = sorted(an.timer_params)
    X.expect(len(tparam) <= 1, 'send_packet: several retry-timer parameters')
    g.string('retryTimer', through(tparam[0]) if tparam else '')
    g.string('timerVar', tv)

    # -- _check_for_answers
    chk = X.find(cls, '_check_for_answers')
    # the comparison that decides whether a match replaces the longest one so far is translated, not pinned as text
    better = [n for n in ast.walk(chk) if isinstance(n, ast.Compare) and len(n.ops) == 1 and
              {_u(n.left), _u(n.comparators[0])} == {'len(match)', 'len(longest_match)'}]
    X.expect(len(better) == 1, '_check_for_answers: expected one comparison of len(match) with len(longest_match)')
    ops = {ast.GtE: '≥', ast.Gt: '>', ast.LtE: '≤', ast.Lt: '<', ast.Eq: '=', ast.NotEq: '≠'}
    X.expect(type(better[0].ops[0]) in ops, '_check_for_answers: comparison %s is not understood' % _u(better[0]))
    names = {'len(match)': 'm', 'len(longest_match)': 'lm'}
    g.raw('def checkBetter (m lm : Nat) : Bool := decide (%s %s %s)' % (names[_u(better[0].left)], ops[type(better[0].ops[0])], names[_u(better[0].comparators[0])]))
    g.strings('checkCompares', [c for c in X.compares(chk) if c != _u(better[0])])
    asg = {_u(n.targets[0]): _u(n.value) for n in ast.walk(chk) if isinstance(n, ast.Assign) and len(n.targets) == 1}
    g.string('checkData', asg.get('data', '?'))
    g.string('checkMatch', asg.get('match', '?'))
    loops = [n for n in ast.walk(chk) if isinstance(n, ast.For)]
    X.expect(len(loops) == 1, '_check_for_answers: expected one loop')
    g.string('checkLoop', 'for %s in %s' % (_u(loops[0].target), _u(loops[0].iter)))
    X.expect(not any(isinstance(n, (ast.Break, ast.Return, ast.Continue)) for n in ast.walk(chk)), '_check_for_answers: early exit is not understood')
    last = [s for s in chk.body if isinstance(s, ast.If)]
    X.expect(last, '_check_for_answers: no final if')
    g.string('checkFinalCond', _u(last[-1].test))
    g.strings('checkFinalBody', [_u(s) for s in last[-1].body])
    cbs = [_u(n) for n in ast.walk(X.find(cls, '__init__')) if isinstance(n, ast.Call) and _u(n.func) == 'self.packet_received.add_callback']
    g.raw('def checkRegistered : Bool := ' + _lbool('self.packet_received.add_callback(self._check_for_answers)' in cbs))

    # -- close_link / _link_error_cb / open_link
    cl = X.find(cls, 'close_link')
    c_cancel, c_clear = _cancel_clear(cls, cl)
    ifs = [s for s in cl.body if isinstance(s, ast.If)]
    sp_first = bool(ifs) and _u(ifs[0].test) in ('self.link is not None', 'self.link') and \
        [_u(s) for s in ifs[0].body] == ['self.commander.send_setpoint(0, 0, 0, 0)']
    g.raw('def closeSendsSetpoint : Bool := ' + _lbool(sp_first))
    closing = [s for s in ifs if [_u(b) for b in s.body] == ['self.link.close()', 'self.link = None'] and _u(s.test) in ('self.link is not None', 'self.link')]
    X.expect(len(closing) == 1, 'close_link: expected `if self.link is not None: self.link.close(); self.link = None`')
    g.raw('def closeCancels : Bool := ' + _lbool(c_cancel))
    g.raw('def closeClears : Bool := ' + _lbool(c_clear))
    er = X.find(cls, '_link_error_cb')
    ebody = [st for st in er.body if not (isinstance(st, ast.Expr) and isinstance(st.value, ast.Constant))]
    eparam = [a.arg for a in er.args.args][1:]
    defers = bool(ebody) and isinstance(ebody[0], ast.If) and _u(ebody[0].test) in ('self._send_lock_owner is current_thread()', 'current_thread() is self._send_lock_owner') \
        and not ebody[0].orelse and len(eparam) == 1 and [_u(b) for b in ebody[0].body] == ['self._deferred_link_error = ' + eparam[0], 'return']
    g.raw('/-- a link error reported by the driver to the thread that is inside send_packet is only recorded (and run after the lock is released) -/')
    g.raw('def errorCbDefersInsideSend : Bool := ' + _lbool(defers))
    e_cancel, e_clear = _cancel_clear(cls, er)
    texts = [_u(s) for s in er.body]
    X.expect('self.link = None' in texts and any(isinstance(s, ast.If) and [_u(b) for b in s.body] == ['self.link.close()'] for s in er.body),
             '_link_error_cb: closing the link / self.link = None not found')
    def is_user_callback(n):
        return isinstance(n, ast.Call) and isinstance(n.func, ast.Attribute) and n.func.attr == 'call'
    ci, cc = _forget_index(cls, cl), _first_index(cl, is_user_callback)
    g.raw('/-- the patterns are forgotten before the user callbacks run (a callback may open a new link) -/')
    g.raw('def closeForgetsBeforeCallbacks : Bool := ' + _lbool(ci is not None and (cc is None or ci < cc)))
    ei, ec = _forget_index(cls, er), _first_index(er, is_user_callback)
    g.raw('def errorForgetsBeforeCallbacks : Bool := ' + _lbool(ei is not None and (ec is None or ei < ec)))
    g.raw('def errorCancels : Bool := ' + _lbool(e_cancel))
    g.raw('def errorClears : Bool := ' + _lbool(e_clear))
    op = X.find(cls, 'open_link')
    o_cancel, o_clear = _cancel_clear(cls, op)
    g.raw('def openCancels : Bool := ' + _lbool(o_cancel))
    g.raw('def openClears : Bool := ' + _lbool(o_clear))
    oi = _forget_index(cls, op)
    ol = _first_index(op, lambda n: isinstance(n, ast.Assign) and _u(n.targets[0]) == 'self.link')
    g.raw('/-- the patterns are forgotten before the new link object is installed (and before set-up traffic is sent on it) -/')
    g.raw('def openForgetsBeforeLink : Bool := ' + _lbool(oi is not None and ol is not None and oi < ol))
    X.expect(any(isinstance(n, ast.Assign) and _u(n.targets[0]) == 'self.link' and _u(n.value).startswith('cflib.crtp.get_link_driver(') for n in ast.walk(op)),
             'open_link: self.link = cflib.crtp.get_link_driver(...) not found')

    # -- packet size limit and headers
    ctree = X.parse(CRTP)
    pkc = X.find(ctree, 'CRTPPacket')
    g.nat('maxDataSize', X.int_assigns(pkc)['MAX_DATA_SIZE'])
    g.strings('sizeValidCompares', X.compares(X.find(pkc, 'is_data_size_valid')) + [_u(s) for s in X.find(pkc, 'available_data_size').body if isinstance(s, ast.Return)])
    uh = X.find(pkc, '_update_header')
    uas = [n for n in ast.walk(uh) if isinstance(n, ast.Assign) and _u(n.targets[0]) == 'self.header']
    X.expect(len(uas) == 1, '_update_header: header assignment not found')
    g.raw('def headerExpr (port channel : Nat) : Nat := ' + X.expr_to_lean(uas[0].value, {'self._port': 'port', 'self.channel': 'channel'}))
    ini = X.find(pkc, '__init__')
    ias = [n for n in ast.walk(ini) if isinstance(n, ast.Assign) and _u(n.targets[0]) == 'self.header']
    X.expect(len(ias) == 1, 'CRTPPacket.__init__: header assignment not found')
    g.raw('def rxHeaderExpr (header : Nat) : Nat := ' + X.expr_to_lean(ias[0].value, {'header': 'header'}))
    g.nat('commanderPort', X.class_consts(CRTP, 'CRTPPort')['COMMANDER'])
    ss = X.func('cflib/crazyflie/commander.py', 'Commander.send_setpoint')
    sc = X.struct_calls(ss)
    X.expect(len(sc) == 1 and sc[0]['fmt'], 'send_setpoint: expected one struct.pack with a literal format')
    g.nat('setpointSize', struct.calcsize(sc[0]['fmt']))
    sends = [n for n in ast.walk(ss) if isinstance(n, ast.Call) and _u(n.func) == 'self._cf.send_packet']
    X.expect(len(sends) == 1, 'send_setpoint: expected one send_packet call')
    g.strings('setpointSendArgs', [_u(a) for a in sends[0].args] + ['%s=%s' % (k.arg, _u(k.value)) for k in sends[0].keywords])

    # -- needs_resending in the drivers
    def ctor_flag(rel, clsname):
        asg = _needs_resending_assigns(X.find(X.func(rel, clsname), '__init__'))
        X.expect(asg and all(t == 'self.needs_resending' for _, t, _ in asg), '%s.__init__: needs_resending assignment not found' % clsname)
        v = asg[-1][2]
        X.expect(isinstance(v, ast.Constant) and isinstance(v.value, bool), '%s.__init__: needs_resending is not a literal' % clsname)
        return v.value
    g.raw('def crtpDriverNeedsResending : Bool := ' + _lbool(ctor_flag('cflib/crtp/crtpdriver.py', 'CRTPDriver')))
    g.raw('def usbDriverNeedsResending : Bool := ' + _lbool(ctor_flag('cflib/crtp/usbdriver.py', 'UsbDriver')))
    g.raw('def radioDriverNeedsResendingInitially : Bool := ' + _lbool(ctor_flag('cflib/crtp/radiodriver.py', 'RadioDriver')))
    rt = X.parse('cflib/crtp/radiodriver.py')
    others = [a for a in _needs_resending_assigns(rt) if a[1] != 'self.needs_resending']
    X.expect(len(others) == 1 and others[0][1] == 'self._link.needs_resending', 'radiodriver: expected one `self._link.needs_resending = ...` after the safelink negotiation')
    run = X.find(rt, '_RadioDriverThread.run')
    X.expect(any(a[0] == others[0][0] for a in _needs_resending_assigns(run)), 'radiodriver: the negotiated needs_resending is not set in _RadioDriverThread.run')
    v = others[0][2]
    if _u(v) == 'not self._has_safelink':
        g.raw('def radioNeedsResendingAfterNegotiation (hasSafelink : Bool) : Bool := (!hasSafelink)')
    elif isinstance(v, ast.Constant) and isinstance(v.value, bool):
        g.raw('def radioNeedsResendingAfterNegotiation (hasSafelink : Bool) : Bool := ' + _lbool(v.value))
    else:
        raise ExtractError('radiodriver: needs_resending after negotiation is %r' % _u(v))
    loops = [n for n in run.body if isinstance(n, (ast.For, ast.While))]
    pos = [i for i, s in enumerate(run.body) if any(a[0] == others[0][0] for a in _needs_resending_assigns(s))]
    X.expect(len(loops) == 2 and pos and run.body.index(loops[0]) < pos[0] < run.body.index(loops[1]),
             'radiodriver: needs_resending is no longer set between the negotiation loop and the main loop')
    return {'C10.lean': g.render()}


# ---- the real code behind a recording fake link and manually fired timers --------------------------------------
class FakeTimer:
    """Stand-in for threading.Timer in the cflib.crazyflie namespace.  The harness plays the timer thread:
    `expire` = the thread wakes up after `interval` and finds `finished` not set; `run` = it calls the function."""
    registry = None      # list of the current case
    clock = None         # [now_ms]

    def __init__(self, interval, function, args=None, kwargs=None):
        self.interval_ms = int(round(float(interval) * 1000))
        self.function = function
        self.args = args or ()
        self.kwargs = kwargs or {}
        self.state = 'N'
        self.deadline = None
        self.idx = len(FakeTimer.registry)
        FakeTimer.registry.append(self)

    def start(self):
        if self.state == 'N':
            self.state = 'A'
            self.deadline = FakeTimer.clock[0] + self.interval_ms

    def cancel(self):
        if self.state in ('N', 'A'):
            self.state = 'C'


class FakeLink:
    def __init__(self, sid, needs_resending, log, error_cb):
        self.sid = sid
        self.needs_resending = needs_resending
        self.closed = False
        self.log = log
        self.link_error_callback = error_cb

    def send_packet(self, pk):
        self.log.append((self.sid, getattr(pk, '_c10_id', 0), 1 if self.closed else 0))
        if self.raise_next:
            # a driver whose send_packet raises (socket / serial / USB error)
            self.raise_next = False
            raise OSError('scripted driver exception in send_packet')
        if self.fail_next:
            # what RadioDriver.send_packet does when its out queue stays full: report the error from inside the call
            self.fail_next = False
            self.link_error_callback('scripted driver error inside send_packet')

    fail_next = False
    raise_next = False

    def receive_packet(self, wait=0):
        return None

    def close(self):
        self.closed = True


class WouldBlock(BaseException):
    """the thread would wait for ever for _send_lock (harness-level; not an Exception, so that library code cannot swallow it)"""


class FakeLock:
    """Stand-in for Crazyflie._send_lock (a threading.Lock).  All scripted steps run in the harness thread, one after the other, so
    an acquire() of a lock that is still held can never succeed: it is reported as `blocked` instead of hanging the harness."""

    def __init__(self):
        self.held = False

    def acquire(self, blocking=True, timeout=-1):
        if self.held:
            raise WouldBlock()
        self.held = True
        return True

    def release(self):
        if not self.held:
            raise RuntimeError('release unlocked lock')
        self.held = False

    def locked(self):
        return self.held

    def __enter__(self):
        self.acquire()

    def __exit__(self, *a):
        self.release()


class _NoThread:
    def is_alive(self):
        return True

    def add_header_callback(self, *a, **k):
        pass

    def remove_header_callback(self, *a, **k):
        pass

    def add_port_callback(self, *a, **k):
        pass

    def remove_port_callback(self, *a, **k):
        pass


class Real:
    """One real Crazyflie object, reused for all cases of a run (its constructor starts a parameter thread that
    never exits).  Every case starts from a closed object and ends with close_link()."""
    _inst = None

    @classmethod
    def get(cls):
        if cls._inst is None:
            cls._inst = Real()
        return cls._inst

    def __init__(self):
        import logging
        logging.disable(logging.CRITICAL)
        import cflib.crazyflie as cfm
        import cflib.crtp
        from cflib.crtp.crtpstack import CRTPPacket
        self.cfm, self.crtp, self.CRTPPacket = cfm, cflib.crtp, CRTPPacket
        self.real_timer = cfm.Timer
        self.real_get = cflib.crtp.get_link_driver
        cfm.Timer = FakeTimer
        # every scripted step is a step of some thread (application, timer i, driver); the library asks who is running
        # (`_send_lock_owner is current_thread()`), so the name `current_thread` of the cflib.crazyflie namespace answers with that
        self.real_current_thread = getattr(cfm, 'current_thread', None)
        self.thread_token = 'app'
        cfm.current_thread = lambda: self.thread_token
        FakeTimer.registry, FakeTimer.clock = [], [0]
        self.cf = cfm.Crazyflie(rw_cache=None)
        # no dispatcher thread: the harness delivers packets itself through cf.packet_received.call (as the thread does)
        self.cf.incoming = _NoThread()
        # connection setup traffic (platform/TOC requests) is not part of this property
        # ... but it is the place where open_link, with the new link installed, hands control to other code
        self.cf.platform.fetch_platform_informations = lambda cb: self._slot('setup')
        # the application's callbacks: scripted steps that call back into the library run from inside them
        self.slot_hook = {}
        for caller in (self.cf.connection_failed, self.cf.disconnected, self.cf.connection_lost, self.cf.disconnected_link_error):
            caller.add_callback(lambda *a: self._slot('app'))
        real_commander = self.cf.commander
        outer = self

        class CommanderProxy:
            """the real Commander; after the zero set-point of close_link returned, the scripted steps of OTHER threads run"""

            def __getattr__(self, name):
                return getattr(real_commander, name)

            def send_setpoint(self, *a):
                real_commander.send_setpoint(*a)
                hook, outer.after_setpoint = outer.after_setpoint, None
                if hook:
                    hook()
        self.cf.commander = CommanderProxy()
        self.after_setpoint = None
        self.mid = None
        self.want_mid = False

        self.cf._send_lock = FakeLock()
        self.subscriber_raises = False

        def raising_subscriber(pk):
            if self.subscriber_raises:
                self.subscriber_raises = False
                raise RuntimeError('scripted exception in a packet_sent subscriber')

        def packet_sent(pk):
            # last statement of the critical section: what a failing send looks like before the deferred link error runs
            if self.want_mid:
                self.mid = self.delta()
        self.cf.packet_sent.add_callback(packet_sent)
        self.cf.packet_sent.add_callback(raising_subscriber)
        self.reset()

    def _slot(self, kind):
        hook = self.slot_hook.pop(kind, None)      # one shot: the first callback of the operation in progress
        if hook:
            hook()

    def restore(self):
        self.cfm.Timer = self.real_timer
        if self.real_current_thread is not None:
            self.cfm.current_thread = self.real_current_thread
        self.crtp.get_link_driver = self.real_get
        Real._inst = None

    def reset(self):
        self.cf._send_lock.held = False
        self.cf._send_lock_owner = None
        self.cf._deferred_link_error = None
        try:
            self.cf.close_link()
        except Exception:
            pass
        self.cf._answer_patterns = {}
        self.timers = []
        self.clock = [0]
        FakeTimer.registry, FakeTimer.clock = self.timers, self.clock
        self.log = []
        self.links = 0
        self.pks = {}
        self.seen_tx = 0
        self.seen_timers = 0
        self.error_cb = None
        self.slot_hook = {}

    # -- observation
    def delta(self):
        txs = ['%d:%d:%d' % t for t in self.log[self.seen_tx:]]
        new = ['%d:%d' % (t.idx, t.interval_ms) for t in self.timers[self.seen_timers:]]
        self.seen_tx, self.seen_timers = len(self.log), len(self.timers)
        st = ''.join(t.state for t in self.timers) or '-'
        lk = self.cf.link.sid if self.cf.link is not None else '-'
        return 'ok tx=%s new=%s st=%s link=%s' % (','.join(txs) or '-', ','.join(new) or '-', st, lk)

    def err(self, e):
        from harness.lib.common import exc_enum
        self.seen_tx, self.seen_timers = len(self.log), len(self.timers)
        if type(e) is Exception and 'too large' in str(e):
            return 'err too_large'
        return 'err ' + exc_enum(e)

    def packet(self, pid, header, size):
        if pid not in self.pks:
            pk = self.CRTPPacket()
            pk.set_header((header >> 4) & 0x0F, header & 0x03)
            pk.data = bytes((pid * 7 + i) & 0xFF for i in range(size))
            pk._c10_id = pid
            assert pk.header == header, (pk.header, header)
            self.pks[pid] = pk
        return self.pks[pid]

    # -- one scripted step; returns the reply line(s)
    def do(self, op, scripted_exc=False):
        k = op[0]
        outer = self.thread_token
        if k in ('run', 'runf', 'runx'):
            self.thread_token = 'timer-%s' % (op[-1],)
        elif k in ('send', 'sendf', 'sendx'):
            self.thread_token = 'app'
        try:
            return self._do(op, scripted_exc)
        finally:
            self.thread_token = outer

    def _do(self, op, scripted_exc=False):
        k = op[0]
        if k in ('sendf', 'runf'):
            # the driver reports a link error from inside link.send_packet
            if self.cf.link is not None:
                self.cf.link.fail_next = True
            self.mid, self.want_mid = None, True
            try:
                rep = self.do(('send' if k == 'sendf' else 'run',) + tuple(op[1:]))
            finally:
                self.want_mid = False
                if self.cf.link is not None:
                    self.cf.link.fail_next = False
            return rep if self.mid is None or rep.startswith('err') else self.mid + ' | ' + rep
        if k in ('sendx', 'runx'):
            # op[1]: 1 = the driver's send_packet raises, 0 = a packet_sent subscriber raises
            if op[1]:
                if self.cf.link is not None:
                    self.cf.link.raise_next = True
            else:
                self.subscriber_raises = True
            try:
                rep = self.do(('send' if k == 'sendx' else 'run',) + tuple(op[2:]), scripted_exc=True)
            finally:
                self.subscriber_raises = False
                if self.cf.link is not None:
                    self.cf.link.raise_next = False
            return rep
        if k in ('open', 'lerr', 'close'):
            raise AssertionError('composite step: use do_multi')
        try:
            if k == 'open':
                def get_link_driver(uri, stats_cb=None, error_cb=None):
                    self.error_cb = error_cb
                    link = FakeLink(self.links, bool(op[1]), self.log, error_cb)
                    self.links += 1
                    return link
                self.crtp.get_link_driver = get_link_driver
                try:
                    self.cf.open_link('fake://0')
                finally:
                    self.crtp.get_link_driver = self.real_get
            elif k == 'setnr':
                if self.cf.link is not None:
                    self.cf.link.needs_resending = bool(op[1])
            elif k == 'send':
                _, pid, header, size, expected, tmo, explicit = op
                pk = self.packet(pid, header, size)
                kw = {}
                if expected or explicit:
                    kw['expected_reply'] = tuple(expected)
                if explicit or tmo != 200:
                    kw['timeout'] = tmo / 1000.0
                self.cf.send_packet(pk, **kw)
            elif k == 'recv':
                pk = self.CRTPPacket(op[1], list(op[2]))
                assert pk.header == op[1]
                self.cf.packet_received.call(pk)
            elif k == 'expire':
                i = op[1]
                if i < len(self.timers) and self.timers[i].state == 'A' and self.timers[i].deadline <= self.clock[0]:
                    self.timers[i].state = 'E'
                else:
                    return 'err not_enabled'
            elif k == 'run':
                i = op[1]
                if i < len(self.timers) and self.timers[i].state == 'E':
                    t = self.timers[i]
                    t.state = 'D'
                    try:
                        t.function(*t.args, **t.kwargs)
                    except WouldBlock:
                        t.state = 'E'      # the callback never gets past the lock: the timer thread hangs in it for ever
                        raise
                else:
                    return 'err not_enabled'
            elif k == 'adv':
                self.clock[0] += op[1]
            elif k == 'lerr':
                (self.error_cb or self.cf._link_error_cb)('scripted link error')
            else:
                raise AssertionError('unknown op %r' % (op,))
        except WouldBlock:
            self.seen_tx, self.seen_timers = len(self.log), len(self.timers)
            return 'err blocked'
        except (OSError, RuntimeError) as e:
            if scripted_exc and 'scripted' in str(e):
                return 'exc' + self.delta()[2:]       # the exception reached the caller of send_packet (the timer thread for a retry)
            return self.err(e)
        except Exception as e:
            return self.err(e)
        return self.delta()

    def do_multi(self, op):
        """one scripted step incl. the composite ones; returns the reply lines (see `op_lines`)
          ('close', between[, nested])   close_link(): close1, steps of OTHER threads after the set-point went out, close2,
                                         steps run from inside the `disconnected` callback, closeend
          ('lerr'[, nested])             the driver's error callback: lerr, steps run from inside the first application callback
                                         it calls (connection_failed / disconnected / disconnected_link_error), lerrend
          ('open', nr[, nested])         open_link(): open, steps run where open_link starts the connection set-up on the new link, openend"""
        return [r for _, r in self.do_pairs(op)]

    def do_pairs(self, op):
        """[(driver line, reply)] of one scripted step.  A composite step that blocks for ever on the send lock ends there."""
        k = op[0]
        if k not in ('close', 'lerr', 'open'):
            return [(op_line(op), self.do(op))]
        out = []
        nested = list(op[2]) if len(op) > 2 else (list(op[1]) if k == 'lerr' and len(op) > 1 else [])
        first, last = {'close': ('close2', 'closeend'), 'lerr': ('lerr', 'lerrend'), 'open': ('open %d' % (op[1] if k == 'open' else 0), 'openend')}[k]
        fired = []

        def slot():
            fired.append(1)
            out.append((first, self.delta()))
            for o in nested:
                out.extend(self.do_pairs(o))

        def call(fn):
            try:
                fn()
                if not fired:       # the operation did not reach its callback slot: the nested steps run right after it
                    slot()
                out.append((last, self.delta()))
            except WouldBlock:      # the thread hangs in the operation for ever
                self.seen_tx, self.seen_timers = len(self.log), len(self.timers)
                out.append(('close1' if k == 'close' and not any(l == 'close1' for l, _ in out) else (last if fired else first), 'err blocked'))
            except Exception as e:
                if not fired:
                    out.append((first, self.err(e)))
                out.append((last, self.err(e)))
        if k == 'close':
            def setpoint_hook():
                out.append(('close1', self.delta()))
                for o in op[1]:
                    out.extend(self.do_pairs(o))
                self.slot_hook['app'] = slot        # only now: the steps in between may run application callbacks of their own
            if self.cf.link is not None:
                self.after_setpoint = setpoint_hook
            else:
                setpoint_hook()
            call(self.cf.close_link)
            self.after_setpoint = None
        elif k == 'lerr':
            self.slot_hook['app'] = slot
            outer, self.thread_token = self.thread_token, 'driver'      # e.g. the radio thread's 'Too many packets lost'
            try:
                call(lambda: (self.error_cb or self.cf._link_error_cb)('scripted link error'))
            finally:
                self.thread_token = outer
        else:
            def get_link_driver(uri, stats_cb=None, error_cb=None):
                self.error_cb = error_cb
                link = FakeLink(self.links, bool(op[1]), self.log, error_cb)
                self.links += 1
                return link
            self.crtp.get_link_driver = get_link_driver
            self.slot_hook['setup'] = slot
            try:
                call(lambda: self.cf.open_link('fake://0'))
            finally:
                self.crtp.get_link_driver = self.real_get
        self.slot_hook.pop('app', None)
        self.slot_hook.pop('setup', None)
        return out

    def close(self, between):
        return self.do_multi(('close', between))[:-1]


def op_lines(op):
    """the driver lines of one scripted step (composite steps: see Real.do_multi)"""
    k = op[0]
    if k == 'close':
        nested = op[2] if len(op) > 2 else []
        return ['close1'] + [l for o in op[1] for l in op_lines(o)] + ['close2'] + [l for o in nested for l in op_lines(o)] + ['closeend']
    if k == 'lerr':
        return ['lerr'] + [l for o in (op[1] if len(op) > 1 else []) for l in op_lines(o)] + ['lerrend']
    if k == 'open':
        return ['open %d' % op[1]] + [l for o in (op[2] if len(op) > 2 else []) for l in op_lines(o)] + ['openend']
    return [op_line(op)]


def op_line(op):
    k = op[0]
    if k in ('send', 'sendf'):
        return '%s %d %d %d %s %d' % (k, op[1], op[2], op[3], ','.join(map(str, op[4])) or '-', op[5])
    if k == 'sendx':
        return 'sendx %d %d %d %s %d' % (op[2], op[3], op[4], ','.join(map(str, op[5])) or '-', op[6])
    if k == 'runx':
        return 'runx %d' % op[2]
    if k == 'recv':
        return 'recv %d %s' % (op[1], ','.join(map(str, op[2])) or '-')
    return ' '.join(str(x) for x in op)


def run_real(script):
    """script: list of ops; ('close', [ops in between]) is close1 / ... / close2.  Returns (lines, replies)."""
    r = Real.get()
    r.reset()
    lines, replies = [], []
    for op in script:
        for l, rep in r.do_pairs(op):
            lines.append(l)
            replies.append(rep)
    return lines, replies


# ---- generators ---------------------------------------------------------------------------------------------------
HEADERS = [0x5D, 0x5C, 0x2E, 0x4C]        # (port 5, ch 1), (port 5, ch 0), (port 2, ch 2), (port 4, ch 0) with the reserved bits set
BYTES = [1, 2, 3]


class Script:
    """builds a script while running it on the real code (so that choices can follow the real timer states)"""

    def __init__(self, rng, cfg='src'):
        self.rng = rng
        self.real = Real.get()
        self.real.reset()
        self.lines = ['reset ' + cfg]
        self.replies = ['ok']
        self.ops = []
        self.next_id = 1
        self.sent = []            # (pid, header, size, expected, timeout)

    def do(self, op):
        self.ops.append(op)
        for l, rep in self.real.do_pairs(op):
            self.lines.append(l)
            self.replies.append(rep)
        return self.replies[-1]

    def send(self, header, expected, tmo=200, size=None, explicit=False, pid=None):
        if pid is None:
            pid = self.next_id
            self.next_id += 1
        if size is None:
            size = self.rng.choice([0, 1, 2, 5, 30])
        self.sent.append((pid, header, size, tuple(expected), tmo))
        return self.do(('send', pid, header, size, tuple(expected), tmo, explicit))

    def timers(self, state):
        return [t.idx for t in self.real.timers if t.state == state]

    def link_open(self):
        return self.real.cf.link is not None

    def pending_patterns(self):
        """patterns of armed/expired timers (what a reply could plausibly answer)"""
        return [self.real_pattern(t) for t in self.real.timers if t.state in 'AE']

    def real_pattern(self, t):
        return self.timer_patterns.get(t.idx)

    timer_patterns = {}


def rand_pattern(rng):
    n = rng.choice([1, 1, 2, 2, 3, 5])
    return tuple(rng.choice(BYTES if rng.random() < 0.97 else [0, 255, 256, 70000]) for _ in range(n))


def rand_reply(rng, sc):
    """a received packet: mostly an extension / truncation / mutation of something that was asked for"""
    if sc.sent and rng.random() < 0.85:
        _, header, _, expected, _ = rng.choice(sc.sent[-6:])
        data = list(expected)
        r = rng.random()
        if r < 0.35:
            data += [rng.choice(BYTES + [0, 9]) for _ in range(rng.choice([0, 1, 2]))]
        elif r < 0.5 and data:
            data = data[:rng.randrange(len(data))]
        elif r < 0.65 and data:
            data[rng.randrange(len(data))] = rng.choice(BYTES + [9])
        elif r < 0.75:
            header = rng.choice(HEADERS)
        return header, tuple(b & 0xFF for b in data)       # a received packet holds bytes
    return rng.choice(HEADERS), tuple(rng.choice(BYTES + [0]) for _ in range(rng.randrange(0, 4)))


def rand_step(rng, sc, allow_close=True):
    """one random step of some thread, biased towards steps that are enabled"""
    r = rng.random()
    armed, expired = sc.timers('A'), sc.timers('E')
    now = sc.real.clock[0]
    if r < 0.22:
        tmo = rng.choice([200, 200, 200, 1000, 50])
        exp = rand_pattern(rng) if rng.random() < 0.85 else ()
        if sc.sent and rng.random() < 0.12:     # the same packet object again
            pid, header, size, expected, t0 = rng.choice(sc.sent)
            return ('send', pid, header, size, expected, t0, False)
        size = 31 if rng.random() < 0.03 else rng.choice([0, 1, 2, 5, 30])
        pid = sc.next_id
        sc.next_id += 1
        header = rng.choice(HEADERS[:2] if rng.random() < 0.7 else HEADERS)
        sc.sent.append((pid, header, size, exp, tmo))
        if rng.random() < 0.07:         # the driver's send_packet (1) or a packet_sent subscriber (0) raises
            return ('sendx', rng.randrange(2), pid, header, size, exp, tmo, rng.random() < 0.3)
        return ('sendf' if rng.random() < 0.06 else 'send', pid, header, size, exp, tmo, rng.random() < 0.3)
    if r < 0.40:
        h, d = rand_reply(rng, sc)
        return ('recv', h, d)
    if r < 0.58:
        due = [i for i in armed if sc.real.timers[i].deadline <= now]
        if due and rng.random() < 0.9:
            return ('expire', rng.choice(due))
        return ('expire', rng.randrange(len(sc.real.timers) + 1))
    if r < 0.74:
        k = 'runf' if rng.random() < 0.08 else 'run'
        i = rng.choice(expired) if expired and rng.random() < 0.9 else rng.randrange(len(sc.real.timers) + 1)
        if rng.random() < 0.08:
            return ('runx', rng.randrange(2), i)
        return (k, i)
    if r < 0.86:
        dls = sorted(sc.real.timers[i].deadline - now for i in armed if sc.real.timers[i].deadline > now)
        if dls and rng.random() < 0.8:
            return ('adv', dls[0] if rng.random() < 0.8 else rng.choice(dls))
        return ('adv', rng.choice([0, 1, 100, 199, 200, 1000]))
    if r < 0.90:
        nr = rng.choice([1, 1, 1, 0])
        if allow_close and rng.random() < 0.3:      # connection set-up traffic etc. from inside open_link
            return ('open', nr, rand_nested(rng, sc, reconnect=False))
        return ('open', nr)
    if r < 0.93:
        if allow_close and rng.random() < 0.6:      # the application reacts from inside connection_lost / connection_failed
            return ('lerr', rand_nested(rng, sc))
        return ('lerr',)
    if r < 0.95:
        return ('setnr', rng.choice([0, 1]))
    if allow_close:
        between = []
        if sc.link_open() and rng.random() < 0.4:
            for _ in range(rng.choice([1, 1, 2, 3])):
                between.append(rand_step(rng, sc, allow_close=False))
        if rng.random() < 0.4:                      # ... or from inside `disconnected`
            return ('close', between, rand_nested(rng, sc))
        return ('close', between)
    return ('adv', 0)


def rand_nested(rng, sc, reconnect=True):
    """what an application callback does: typically reconnect and ask for something at once; any non-composite step may follow"""
    out = []
    if reconnect and rng.random() < 0.85:
        out.append(('open', rng.choice([1, 1, 1, 0])))
    for _ in range(rng.choice([0, 1, 1, 2, 3])):
        out.append(rand_step(rng, sc, allow_close=False))
    if reconnect and rng.random() < 0.15:
        out.append(('close', []))
    return [o for o in out if o[0] not in ('lerr',) or len(o) == 1]


def gen_random(rng, n, cfg='src'):
    sc = Script(rng, cfg)
    if rng.random() < 0.9:
        sc.do(('open', rng.choice([1, 1, 1, 0])))
    for _ in range(n):
        sc.do(rand_step(rng, sc))
    return sc


def interleavings(a, b):
    if not a or not b:
        yield list(a) + list(b)
        return
    for rest in interleavings(a[1:], b):
        yield [a[0]] + rest
    for rest in interleavings(a, b[1:]):
        yield [b[0]] + rest


def fold_close(ops):
    """('close1',) x.. ('close2',)  ->  ('close', [x..]): the steps of other threads between the two halves of close_link"""
    out, i = [], 0
    while i < len(ops):
        if ops[i] == ('close1',):
            j = ops.index(('close2',), i)
            out.append(('close', list(ops[i + 1:j])))
            i = j + 1
        else:
            out.append(ops[i])
            i += 1
    return out


def gen_families(rng, thorough):
    """systematic scripts: every ordering of a reply / a close+reopen / a link error against the timer thread's two steps
    at the same virtual time, for both kinds of link and both timeouts; all sets of prefix-sharing patterns"""
    out = []
    H = HEADERS[0]
    for nr in (1, 0):
        for tmo in (200, 1000):
            timer_thread = [('adv', tmo), ('expire', 0), ('run', 0), ('adv', tmo), ('expire', 1), ('run', 1)]
            others = {
                'reply': [('recv', H, (3, 7, 1))],
                'close-reopen': [('close1',), ('close2',), ('open', nr)],
                'error-reopen': [('lerr',), ('open', nr)],
                'reply-resend': [('recv', H, (3, 7)), ('send', 2, H, 2, (3, 7), tmo, True)],
                'reopen-resend': [('close1',), ('close2',), ('open', nr), ('send', 2, H, 2, (3, 7), tmo, True)],
                'reopen-without-close': [('open', nr)],
                'nonmatching': [('recv', H, (3,)), ('recv', HEADERS[1], (3, 7, 1)), ('recv', H, (3, 8, 7))],
            }
            # the driver reports a link error from inside the retransmission (deferred until the send lock is released)
            failing_thread = [('adv', tmo), ('expire', 0), ('runf', 0), ('adv', tmo), ('expire', 1), ('run', 1)]
            for name, oth in (('driver-error', [('recv', H, (3, 7, 1))]),
                              ('driver-error-reopen', [('open', nr), ('sendf', 2, H, 2, (3, 7), tmo, True)])):
                for order in interleavings(failing_thread, oth):
                    out.append(('order:%s:nr%d:t%d' % (name, nr, tmo),
                                [('open', nr), ('send', 1, H, 2, (3, 7), tmo, tmo != 200)] + order +
                                [('adv', 1000)] + [('expire', i) for i in range(4)] + [('run', i) for i in range(4)]))
            for name, oth in others.items():
                for order in interleavings(timer_thread, oth):
                    tail = [('adv', tmo)] + [('expire', i) for i in range(4)] + [('run', i) for i in range(4)] + \
                           [('adv', 1000)] + [('expire', i) for i in range(6)] + [('run', i) for i in range(6)]
                    out.append(('order:%s:nr%d:t%d' % (name, nr, tmo),
                                [('open', nr), ('send', 1, H, 2, (3, 7), tmo, tmo != 200)] + fold_close(order) + tail))
    # a send raises (driver / packet_sent subscriber) while a request is pending: the timers must go on
    for nr in (1, 0):
        for drv in (1, 0):
            timer_thread = [('adv', 200), ('expire', 0), ('run', 0), ('adv', 200), ('expire', 1), ('runx', drv, 1), ('adv', 200), ('expire', 2), ('run', 2)]
            for name, oth in (('raise', [('sendx', drv, 2, HEADERS[3], 14, (), 200, False)]),
                              ('raise-request', [('sendx', drv, 2, H, 2, (3, 8), 1000, True), ('send', 3, H, 1, (3,), 200, False)])):
                for order in interleavings(timer_thread, oth):
                    out.append(('order:%s:nr%d:t200' % (name, nr),
                                [('open', nr), ('send', 1, H, 2, (3, 7), 200, False)] + order +
                                [('adv', 1000)] + [('expire', i) for i in range(6)] + [('run', i) for i in range(6)] + [('close', [])]))
    # the application calls back into the library from inside the callbacks of a link error / close_link:
    # reconnect + immediate request (same or another pattern), at every position relative to the old timer's steps
    for nr in (1, 0):
        for tmo in (200, 1000):
            for tname, mk in (('lerr', lambda n: ('lerr', n)), ('close', lambda n: ('close', [], n))):
                for vi, nested in enumerate((
                        [('open', nr), ('send', 2, H, 2, (3, 7), tmo, True)],
                        [('open', nr), ('send', 2, H, 2, (3, 8), tmo, True), ('send', 3, H, 1, (3,), 200, False)],
                        [('open', nr), ('send', 2, H, 2, (3, 7), tmo, True), ('recv', H, (3, 7, 1))],
                        [('send', 2, H, 2, (3, 8), tmo, True), ('open', nr), ('send', 1, H, 2, (3, 7), tmo, tmo != 200)],
                        [('open', nr), ('send', 2, H, 2, (3, 8), tmo, True), ('close', [])],
                        [('open', nr, [('send', 2, H, 2, (3, 8), tmo, True)]), ('send', 3, H, 2, (3, 9), tmo, True)])):
                    old_timer = [('adv', tmo), ('expire', 0), ('run', 0)]
                    for order in interleavings(old_timer, [mk(nested)]):
                        tail = [('adv', tmo)] + [('expire', i) for i in range(5)] + [('run', i) for i in range(5)] + \
                               [('adv', 1000)] + [('expire', i) for i in range(8)] + [('run', i) for i in range(8)]
                        out.append(('order:reentrant-%s:nr%d:t%d' % (tname, nr, tmo),
                                    [('open', nr), ('send', 1, H, 2, (3, 7), tmo, tmo != 200)] + order + tail))
    # sets of simultaneously pending patterns with shared prefixes
    pats = [(1,), (1, 2), (1, 2, 3), (1, 3), (2,)]
    datas = [(1,), (1, 2), (1, 2, 3), (1, 2, 3, 1), (1, 3), (1, 1), (2, 2), (3,), ()]
    for mask in range(1, 1 << len(pats)):
        sel = [p for i, p in enumerate(pats) if (mask >> i) & 1]
        rng.shuffle(sel)
        for d in datas:
            s = [('open', 1)] + [('send', i + 1, H, 1, p, 200, False) for i, p in enumerate(sel)]
            s += [('recv', H, d), ('adv', 200)] + [('expire', i) for i in range(len(sel))] + [('run', i) for i in range(len(sel))]
            s += [('recv', H, d)]
            out.append(('prefix-set', s))
    return out


def gen_exhaustive(depth):
    """EVERY sequence of `depth` steps over a 20-step alphabet after two prefix-sharing requests were sent"""
    import itertools
    H = HEADERS[0]
    alphabet = [('adv', 200), ('adv', 800), ('expire', 0), ('expire', 1), ('expire', 2), ('run', 0), ('run', 1), ('run', 2),
                ('recv', H, (1, 9)), ('recv', H, (1, 2, 9)), ('close', []), ('open', 1), ('lerr',),
                ('send', 3, H, 1, (1,), 200, False), ('setnr', 0), ('runf', 0),
                ('sendx', 1, 6, HEADERS[3], 14, (), 200, False), ('runx', 0, 0),
                ('lerr', [('open', 1), ('send', 4, H, 2, (1, 3), 200, False)]),
                ('close', [], [('open', 1), ('send', 5, H, 1, (1,), 200, False)])]
    prefix = [('open', 1), ('send', 1, H, 1, (1,), 200, False), ('send', 2, H, 2, (1, 2), 1000, True)]
    if depth > 3:       # thorough: all 3-step sequences over the full alphabet + all `depth`-step ones over its core
        for seq in itertools.product(alphabet, repeat=3):
            yield 'exhaustive', prefix + list(seq)
        alphabet = [a for a in alphabet if a not in (('adv', 800), ('expire', 2), ('run', 2), ('setnr', 0), ('runf', 0), ('open', 1), ('runx', 0, 0))]
    for seq in itertools.product(alphabet, repeat=depth):
        yield 'exhaustive', prefix + list(seq)


def run_script(ops, cfg='src'):
    sc = Script(None, cfg)
    for op in ops:
        sc.do(op)
    return sc


# ---- real threads under the virtual-time scheduler: the model must accept what they do -----------------------------
def _vsched_scenario(kind, tmo_ms):
    from harness import vsched
    T = tmo_ms / 1000.0

    def main():
        import cflib.crazyflie as cfm
        import cflib.crtp
        from cflib.crtp.crtpstack import CRTPPacket
        links = []

        class Link:
            def __init__(self):
                self.sid = len(links)
                links.append(self)
                self.needs_resending = True
                self.closed = False
                self.q = vsched.queue.Queue()

            def send_packet(self, pk):
                vsched.emit('tx', int(round(vsched.now() * 1000)), self.sid, getattr(pk, '_c10_id', 0), int(self.closed))
                if kind == 'raise' and getattr(pk, '_c10_id', 0) == 2:
                    raise OSError('scripted driver exception in send_packet')

            def receive_packet(self, wait=0):
                try:
                    return self.q.get(True, wait)
                except vsched.queue.Empty:
                    return None

            def close(self):
                self.closed = True
        cf = cfm.Crazyflie(rw_cache=None)
        cf.platform.fetch_platform_informations = lambda cb: None
        real_get = cflib.crtp.get_link_driver
        holder = {}

        def get_link_driver(uri, stats_cb=None, error_cb=None):
            holder['err'] = error_cb
            return Link()
        cflib.crtp.get_link_driver = get_link_driver
        try:
            cf.open_link('fake://0')
            pk = CRTPPacket()
            pk.set_header(5, 1)
            pk.data = bytes([3, 7])
            pk._c10_id = 1
            cf.send_packet(pk, expected_reply=(3, 7), **({} if tmo_ms == 200 else {'timeout': T}))
            if kind == 'reply':
                def feeder():
                    vsched.time.sleep(T)
                    links[0].q.put(CRTPPacket(pk.header, [3, 7, 1]))
                vsched.threading.Thread(target=feeder).start()
                vsched.time.sleep(2 * T + T / 2)
            elif kind == 'close-reopen':
                vsched.time.sleep(T)
                cf.close_link()
                cf.open_link('fake://0')
                vsched.time.sleep(T + T / 2)
            elif kind == 'error-reopen':
                vsched.time.sleep(T)
                holder['err']('scripted link error')
                cf.open_link('fake://0')
                vsched.time.sleep(T + T / 2)
            elif kind == 'raise':
                # an unrelated send raises in the driver while the request is pending: its retries must go on
                pk2 = CRTPPacket()
                pk2.set_header(4, 0)
                pk2.data = bytes(14)
                pk2._c10_id = 2
                try:
                    cf.send_packet(pk2)
                except OSError:
                    pass
                vsched.time.sleep(2 * T + T / 2)
            elif kind == 'reentrant-lerr':
                # the application reconnects from inside connection_failed / connection_lost and asks again at once
                pk2 = CRTPPacket()
                pk2.set_header(5, 1)
                pk2.data = bytes([3, 7])
                pk2._c10_id = 2
                once = []

                def reconnect(*a):
                    if not once:
                        once.append(1)
                        cf.open_link('fake://0')
                        cf.send_packet(pk2, expected_reply=(3, 7), timeout=T)
                for caller in (cf.connection_failed, cf.connection_lost, cf.disconnected_link_error):
                    caller.add_callback(reconnect)
                vsched.time.sleep(T)
                holder['err']('scripted link error')
                vsched.time.sleep(T + T / 2)
            cf.close_link()
        finally:
            cflib.crtp.get_link_driver = real_get
    return main


def vsched_outcomes(kind, tmo_ms, max_preemptions, max_runs):
    """transmission logs (time <= 2T) of the real Crazyflie with REAL dispatcher and Timer threads under the deterministic
    scheduler, over a depth-first enumeration of the schedules; returns ({log: count}, runs, complete, problems)"""
    from harness import vsched
    outs, problems = {}, []
    with vsched.Session(step_limit=6000) as s:
        ex = s.explore(_vsched_scenario(kind, tmo_ms), max_preemptions=max_preemptions, max_runs=max_runs)
        n = 0
        for res in ex:
            n += 1
            if res.outcome != 'ok' or res.exc is not None or res.deaths:
                problems.append((res.outcome, str(res.exc)[:200], [str(d)[:200] for d in res.deaths], list(res.choices)[:60]))
            log = tuple(e[2:] for e in res.events() if e[1] == 'tx' and e[2] <= 2 * tmo_ms)
            if log not in outs:
                outs[log] = [0, list(res.choices)]
            outs[log][0] += 1
        return outs, n, ex.complete, problems


def model_logs(lines, replies, upto):
    now, out = 0, []
    for l, r in zip(lines, replies):
        if l.startswith('adv '):
            now += int(l.split(' ')[1])
        if (r.startswith('ok tx=') or r.startswith('exc tx=')) and r.split(' ')[1] != 'tx=-':
            for t in r.split(' ')[1][3:].split(','):
                sid, pid, closed = (int(x) for x in t.split(':'))
                if now <= upto:
                    out.append((now, sid, pid))
    return tuple(out)


def vsched_accept(ctx, model_by_family):
    """every transmission log the real threads produce must be one the model produces for some ordering of the same steps"""
    thorough = ctx.tier == 'thorough'
    for kind in ('reply', 'close-reopen', 'error-reopen', 'reentrant-lerr', 'raise'):
        for tmo in ((200, 1000) if thorough and kind != 'raise' else (200,)):
            accepted = model_by_family.get('order:%s:nr1:t%d' % (kind, tmo), set())
            outs, n, complete, problems = vsched_outcomes(kind, tmo, 2, 4000 if thorough else 250)
            ctx.count('vsched:%s:schedules' % kind, n)
            ctx.count('vsched:%s:distinct-logs' % kind, len(outs))
            if complete:
                ctx.count('vsched:%s:dfs-complete(<=2 preemptions)' % kind)
            for pr in problems[:3]:
                ctx.disagree('vsched-' + kind, {'timeout': tmo, 'problem': pr}, 'no deadlock / exception / thread death', str(pr[:3]))
            for log, (cnt, choices) in sorted(outs.items()):
                ctx.case({'family': 'vsched:' + kind, 'timeout': tmo, 'log': log, 'schedules': cnt}, ('vsched', kind, tmo, log))
                # the `closed` flag is not compared: _link_error_cb does not take the send lock, so it can close the link object
                # between the decision and the transmission of a send_packet in progress (reported by search(), see docs/C10.md)
                if tuple(t[:3] for t in log) not in accepted:
                    ctx.disagree('vsched-' + kind, {'timeout': tmo, 'schedules': cnt, 'choices': choices[:80]},
                                 'one of %d logs, e.g. %s' % (len(accepted), sorted(accepted)[:3]), str(log))


RULE = ('cases = scripts of send / reply / timer-expiry / timer-callback / time / close (two halves, other threads in between) / '
        'link-error / open / needs_resending-change steps run on the real Crazyflie object (recording fake link, manually fired '
        'Timer) and on the Lean model; systematic families enumerate EVERY interleaving of the timer thread\'s steps with a reply, a '
        'close+reopen, a link error+reopen, a re-registration of the pattern, for needs_resending on/off and both timeouts, and all '
        'non-empty subsets of five prefix-sharing patterns x nine replies; EVERY sequence of 3 (thorough: 4) steps over a 20-step '
        'alphabet (incl. reconnect + request from inside the link-error / close callbacks) after two prefix-sharing requests; random scripts follow the real timer states; real dispatcher and Timer threads '
        'under the virtual-time scheduler (depth-first over the schedules with <= 2 preemptions) must produce transmission logs the '
        'model produces for some ordering; '
        'non-trivial = distinct script that transmits at least once')


def correspond(ctx):
    rng = ctx.rng
    thorough = ctx.tier == 'thorough'
    scripts = []
    cfg = os.environ.get('C10_CFG', 'src')      # development only: 'live' compares the unrepaired code with liveCfg
    try:
        for name, ops in gen_families(rng, thorough):
            scripts.append((name, run_script(ops, cfg)))
        for name, ops in gen_exhaustive(4 if thorough else 3):
            scripts.append((name, run_script(ops, cfg)))
        for k in range(12000 if thorough else 1500):
            scripts.append(('random', gen_random(rng, rng.choice([6, 12, 20, 40, 80] if thorough else [6, 12, 20, 40]), cfg)))
    finally:
        Real.get().restore()
    lines = [l for _, sc in scripts for l in sc.lines]
    model = ctx.lean(DRIVER, lines)
    pos = 0
    model_by_family = {}
    for name, sc in scripts:
        n = len(sc.lines)
        m = model[pos:pos + n]
        pos += n
        if name.startswith('order:'):
            tmo = int(name.rsplit(':t', 1)[1])
            model_by_family.setdefault(name, set()).add(model_logs(sc.lines, m, 2 * tmo))
        fam = name.split(':')[1] if name.startswith('order:') else name
        ctx.count('family:' + fam)
        for l, a, b in zip(sc.lines, m, sc.replies):
            ctx.count('op:' + l.split(' ')[0])
            if b.startswith('err'):
                ctx.count('result:' + b)
            else:
                if 'tx=-' not in b:
                    ctx.count('step-transmits')
                if 'new=-' not in b:
                    ctx.count('step-arms-timer')
        tx = sum(1 for b in sc.replies if b.startswith('ok tx=') and not b.startswith('ok tx=-'))
        ctx.case({'family': name, 'script': sc.lines[:14]}, ('s', tuple(sc.lines)) if tx else None)
        if m != sc.replies:
            i = next(i for i, (a, b) in enumerate(zip(m, sc.replies)) if a != b)
            ctx.disagree(name, {'script': sc.lines[:i + 1]}, m[i], sc.replies[i])
    if cfg == 'src':
        vsched_accept(ctx, model_by_family)


# ---- the property itself, evaluated on an observed run (Python twin of the Lean spec; needs no Lean) ----------------
def _parse_reply(rep):
    f = dict(x.split('=', 1) for x in rep.split(' ')[1:])
    tx = [tuple(int(v) for v in t.split(':')) for t in f['tx'].split(',')] if f['tx'] != '-' else []
    new = [tuple(int(v) for v in t.split(':')) for t in f['new'].split(',')] if f['new'] != '-' else []
    return tx, new, ('' if f['st'] == '-' else f['st']), (None if f['link'] == '-' else int(f['link']))


def monitor(lines, replies):
    """returns [(key, what, script up to the offending step, its reply)] - the clauses of C10 violated by the observed run.
    A request = one `send` with a non-empty expected reply on an open link that needs resending."""
    out = []
    # a send / callback during which the driver reported a link error = that step followed by the (deferred) link error
    xl, xr, xo = [], [], []      # xo: how many of the ORIGINAL lines lead up to each expanded step (for the replay)
    for n0, (line, rep) in enumerate(zip(lines, replies)):
        if line.startswith('sendx ') or line.startswith('runx '):
            # the driver / a subscriber raised: for the retry mechanism the step is the ordinary one
            line = line.replace('sendx ', 'send ', 1).replace('runx ', 'run ', 1)
            if rep.startswith('exc '):
                rep = 'ok ' + rep[4:]
        if rep == 'err blocked':
            w0 = line.split(' ')[0]
            out.append(('send-lock-held', 'a step (%s) waits for ever for the send lock, which an earlier send_packet that raised never released: '
                        'pending requests are not retransmitted and new ones not sent although the link is open' % w0, len(xl)))
        if line.startswith('sendf ') or line.startswith('runf '):
            line = line.replace('sendf ', 'send ', 1).replace('runf ', 'run ', 1)
            if ' | ' in rep:
                a, b = rep.split(' | ')
                xl += [line, 'lerr']
                xr += [a, b]
                xo += [n0, n0]
                continue
        xl.append(line)
        xr.append(rep)
        xo.append(n0)
    orig_lines, orig_replies = lines, replies
    lines, replies = xl, xr
    now = 0
    link = None            # (sid, needs_resending)
    reqs = []              # dicts
    timer_req = {}         # timer idx -> request index
    timer_deadline = {}
    states = ''

    def pending():
        return [r for r in reqs if r['status'] == 'pending']

    def end_session():
        for r in pending():
            r['status'] = 'dead'
    for step, (line, rep) in enumerate(zip(lines, replies)):
        w = line.split(' ')
        k = w[0]
        if k == 'reset' or rep.startswith('err'):
            continue
        tx, new, st, lk = _parse_reply(rep)
        before = states
        states = st
        for (sid, pid, on_closed) in tx:
            if on_closed or link is None or sid != link[0]:
                out.append(('tx-on-closed-link', 'a packet was handed to a link that is closed or is not the open link', step))
        cancelled = [i for i in range(len(before)) if before[i] == 'A' and st[i] == 'C']
        if k == 'adv':
            now += int(w[1])
        elif k == 'open':
            end_session()
            link = (lk, bool(int(w[1])))
        elif k == 'setnr':
            if link is not None:
                link = (link[0], bool(int(w[1])))
        elif k in ('close2', 'lerr'):
            end_session()
            link = None
        elif k == 'send':
            pid, header, exp, tmo = int(w[1]), int(w[2]), (() if w[4] == '-' else tuple(int(x) for x in w[4].split(','))), int(w[5])
            if link is None:
                if tx:
                    out.append(('tx-on-closed-link', 'send_packet transmitted although no link is open', step))
            else:
                if len(tx) != 1 or tx[0][1] != pid:
                    out.append(('first-transmission', 'send_packet on an open link did not transmit the packet exactly once', step))
                if exp and link[1]:
                    pat = (header,) + exp
                    for r in pending():
                        if r['pattern'] == pat:
                            r['superseded'] = True
                    r = {'pid': pid, 'pattern': pat, 'T': tmo, 'sid': link[0], 'status': 'pending', 'superseded': False,
                         'last_tx': now, 'idx': len(reqs)}
                    reqs.append(r)
                    for (ti, interval) in new:
                        timer_req[ti] = r['idx']
                        timer_deadline[ti] = now + interval
                        if interval != tmo:
                            out.append(('retry-interval', 'the retry timer does not run at the request\'s timeout interval', step))
                elif new:
                    out.append(('retry-on-reliable-link', 'a retry timer was armed for a request without expected reply or on a link that guarantees delivery', step))
        elif k == 'recv':
            data = (int(w[1]),) + (() if w[2] == '-' else tuple(int(x) for x in w[2].split(',')))
            cands = {r['pattern'] for r in pending() if data[:len(r['pattern'])] == r['pattern']}
            best = max(cands, key=len) if cands else None
            for i in cancelled:
                r = reqs[timer_req[i]] if i in timer_req else None
                if r is None or best is None or r['pattern'] != best:
                    out.append(('wrong-cancel', 'a received packet cancelled a request whose pattern is not its longest matching pending prefix', step))
            for r in pending():
                if r['pattern'] == best:
                    r['status'] = 'answered'
        elif k == 'run':
            ti = int(w[1])
            r = reqs[timer_req[ti]] if ti in timer_req else None
            if r is not None:
                if tx:
                    if r['status'] == 'answered':
                        out.append(('retry-after-answer', 'a request was retransmitted after a packet matching its expectation had been received', step))
                    elif r['status'] == 'dead':
                        out.append(('cross-session-tx', 'a request of an earlier session was transmitted on the link of a later session'
                                    if tx[0][0] != r['sid'] else 'a request was retransmitted after its session ended', step))
                    elif tx[0][1] != r['pid']:
                        out.append(('retry-wrong-packet', 'the retry transmitted another packet', step))
                    r['last_tx'] = now
                elif r['status'] == 'pending' and not r['superseded']:
                    out.append(('missing-retry', 'the retry timer of an unanswered request fired on an open link without retransmitting', step))
                for (tj, interval) in new:
                    timer_req[tj] = r['idx']
                    timer_deadline[tj] = now + interval
                    if interval != r['T']:
                        out.append(('retry-interval', 'the retry timer does not run at the request\'s timeout interval', step))
                    if r['status'] != 'pending':
                        out.append(('retry-after-answer' if r['status'] == 'answered' else 'cross-session-tx',
                                    'a retry timer was re-armed for a request that is answered or whose session ended', step))
        # retried UNTIL answered: every unanswered request of the open session has a live timer due one timeout after its last transmission
        for r in pending():
            if r['superseded']:
                continue
            live = [i for i, q in timer_req.items() if q == r['idx'] and i < len(st) and st[i] in 'AE']
            if not live:
                out.append(('missing-retry', 'an unanswered request on an open link has no retry timer pending', step))
                r['superseded'] = True      # report once
    return [(key, what, orig_lines[:xo[step] + 1], orig_replies[xo[step]]) for key, what, step in out]


def load_corpus():
    import glob
    import json
    d = os.path.join(os.path.dirname(os.path.dirname(os.path.abspath(__file__))), 'corpus', 'c10')
    res = []
    def conv(o):
        """JSON op -> op tuple; a list of lists starting with a string is a list of nested ops, any other list a tuple of ints"""
        out = []
        for x in o:
            if isinstance(x, list) and (not x or isinstance(x[0], list)) and o[0] in ('close', 'lerr', 'open'):
                out.append([conv(y) for y in x])
            elif isinstance(x, list):
                out.append(tuple(x))
            else:
                out.append(x)
        return tuple(out)
    for f in sorted(glob.glob(os.path.join(d, '*.json'))):
        j = json.load(open(f))
        res.append((os.path.basename(f), [conv(o) for o in j['script']]))
    return res


def radio_negotiation(outcomes):
    """run the safelink negotiation of the real _RadioDriverThread (synchronously, main loop disabled) once per entry of `outcomes`
    on ONE RadioDriver object, as RadioDriver.restart() does; returns link.needs_resending after each negotiation"""
    import cflib.crtp.radiodriver as rd

    class Ack:
        def __init__(self, data):
            self.ack = True
            self.data = data

    class Radio:
        def __init__(self, ok):
            self.ok = ok

        def send_packet(self, data):
            return Ack((0xff, 0x05, 0x01)) if self.ok and tuple(data) == (0xff, 0x05, 0x01) else Ack(())
    link = rd.RadioDriver()
    flags = []
    for ok in outcomes:
        th = rd._RadioDriverThread(Radio(ok), None, None, None, None, link, None)
        th._sp = True            # leave run() right after the negotiation
        th.run()
        flags.append(bool(link.needs_resending))
    return flags


def search(ctx):
    rng = ctx.rng
    seen = set()
    n = 0
    # which links guarantee delivery: the radio link does iff safelink was negotiated - also when the driver is restarted
    for outcomes in ([True], [False], [True, False], [False, True], [True, False, True, False]):
        try:
            flags = radio_negotiation(outcomes)
        except Exception as e:      # the driver changed shape: not a verdict about the property
            ctx.note('radio negotiation replay not possible: %r' % (e,))
            break
        if flags != [not ok for ok in outcomes] and 'lossy-link-not-retried' not in seen:
            lossy = next(i for i, (f, ok) in enumerate(zip(flags, outcomes)) if f != (not ok))
            sc = run_script([('open', int(flags[lossy])), ('send', 1, HEADERS[0], 2, (3, 7), 200, False), ('adv', 200), ('expire', 0), ('run', 0)])
            seen.add('lossy-link-not-retried')
            ctx.witness('lossy-link-not-retried', 'after safelink negotiations %s on one radio driver, needs_resending is %s: a request on the radio link '
                        'without safelink (which does not guarantee delivery) gets no retry timer, or one with safelink is retried'
                        % (['ok' if o else 'failed' for o in outcomes], flags),
                        {'family': 'radio-negotiation', 'negotiations': outcomes, 'needs_resending': flags, 'script': sc.lines}, reply=sc.replies[2])
    try:
        scripts = [('corpus:' + name, lambda ops=ops: run_script(ops)) for name, ops in load_corpus()]
        scripts += [(name, lambda ops=ops: run_script(ops)) for name, ops in gen_families(rng, ctx.tier == 'thorough')]
        scripts += [(name, lambda ops=ops: run_script(ops)) for name, ops in gen_exhaustive(4 if ctx.tier == 'thorough' else 3)]
        scripts += [('random', lambda: gen_random(rng, rng.choice([6, 12, 20, 40]))) for _ in range(6000 if ctx.tier == 'thorough' else 1200)]
        for name, thunk in scripts:
            sc = thunk()
            n += 1
            for key, what, prefix, reply in monitor(sc.lines, sc.replies):
                if key in seen:
                    continue
                seen.add(key)
                ctx.witness(key, what, {'family': name, 'script': prefix}, reply=reply)
    finally:
        Real.get().restore()
    ctx.count('search:scripts', n)
    # real dispatcher / timer threads under the virtual-time scheduler (depth-first over the schedules, <= 2 preemptions)
    for kind in ('reply', 'close-reopen', 'error-reopen', 'reentrant-lerr', 'raise'):
        outs, runs, complete, problems = vsched_outcomes(kind, 200, 2, 3000 if ctx.tier == 'thorough' else 250)
        ctx.count('search:vsched-schedules', runs)
        for log, (cnt, choices) in sorted(outs.items()):
            inp = {'family': 'vsched:' + kind, 'timeout_ms': 200, 'schedule': choices[:120], 'log(time,link,packet,closed)': log}
            if any((t[1] != 0 and t[2] == 1) or (kind == 'reentrant-lerr' and t[1] != 1 and t[2] == 2) for t in log) and 'cross-session-tx' not in seen:
                seen.add('cross-session-tx')
                ctx.witness('cross-session-tx', 'a request of an earlier session was transmitted on the link of a later session', inp)
            if kind == 'reentrant-lerr' and any(t[2] == 2 for t in log) and not any(t[2] == 2 and t[0] > min(u[0] for u in log if u[2] == 2) for t in log) \
                    and 'missing-retry' not in seen:
                seen.add('missing-retry')
                ctx.witness('missing-retry', 'a request sent on the link that the application re-opened from inside the link-error callback is '
                            'not retransmitted one timeout later although that link stays open and nothing was received', inp)
            if any(t[3] for t in log) and 'tx-during-link-error' not in seen:
                seen.add('tx-during-link-error')
                ctx.witness('tx-during-link-error', 'a packet was handed to a link object that the link-error callback of another thread '
                            'had closed while send_packet was in progress', inp)
        if kind == 'raise':
            for log, (cnt, choices) in sorted(outs.items()):
                if sum(1 for t in log if t[2] == 1) < 3 and 'send-lock-held' not in seen:
                    seen.add('send-lock-held')
                    ctx.witness('send-lock-held', 'after an unrelated send_packet raised in the driver, the pending request is not retransmitted at its '
                                'timeout interval any more although the link stays open (real threads: the retry timer waits for the send lock for ever)',
                                {'family': 'vsched:raise', 'timeout_ms': 200, 'schedule': choices[:120], 'log(time,link,packet,closed)': log,
                                 'outcomes': [p[0] for p in problems[:3]]})
            problems = []
        if problems:
            ctx.note('vsched %s: %d schedules ended with %s (connection-lifecycle defects D2/D3, property C02)' % (kind, len(problems), problems[0][:3]))

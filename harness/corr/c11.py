"""C11 - The TOC cache never yields a wrong table, even after a crash.

Tie A: file-name patterns, the suffix test, the json.load/json.dumps call shapes, the indent, the encoder key/attribute
list, the decoder assignment list, the element class names and type tables and the TocFetcher cache calls are re-extracted
from cflib/crazyflie/{toccache,toc,log,param}.py into Gen/C11.lean.
Tie B: the real TocCache on temp directories (generated tables, EVERY truncation offset of the written file, garbage,
ro/rw combinations, colliding CRCs), CPython's json on the same texts, and the real TocFetcher with a fake Crazyflie,
against the Lean model (Driver/C11.lean).
"""
import ast

from harness.lib import extract as X
from harness.lib.common import ExtractError

PID = 'C11'
LEAN_TARGETS = ['CfVerif.Props.C11']
PROPS_MODULES = ['CfVerif.Props.C11']
DRIVER = 'Driver/C11.lean'
REQUIRED_THEOREMS = ['CfVerif.C11.' + t for t in (
    'fetch_reads_only_matching_name', 'used_only_on_crc_match', 'decoder_encoder_id', 'elem_toVal_injective', 'load_eq_store',
    'load_never_wrong', 'fetch_after_insert_eq_store', 'downloaded_table_is_dict', 'json_proper_prefix_rejected',
    'truncation_is_miss', 'truncated_file_is_miss', 'missing_file_is_miss', 'unparsable_file_is_miss',
    'crash_then_restart_is_miss', 'miss_starts_download', 'miss_download_completes', 'hit_uses_cache', 'ro_never_written',
    'init_never_writes_files', 'never_wrong_table', 'tracked_is_last_insert', 'info_reply_decodes_to_announced_crc',
    'fetcher_uses_announced_crc', 'other_crc_any_generation_downloads', 'gen_info_unpack', 'collision_counterexample', 'gen_keys', 'gen_decoder', 'gen_encoder', 'gen_fetch_lookup',
    'gen_fetch_load', 'gen_insert', 'gen_init', 'gen_fetcher', 'gen_crc_is_u32', 'gen_type_strings_valid')]
TRUSTED = ['harness/corr/c11.py extractor + correspondence',
           "CPython json (C scanner/encoder) behaves as Model/C11 `loads`/`printToc` on the texts explored (validated on every run, not proved)",
           "text files are UTF-8 and '\\n' is written as one byte (POSIX); os/glob list a directory as the model's FS does",
           'the element classes are plain attribute holders (TocCache only reads/sets the seven attributes)']
ASSUMPTIONS = ['strings are sequences of Unicode scalar values (device names are ISO-8859-1 decoded, so always)',
               'tables are dicts of dicts: duplicate-free group names and variable names (Toc.add_element guarantees it; proved)',
               'checksums are 32-bit (unpacked with struct code I; obligation gen_crc_is_u32)',
               "eval() of a '__class__' string other than the two element class names, str() of floats/lists/dicts, truthiness of a "
               'top-level float, ints beyond 4300 digits, glob metacharacters or a trailing slash in the '
               'cache directory names, and recursion limits are outside the model (driver answers `unmodelled` where it can tell)',
               'torn writes other than truncation (reordered blocks) are outside the model']
RULE = ('cases = (1) JSON texts: fixed dialect probes + grammar-generated documents (escapes, surrogate pairs, numbers, constants, '
        'duplicate keys, class-tagged objects with missing/odd members) + byte-level mutations of real cache files + raw byte strings '
        '(UTF-8 edge cases), each through the real fetch path and Json.loads; (2) generated tables (identifier, Latin-1, nasty, astral '
        'and `__class__` names; log/param/mixed; boundary idents) through real insert/fetch vs printToc/loads incl. EVERY truncation '
        'offset of every written file; (3) op scripts on temp directory trees: ro/rw/both/none/same/missing/unmakeable, stored, foreign, '
        'hidden and suffix-colliding names, unopenable entries (directory / dangling link / unreadable file carrying a cache file name, at scan time and behind the back of the live cache), failing open, cut writes, vanishing files, restarts; (4) TocFetcher with a fake Crazyflie: '
        'cold, warm, truncated, garbage, other-class file, and every kind of unusable hit (vanished after the scan, directory, dangling link, unreadable; rw and ro); non-trivial = distinct (kind, text/table/script step)')
SRC = 'cflib/crazyflie/toccache.py'


def _assign_map(fn):
    return {ast.unparse(n.targets[0]): n.value for n in ast.walk(fn) if isinstance(n, ast.Assign) and len(n.targets) == 1}


def _calls(node, pred):
    res = [n for n in ast.walk(node) if isinstance(n, ast.Call) and pred(ast.unparse(n.func))]
    return sorted(res, key=lambda n: (n.lineno, n.col_offset))


def _str_const(e, what):
    X.expect(isinstance(e, ast.Constant) and isinstance(e.value, str), '%s: expected a string literal, got %s' % (what, ast.unparse(e)))
    return e.value


def extract(ctx):
    g = X.GenFile(PID, [SRC, 'cflib/crazyflie/toc.py', 'cflib/crazyflie/log.py', 'cflib/crazyflie/param.py'])
    tree = X.parse(SRC)
    cls = X.find(tree, 'TocCache')

    # ---- imports: the names eval() can resolve to element classes
    imported = []
    for n in tree.body:
        if isinstance(n, ast.ImportFrom):
            imported += [a.asname or a.name for a in n.names]
    log_cls = X.find(X.parse('cflib/crazyflie/log.py'), 'LogTocElement')
    par_cls = X.find(X.parse('cflib/crazyflie/param.py'), 'ParamTocElement')
    X.expect('LogTocElement' in imported and 'ParamTocElement' in imported, 'toccache no longer imports both element classes')
    g.string('logClassName', log_cls.name)
    g.string('paramClassName', par_cls.name)

    # ---- __init__: glob order and patterns, rw directory creation
    ini = X.find(cls, '__init__')
    globs = _calls(ini, lambda f: f == 'glob')
    g.strings('initGlobs', [ast.unparse(c.args[0]) if c.args else '?' for c in globs])
    g.strings('initGlobTargets', [ast.unparse(n.target) + ' ' + type(n.op).__name__ for n in ast.walk(ini) if isinstance(n, ast.AugAssign)])
    g.strings('initTests', [ast.unparse(n.test) for n in sorted((m for m in ast.walk(ini) if isinstance(m, ast.If)), key=lambda m: m.lineno)])
    g.strings('initMkdirs', [ast.unparse(c) for c in _calls(ini, lambda f: f.startswith('os.') and f != 'os.path.exists')])
    g.string('initRwAssign', ast.unparse(_assign_map(ini).get('self._rw_cache', ast.Constant(value=None))))

    # ---- fetch
    fe = X.find(cls, 'fetch')
    am = _assign_map(fe)
    X.expect('pattern' in am and isinstance(am['pattern'], ast.BinOp) and isinstance(am['pattern'].op, ast.Mod), 'fetch: pattern = <fmt> % crc not found')
    g.string('fetchPattern', _str_const(am['pattern'].left, 'fetch pattern'))
    g.string('fetchPatternArg', ast.unparse(am['pattern'].right))
    loops = [n for n in ast.walk(fe) if isinstance(n, ast.For)]
    X.expect(len(loops) == 1, 'fetch: expected one for loop')
    lp = loops[0]
    g.string('fetchLoop', 'for %s in %s' % (ast.unparse(lp.target), ast.unparse(lp.iter)))
    X.expect(len(lp.body) == 1 and isinstance(lp.body[0], ast.If) and not lp.body[0].orelse and len(lp.body[0].body) == 1,
             'fetch: loop body is no longer a single `if <match>: hit = name`')
    g.string('fetchMatch', ast.unparse(lp.body[0].test))
    g.string('fetchMatchBody', ast.unparse(lp.body[0].body[0]))
    inits = {ast.unparse(s.targets[0]): ast.unparse(s.value) for s in reversed(fe.body) if isinstance(s, ast.Assign)}
    g.string('fetchHitInit', inits.get('hit', '?'))
    loads = _calls(fe, lambda f: f.startswith('json.'))
    X.expect(len(loads) == 1, 'fetch: expected one json call')
    g.string('fetchLoad', ast.unparse(loads[0]))
    opens = _calls(fe, lambda f: f == 'open')
    g.strings('fetchOpen', [ast.unparse(c) for c in opens])
    trys = [n for n in ast.walk(fe) if isinstance(n, ast.Try)]
    X.expect(len(trys) == 1 and len(trys[0].handlers) == 1, 'fetch: expected one try with one handler')
    h = trys[0].handlers[0]
    g.string('fetchExcept', ast.unparse(h.type) if h.type is not None else '<bare>')
    g.strings('fetchTryAssigns', [ast.unparse(n.targets[0]) for n in ast.walk(trys[0]) if isinstance(n, ast.Assign)])
    g.strings('fetchHandlerStmts', [type(s).__name__ + ':' + (ast.unparse(s.value.func) if isinstance(s, ast.Expr) and isinstance(s.value, ast.Call) else '')
                                    for s in h.body])
    rets = [n for n in ast.walk(fe) if isinstance(n, ast.Return)]
    g.strings('fetchReturns', [ast.unparse(r.value) if r.value is not None else 'None' for r in rets])
    g.string('fetchDataInit', inits.get('cache_data', '?'))

    # ---- insert
    ins = X.find(cls, 'insert')
    am = _assign_map(ins)
    X.expect('filename' in am and isinstance(am['filename'], ast.BinOp) and isinstance(am['filename'].op, ast.Mod), 'insert: filename = <fmt> % (...) not found')
    g.string('insertPattern', _str_const(am['filename'].left, 'insert pattern'))
    rhs = am['filename'].right
    g.strings('insertPatternArgs', [ast.unparse(e) for e in (rhs.elts if isinstance(rhs, ast.Tuple) else [rhs])])
    tests = [n for n in ast.walk(ins) if isinstance(n, ast.If)]
    X.expect(len(tests) == 1, 'insert: expected one if')
    g.string('insertGuard', ast.unparse(tests[0].test))
    g.strings('insertOpen', [ast.unparse(c) for c in _calls(ins, lambda f: f == 'open')])
    dumps = _calls(ins, lambda f: f.startswith('json.'))
    X.expect(len(dumps) == 1, 'insert: expected one json call')
    d = dumps[0]
    g.string('insertDumpFn', ast.unparse(d.func))
    g.strings('insertDumpArgs', [ast.unparse(a) for a in d.args] + sorted('%s=%s' % (k.arg, ast.unparse(k.value)) for k in d.keywords if k.arg != 'indent'))
    ind = [k.value for k in d.keywords if k.arg == 'indent']
    X.expect(len(ind) == 1 and isinstance(ind[0], ast.Constant) and isinstance(ind[0].value, int) and ind[0].value > 0,
             'insert: json.dumps indent is not a positive int literal (the printer model covers indent=<n> only)')
    g.nat('indent', ind[0].value)
    writes = _calls(ins, lambda f: f.endswith('.write'))
    g.strings('insertWrites', [ast.unparse(c.func) + '(' + ('json' if c.args and c.args[0] is d else ast.unparse(c.args[0]) if c.args else '') + ')' for c in writes])
    g.strings('insertAppends', [ast.unparse(n) for n in ast.walk(ins) if isinstance(n, ast.AugAssign)])
    trys = [n for n in ast.walk(ins) if isinstance(n, ast.Try)]
    X.expect(len(trys) == 1 and len(trys[0].handlers) == 1, 'insert: expected one try with one handler')
    h = trys[0].handlers[0]
    g.string('insertExcept', ast.unparse(h.type) if h.type is not None else '<bare>')
    g.strings('insertHandlerStmts', [type(s).__name__ + ':' + (ast.unparse(s.value.func) if isinstance(s, ast.Expr) and isinstance(s.value, ast.Call) else '')
                                     for s in h.body])

    # ---- _encoder: key -> attribute, in emission order
    enc = X.find(cls, '_encoder')
    am = _assign_map(enc)
    X.expect('encoded' in am and isinstance(am['encoded'], ast.Dict), '_encoder: encoded = {...} not found')
    keys = [_str_const(k, '_encoder key') for k in am['encoded'].keys]
    g.strings('encoderKeys', keys)
    g.strings('encoderExprs', [ast.unparse(v) for v in am['encoded'].values])
    ifs = [n for n in ast.walk(enc) if isinstance(n, ast.If)]
    X.expect(len(ifs) == 1 and not ifs[0].orelse, '_encoder: expected one if without else')
    g.string('encoderParamTest', ast.unparse(ifs[0].test))
    pk, pe = [], []
    for s in ifs[0].body:
        X.expect(isinstance(s, ast.Assign) and isinstance(s.targets[0], ast.Subscript) and ast.unparse(s.targets[0].value) == 'encoded',
                 '_encoder: unexpected statement under the ParamTocElement test: ' + ast.unparse(s))
        pk.append(_str_const(s.targets[0].slice, '_encoder param key'))
        pe.append(ast.unparse(s.value))
    g.strings('encoderParamKeys', pk)
    g.strings('encoderParamExprs', pe)
    rets = [n for n in enc.body if isinstance(n, ast.Return)]
    g.strings('encoderReturns', [ast.unparse(r.value) for r in rets[:1]])

    # ---- _decoder
    dec = X.find(cls, '_decoder')
    top = [s for s in dec.body if not (isinstance(s, ast.Expr) and isinstance(s.value, ast.Constant))]
    X.expect(len(top) == 2 and isinstance(top[0], ast.If) and isinstance(top[1], ast.Return), '_decoder: expected `if <tagged>: ...; return obj`')
    g.string('decoderTest', ast.unparse(top[0].test))
    g.string('decoderElse', ast.unparse(top[1]))
    body = top[0].body
    X.expect(isinstance(body[0], ast.Assign) and isinstance(body[-1], ast.Return), '_decoder: tagged branch shape changed')
    g.string('decoderCtor', ast.unparse(body[0]))
    g.string('decoderReturn', ast.unparse(body[-1]))
    plain, dkeys, dstr = [], [], []
    ptest, pas, pkeys = '', [], []

    def key_of(stmt):
        # elem.<attr> = obj['<key>']  |  elem.<attr> = str(obj['<key>'])
        X.expect(isinstance(stmt, ast.Assign) and isinstance(stmt.targets[0], ast.Attribute) and ast.unparse(stmt.targets[0].value) == 'elem',
                 '_decoder: unexpected statement ' + ast.unparse(stmt))
        v = stmt.value
        wrapped = False
        if isinstance(v, ast.Call) and ast.unparse(v.func) == 'str' and len(v.args) == 1:
            v = v.args[0]
            wrapped = True
        X.expect(isinstance(v, ast.Subscript) and ast.unparse(v.value) == 'obj', '_decoder: unexpected right-hand side ' + ast.unparse(stmt))
        return stmt.targets[0].attr, _str_const(v.slice, '_decoder key'), wrapped
    for s in body[1:-1]:
        if isinstance(s, ast.If):
            X.expect(not s.orelse and not ptest, '_decoder: unexpected if')
            ptest = ast.unparse(s.test)
            for t in s.body:
                a, k, w = key_of(t)
                pas.append(ast.unparse(t))
                pkeys.append(k)
        else:
            X.expect(not ptest, '_decoder: assignment after the ParamTocElement test')
            a, k, w = key_of(s)
            plain.append(ast.unparse(s))
            dkeys.append(k)
            dstr.append(1 if w else 0)
    g.strings('decoderAssigns', plain)
    g.strings('decoderKeys', dkeys)
    g.nats('decoderStrWrapped', dstr)
    g.string('decoderParamTest', ptest)
    g.strings('decoderParamAssigns', pas)
    g.strings('decoderParamKeys', pkeys)

    # ---- element type tables (the values ctype / pytype can take on a downloaded element)
    def types_of(c, what):
        am = _assign_map(c)
        X.expect('types' in am, what + ': no types table')
        try:
            t = ast.literal_eval(am['types'])
        except Exception:
            raise ExtractError(what + ': types table is not a literal')
        return [(k, v[0], v[1]) for k, v in sorted(t.items())]
    for nm, c in (('log', log_cls), ('param', par_cls)):
        t = types_of(c, nm)
        g.nats(nm + 'TypeIds', [k for k, _, _ in t])
        g.strings(nm + 'CTypes', [a for _, a, _ in t])
        g.strings(nm + 'PyTypes', [b for _, _, b in t])
    # attributes the element constructors set without data (what eval(<class>)() starts from)
    for nm, c in (('log', log_cls), ('param', par_cls)):
        ini = X.find(c, '__init__')
        first = []
        for s in ini.body:
            if isinstance(s, ast.Assign) and isinstance(s.targets[0], ast.Attribute):
                first.append(ast.unparse(s))
        g.strings(nm + 'CtorDefaults', first)
        g.strings(nm + 'CtorArgs', [a.arg for a in ini.args.args] + [ast.unparse(d) for d in ini.args.defaults])

    # ---- TocFetcher: how the cache is consulted
    tf = X.func('cflib/crazyflie/toc.py', 'TocFetcher._new_packet_cb')
    sc = X.struct_calls(tf)
    infos = [c for c in sc if c['fn'] == 'unpack' and c['fmt'] and 'I' in c['fmt']]
    X.expect(len(infos) == 2, 'TocFetcher: expected two info unpack calls')
    g.strings('infoFmts', [c['fmt'] for c in infos])
    g.strings('infoArgs', [c['args'][0] for c in infos])
    infotargets = [ast.unparse(n.targets[0]) for n in ast.walk(tf) if isinstance(n, ast.Assign) and isinstance(n.value, ast.Call)
                   and ast.unparse(n.value.func) == 'struct.unpack' and isinstance(n.targets[0], (ast.List, ast.Tuple))]
    g.strings('infoTargets', infotargets)
    g.strings('fetcherCacheCalls', [ast.unparse(c) for c in _calls(tf, lambda f: f.startswith('self._toc_cache.'))])
    am = _assign_map(tf)
    g.string('fetcherFetchAssign', ast.unparse(am.get('cache_data', ast.Constant(value='?'))))
    hit_if = [n for n in ast.walk(tf) if isinstance(n, ast.If) and ast.unparse(n.test) in ('cache_data', '(cache_data)')]
    X.expect(len(hit_if) == 1, 'TocFetcher: `if cache_data:` not found')
    hi = hit_if[0]
    g.strings('fetcherHitBody', [ast.unparse(s).split('\n')[0] for s in hi.body if not (isinstance(s, ast.Expr) and ast.unparse(s).startswith('logger.'))])
    g.strings('fetcherMissBody', [ast.unparse(s).split('\n')[0] for s in hi.orelse if not (isinstance(s, ast.Expr) and ast.unparse(s).startswith('logger.'))])
    g.strings('fetcherCompares', X.compares(tf))
    return {'C11.lean': g.render()}


# ======================================================================================================
# Tie B
# ======================================================================================================
import contextlib
import io
import json
import os
import shutil
import struct
import tempfile

CORPUS = os.path.join(os.path.dirname(os.path.dirname(os.path.abspath(__file__))), 'corpus', 'c11')


def _mods():
    import logging
    logging.disable(logging.CRITICAL)
    import cflib.crazyflie.toccache as tc
    from cflib.crazyflie.log import LogTocElement
    from cflib.crazyflie.param import ParamTocElement
    return tc, LogTocElement, ParamTocElement


def enc(s):
    """a Python str as dotted code points"""
    return '.'.join(str(ord(c)) for c in s) if s else '_'


def enc_opt(s):
    return '~' if s is None else enc(s)


def hexb(b):
    return bytes(b).hex() if b else '-'


def canon(v):
    """canonical text of a value json.load(object_hook=_decoder) can return"""
    _, L, P = _mods()
    if v is None:
        return 'N'
    if v is True:
        return 'T'
    if v is False:
        return 'F'
    if isinstance(v, int):
        return 'I%d' % v
    if isinstance(v, float):
        return 'D'
    if isinstance(v, str):
        return 'S' + enc(v)
    if isinstance(v, list):
        return 'A[' + ','.join(canon(x) for x in v) + ']'
    if isinstance(v, dict):
        return 'O{' + ','.join(enc(k) + ':' + canon(x) for k, x in v.items()) + '}'
    if isinstance(v, P):
        return 'E(P,%s,%s,%s,%s,%s,%s,%s)' % (canon(v.ident), enc(v.group), enc(v.name), enc(v.ctype), enc(v.pytype), canon(v.access), canon(v.extended))
    if isinstance(v, L):
        return 'E(L,%s,%s,%s,%s,%s,%s,~)' % (canon(v.ident), enc(v.group), enc(v.name), enc(v.ctype), enc(v.pytype), canon(v.access))
    return '?' + type(v).__name__


# ---- tables ------------------------------------------------------------------------------------------
class E:
    """harness-side description of one element (cls 'L'/'P')"""

    def __init__(self, cls, ident, group, name, ctype, pytype, access, ext):
        self.cls, self.ident, self.group, self.name, self.ctype, self.pytype, self.access, self.ext = cls, ident, group, name, ctype, pytype, access, ext

    def real(self):
        _, L, P = _mods()
        e = (L if self.cls == 'L' else P)()
        e.ident, e.group, e.name, e.ctype, e.pytype, e.access = self.ident, self.group, self.name, self.ctype, self.pytype, self.access
        if self.cls == 'P':
            e.extended = self.ext
        return e

    def spec(self):
        return '/'.join([self.cls, str(self.ident), enc(self.group), enc(self.name), enc(self.ctype), enc(self.pytype), str(self.access), '1' if self.ext else '0'])

    def fields(self):
        return (self.cls, self.ident, self.group, self.name, self.ctype, self.pytype, self.access, self.ext if self.cls == 'P' else None)


def elem_fields(e):
    _, L, P = _mods()
    if isinstance(e, P):
        return ('P', e.ident, e.group, e.name, e.ctype, e.pytype, e.access, e.extended)
    if isinstance(e, L):
        return ('L', e.ident, e.group, e.name, e.ctype, e.pytype, e.access, None)
    return ('?', repr(e))


def toc_spec(toc):
    """toc: {group: {name: E}} -> one word for the Lean driver"""
    if not toc:
        return '-'
    return '|'.join(enc(g) + ':' + ','.join(enc(n) + '=' + e.spec() for n, e in ns.items()) for g, ns in toc.items())


def toc_real(toc):
    return {g: {n: e.real() for n, e in ns.items()} for g, ns in toc.items()}


def toc_canon(toc):
    return canon(toc_real(toc))


IDENT_CHARS = 'abcdefghijklmnopqrstuvwxyzABCDEFGHIJKLMNOPQRSTUVWXYZ_0123456789'
NASTY = ['"', '\\', '/', '\n', '\r', '\t', '\b', '\f', '\x00', '\x01', '\x1f', ' ', '\x7f', '\x80', '\xe9', '\xff', '{', '}', '[', ']', ':', ',',
         'u', '\\u', 'Ā', ' ', '퟿', '', '￿', '\U00010000', '\U0001f600', '\U0010ffff']


def gen_name(rng, kind=None):
    kind = kind or rng.choice(['id'] * 8 + ['latin', 'nasty', 'nasty', 'class', 'empty', 'uni'])
    if kind == 'id':
        return ''.join(rng.choice(IDENT_CHARS) for _ in range(rng.choice([1, 2, 3, 5, 8, 12])))
    if kind == 'latin':     # what ISO-8859-1 decoding of device bytes can give
        return ''.join(chr(rng.randrange(1, 256)) for _ in range(rng.randrange(1, 8)))
    if kind == 'nasty':
        return ''.join(rng.choice(NASTY + list('ab')) for _ in range(rng.randrange(1, 7)))
    if kind == 'class':
        return '__class__'
    if kind == 'uni':
        return ''.join(chr(rng.choice([rng.randrange(0, 0xD800), rng.randrange(0xE000, 0x110000)])) for _ in range(rng.randrange(1, 5)))
    return ''


def gen_elem(rng, cls, group, name, ident, types):
    ct, pt = rng.choice(types[cls])
    r = rng.random()
    if r < 0.06:
        ct, pt = gen_name(rng), gen_name(rng, 'nasty')
    ident = ident if rng.random() < 0.9 else rng.choice([0, 255, 256, 65535, 65536, 2 ** 32, 10 ** 30, -1, -70000])
    if cls == 'L':
        access = rng.choice([0, 0, 0, 0x10, 1, -3])
    else:
        access = rng.choice([0, 1, 0, 1, 2, -1])
    eg = group if rng.random() < 0.95 else gen_name(rng)
    en = name if rng.random() < 0.95 else gen_name(rng)
    return E(cls, ident, eg, en, ct, pt, access, rng.random() < 0.4)


def gen_toc(rng, types, max_groups=4, max_names=4, cls=None, kinds=None):
    cls = cls or rng.choice(['L', 'P', 'P', 'mixed'])
    toc = {}
    ident = 0
    for _ in range(rng.randrange(0, max_groups + 1)):
        g = gen_name(rng, kinds and rng.choice(kinds))
        ns = {}
        for _ in range(rng.randrange(0 if rng.random() < 0.05 else 1, max_names + 1)):
            n = gen_name(rng, kinds and rng.choice(kinds))
            c = cls if cls != 'mixed' else rng.choice('LP')
            ns[n] = gen_elem(rng, c, g, n, ident, types)
            ident += 1
        toc[g] = ns
    return toc


def has_class_key(toc):
    return '__class__' in toc or any('__class__' in ns for ns in toc.values())


def type_tables():
    _, L, P = _mods()
    return {'L': [(v[0], v[1]) for v in L.types.values()], 'P': [(v[0], v[1]) for v in P.types.values()]}


# ---- the paired real / model session ---------------------------------------------------------------
class CutWriter:
    """file object whose write() stores k bytes and then fails (disk full / process killed)"""

    def __init__(self, f, k):
        self.f, self.k = f, k

    def write(self, s):
        self.f.write(s[:self.k])
        self.f.close()
        raise OSError(28, 'No space left on device')

    def close(self):
        self.f.close()


class Session:
    """drives the real TocCache on a temp directory tree and records the equivalent Lean driver lines"""

    def __init__(self, ctx):
        self.ctx = ctx
        self.root = tempfile.mkdtemp(prefix='c11-')
        self.lines = []      # (line, expected reply from the real side, description, nontrivial key)
        self.cache = None
        self.ro = self.rw = None
        self.noperm = set()     # paths every open() of which raises PermissionError (the checks run as root: produced at the module's `open`)
        self.base_n = 0
        self.emit('reset', 'ok', None, None)

    def close(self):
        shutil.rmtree(self.root, ignore_errors=True)

    def emit(self, line, real, desc, key):
        self.lines.append((line, real, desc, key))

    def path(self, *parts):
        return os.path.join(self.root, *parts)

    # -- file system set-up (both sides) --
    def mkdir(self, d):
        os.makedirs(d, exist_ok=True)

    def put(self, path, data):
        with open(path, 'wb') as f:
            f.write(data)

    def ghost_kind(self, path):
        """directory entries that the scan lists but open() cannot read"""
        if path in self.noperm:
            return 'noperm'
        if os.path.islink(path) and not os.path.exists(path):
            return 'dangling'
        if os.path.isdir(path):
            return 'dir'
        return None

    def _open(self, name, mode='r', *a, **k):
        if os.path.abspath(name) in self.noperm:
            raise PermissionError(13, 'Permission denied', name)
        return open(name, mode, *a, **k)

    @contextlib.contextmanager
    def shim(self, opener=None):
        """the module-level `open` the library calls: permission failures, and optionally a failing / cutting writer"""
        tc, _, _ = _mods()
        if opener is None and not self.noperm:
            yield
            return
        tc.open = opener or self._open
        try:
            yield
        finally:
            del tc.open

    def make_ghost(self, path, kind, live=False):
        """replace the (possibly absent) entry at `path`; live=True: behind the back of the live cache (the model is told now)"""
        if os.path.islink(path) or os.path.isfile(path):
            os.remove(path)
        self.noperm.discard(path)
        if kind == 'dir':
            os.mkdir(path)
        elif kind == 'dangling':
            os.makedirs(self.path('gone'), exist_ok=True)
            self.n_links = getattr(self, 'n_links', 0) + 1      # a fresh target every time: a write through an earlier link
            target = self.path('gone', '%s.target%d' % (os.path.basename(path), self.n_links))   # has created that link's target
            assert not os.path.lexists(target)
            os.symlink(target, path)
        elif kind == 'noperm':
            with open(path, 'wb') as f:
                f.write(b'{}')
            self.noperm.add(path)
        if live:
            self.emit('ghost %s %s' % (enc(path), kind), 'ok', None, None)

    def canon_files(self):
        """`_cache_files` with, inside each globbed directory segment, unopenable entries after the files (the model's
        listing convention; only the relative order of entries ending in the same pattern is observable)"""
        files = list(self.cache._cache_files)
        head, tail = files[:self.base_n], files[self.base_n:]
        out = []
        for seg in (head[:self.n_ro], head[self.n_ro:]):       # the ro scan, then the rw scan
            out += [p for p in seg if self.ghost_at_new.get(p) is None] + [p for p in seg if self.ghost_at_new.get(p) is not None]
        return out + tail

    def sync_fs(self, dirs, readonly=False):
        """send the model the current content of `dirs` in the order the OS lists them"""
        self.emit('listing', 'ok', None, None)
        self.emit('readonly %d' % (1 if readonly else 0), 'ok', None, None)
        seen = set()
        self.ghost_at_scan = {}
        for d in dirs:
            if d is None or d in seen:
                continue
            seen.add(d)
            if os.path.isdir(d):
                self.emit('mkdir ' + enc(d), 'ok', None, None)
                ghosts = []
                with os.scandir(d) as it:
                    for ent in it:
                        p = d + '/' + ent.name
                        k = self.ghost_kind(p)
                        if k is not None:
                            ghosts.append((p, k))
                            self.ghost_at_scan[p] = k
                        elif ent.is_file():
                            self.emit('file %s %s' % (enc(p), hexb(open(ent.path, 'rb').read())), 'ok', None, None)
                for p, k in ghosts:
                    self.emit('ghost %s %s' % (enc(p), k), 'ok', None, None)

    def new(self, ro, rw, readonly=False, desc=None):
        tc, _, _ = _mods()
        self.sync_fs([ro, rw], readonly)
        self.ro, self.rw = ro, rw
        try:
            import glob as _glob
            self.n_ro = len(_glob.glob(ro + '/*.json')) if ro else 0
            self.cache = tc.TocCache(ro_cache=ro, rw_cache=rw)
            self.base_n = len(self.cache._cache_files)
            self.ghost_at_new = dict(self.ghost_at_scan)
            real = 'ok ' + (','.join(enc(p) for p in self.canon_files()) or '-')
        except Exception:
            self.cache = None
            real = 'exc'
        self.emit('new %s %s' % (enc_opt(ro or None), enc_opt(rw or None)), real, desc or {'op': 'new', 'ro': bool(ro), 'rw': bool(rw)}, ('new', bool(ro), bool(rw), ro == rw, real[:3]))
        return real

    def fetch(self, crc, desc=None, key=None):
        try:
            with self.shim():
                real = 'ok ' + canon(self.cache.fetch(crc))
        except Exception as e:      # fetch must not raise; if it does the model ("exc" is never a fetch reply) disagrees
            real = 'raised ' + type(e).__name__
        self.emit('fetch %d' % crc, real, desc or {'op': 'fetch', 'crc': crc}, key)
        return real

    def insert(self, crc, toc, desc=None, key=None, fail_open=False):
        if fail_open:
            self.emit('readonly 1', 'ok', None, None)

        def bad_open(name, mode='r', *a, **k):
            if 'w' in mode:
                raise PermissionError(13, 'Permission denied')
            return self._open(name, mode, *a, **k)
        try:
            with self.shim(bad_open if fail_open else None):
                self.cache.insert(crc, toc_real(toc))
            real = 'ok'
        except Exception as e:
            real = 'raised ' + type(e).__name__
        self.emit('insert %d %s' % (crc, toc_spec(toc)), real, desc or {'op': 'insert', 'crc': crc, 'groups': len(toc)}, key)
        if fail_open:
            self.emit('readonly 0', 'ok', None, None)

    def insert_cut(self, crc, toc, k, desc=None, key=None):
        """the write is cut after k characters (write raises; the exception is swallowed by insert)"""
        def cut_open(name, mode='r', *a, **kw):
            f = self._open(name, mode, *a, **kw)
            return CutWriter(f, k) if 'w' in mode else f
        try:
            with self.shim(cut_open):
                self.cache.insert(crc, toc_real(toc))
            real = 'ok'
        except Exception as e:
            real = 'raised ' + type(e).__name__
        self.emit('insertcut %d %s %d' % (crc, toc_spec(toc), k), real, desc or {'op': 'insertcut', 'crc': crc, 'k': k}, key)

    def cat(self, path, key=None):
        try:
            if path in self.noperm:
                raise PermissionError(13, 'Permission denied')
            real = 'ok ' + hexb(open(path, 'rb').read())
        except OSError:
            real = 'none'
        self.emit('cat ' + enc(path), real, {'op': 'cat'}, key)
        return real

    def files(self):
        self.emit('files', 'ok ' + (','.join(enc(p) for p in self.canon_files()) or '-'), {'op': 'files'}, None)


def run_lines(ctx, name, lines):
    replies = ctx.lean(DRIVER, [l[0] for l in lines])
    for (line, real, desc, key), model in zip(lines, replies):
        if desc is not None:
            ctx.case(desc, key)
        if model == 'unmodelled':
            ctx.count('model:unmodelled')      # explicit "outside the model" outcome: nothing to compare
            continue
        if model != real:
            ctx.disagree(name, line[:400], model[:400], real[:400])


def run_batches(ctx, batches):
    """one driver process for everything (every session starts with `reset`)"""
    allines = [l for _, ls in batches for l in ls]
    replies = ctx.lean(DRIVER, [l[0] for l in allines])
    i = 0
    for name, ls in batches:
        for (line, real, desc, key) in ls:
            model = replies[i]
            i += 1
            if desc is not None:
                ctx.case(desc, key)
            if model == 'unmodelled':
                ctx.count('model:unmodelled')
                continue
            if model != real:
                ctx.disagree(name, line[:400], model[:400], real[:400])


def written_path(cache, rw, crc):
    """where the real insert put the file for `crc` (the documented name; else whatever insert recorded last)"""
    p = '%s/%08X.json' % (rw, crc)
    if os.path.isfile(p):
        return p
    if cache is not None and cache._cache_files and os.path.isfile(cache._cache_files[-1]):
        return cache._cache_files[-1]
    return None


def stored_name(crc):
    return '%08X.json' % crc


# ---- garbage texts ----------------------------------------------------------------------------------------
def gen_json_text(rng, depth=0, tagged_ok=True):
    """a JSON-ish text: mostly well formed, exercising CPython's dialect (escapes, surrogates, numbers, constants,
    duplicate keys, class-tagged objects with missing or odd-typed members)"""
    ws = lambda: rng.choice(['', '', '', ' ', '\n', '\t', '\r', '  ', '\n  '])
    r = rng.random()
    if depth > 3 or r < 0.35:
        k = rng.randrange(12)
        if k == 0:
            return rng.choice(['true', 'false', 'null', 'NaN', 'Infinity', '-Infinity'])
        if k <= 3:
            return rng.choice(['0', '-0', '7', '12', '-305', '65535', '4294967296', '123456789012345678901234567890', '1.5', '-0.0', '1e5', '1E+5', '2e-3', '0.25e1', '10', '-1'])
        return gen_string_lit(rng)
    if r < 0.5:
        n = rng.randrange(0, 4)
        return '[' + ws() + (',' + ws()).join(gen_json_text(rng, depth + 1) + ws() for _ in range(n)) + ']'
    if r < 0.75 or not tagged_ok:
        n = rng.randrange(0, 4)
        keys = [rng.choice(['"a"', '"b"', '"a"', gen_string_lit(rng), '"__class_"', '"ident"']) for _ in range(n)]
        return '{' + ws() + (',' + ws()).join(k + ws() + ':' + ws() + gen_json_text(rng, depth + 1) + ws() for k in keys) + '}'
    # class-tagged element object
    cls = rng.choice(['"LogTocElement"', '"ParamTocElement"', '"ParamTocElement"', '"LogTocElement"', '7', 'null', '["LogTocElement"]', '{}'])
    members = [('"__class__"', cls)]
    for k in ['ident', 'group', 'name', 'ctype', 'pytype', 'access', 'extended']:
        if rng.random() < 0.07:
            continue        # missing key -> KeyError
        if rng.random() < 0.85:
            v = {'ident': str(rng.randrange(300)), 'access': rng.choice(['0', '1']), 'extended': rng.choice(['true', 'false'])}.get(k) or gen_string_lit(rng)
        else:
            v = rng.choice(['null', 'true', '12', '-4', gen_string_lit(rng), 'false'])
        members.append(('"%s"' % k, v))
    if rng.random() < 0.3:
        rng.shuffle(members)
    if rng.random() < 0.1:
        members.append(rng.choice(members))
    return '{' + ws() + (',' + ws()).join(k + ':' + ws() + v for k, v in members) + ws() + '}'


def gen_string_lit(rng):
    out = ['"']
    for _ in range(rng.choice([0, 1, 2, 3, 6])):
        k = rng.randrange(14)
        if k < 6:
            out.append(rng.choice(IDENT_CHARS + ' /'))
        elif k == 6:
            out.append(rng.choice(['\\"', '\\\\', '\\/', '\\b', '\\f', '\\n', '\\r', '\\t']))
        elif k == 7:
            out.append('\\u%04x' % rng.randrange(0x10000))
        elif k == 8:
            out.append(rng.choice(['\\ud83d\\ude00', '\\uD800\\uDC00', '\\udbff\\udfff', '\\ud800\\u0041', '\\ud800x', '\\ud800\\n', '\\udc00\\ud800',
                                   '\\ud800\\ud800\\udc00', '\\ud800', '\\udfff']))
        elif k == 9:
            out.append(chr(rng.choice([0xe9, 0x7f, 0x80, 0xff, 0x100, 0x2028, 0xfffd, 0x10000, 0x1f600])))
        elif k == 10:
            out.append('\\u%s' % ''.join(rng.choice('0123456789abcdefABCDEF') for _ in range(4)))
        elif k == 11:
            out.append(rng.choice(['\\x', '\\u12', '\\u12g4', '\\U0041', '\t', '\n', '\x00', '\\', '\\ud800\\u12', '\\ud800\\']))   # malformed
        else:
            out.append(rng.choice(['__class__', 'LogTocElement', 'uint8_t', '<B']))
    out.append('"')
    return ''.join(out)


def mutate(rng, data):
    data = bytearray(data)
    for _ in range(rng.choice([1, 1, 2, 3])):
        if not data:
            break
        k = rng.randrange(6)
        i = rng.randrange(len(data))
        if k == 0:
            data[i] = rng.randrange(256)
        elif k == 1:
            del data[i]
        elif k == 2:
            data.insert(i, rng.choice(b'{}[]",:\\ \n0123456789-eE.tfnu\x00\xff\xc3\xa9'))
        elif k == 3:
            j = rng.randrange(len(data))
            data[i], data[j] = data[j], data[i]
        elif k == 4:
            j = min(len(data), i + rng.randrange(1, 12))
            del data[i:j]
        else:
            j = min(len(data), i + rng.randrange(1, 12))
            data[i:i] = data[i:j]
    return bytes(data)


FIXED_TEXTS = ['', ' ', '{', '{}', ' {} ', '{} x', '[1,]', '{"a":1,}', '01', '-', '-0', '1.', '1.5e', '1e5', '1E+5', '-Infinity', 'NaN', 'Infinity', '-I', 'nul',
               'true', '"\\ud800"', '"\\ud800\\udc00"', '"\\ud800\\u0041"', '"\\ud800\\ud800\\udc00"', '"\\ud800x"', '"\\ud800\\n"', '"\\udc00\\ud800"',
               '"\\uD83D\\uDE00"', '"\\u00e9"', '"\\x"', '"\x7f"', '"\t"', '"é"', '﻿{}', '{"a":1,"a":2,"b":3}', '{"a" :1}', '{ "a": 1 }', '[ ]', '{ }',
               '1 2', '"a" "b"', '[1 2]', '{"a" 1}', '{1:2}', '-01', '0e0', '0.0e-0', '1e', '-0.0', '2-', '[1-]', '"\\u12"', '"\\u12g4"', '"\\U0041"', '\x0c{}',
               '\xa0{}', "{'a':1}", 'True', 'None', '[1,,2]', '[,1]', '{,}', '"\\/"', '"\\ud800\\', '"\\ud800\\u"', '"\\ud800\\udc0"', '"\\ud800\\udc0g"x',
               '"\\ud800\\u004g"', '123456789012345678901234567890', '0x10', '.5', '+1', '1_000', '[]', '[[]]', '[{}]', '{"a":{}}', '{"a":[]}', 'null', ' null ',
               '0', '7 ', '7\n', '-7', '[1,2]\r\n', '{"a":\r1}', '"a\rb"', '"a\r\nb"', '\r{}', '[-]', '[-Infinity]', '[-Infinit]', '[NaN', 'Na', 'Infinit', 'tru',
               'truee', 'nulll', '[true,false,null]', '[truefalse]', '{"__class__":"LogTocElement"}', '{"__class__":1}', '{"__class__":null,"a":1}',
               '{"__class__":"LogTocElement","ident":1,"group":"g","name":"n","ctype":"c","pytype":"p","access":0}',
               '{"__class__":"ParamTocElement","ident":1,"group":"g","name":"n","ctype":"c","pytype":"p","access":0}',
               '{"__class__":"ParamTocElement","ident":1,"group":"g","name":"n","ctype":"c","pytype":"p","access":0,"extended":true}',
               '{"__class__":"LogTocElement","ident":1,"group":2,"name":true,"ctype":null,"pytype":-5,"access":"x","extended":7}',
               '{"a":{"__class__":"LogTocElement","ident":1,"group":"g","name":"n","ctype":"c","pytype":"p","access":0},"__class__":"LogTocElement"}',
               '{"g":{"__class__":{"__class__":"LogTocElement","ident":1,"group":"g","name":"n","ctype":"c","pytype":"p","access":0}}}']
FIXED_BYTES = [b'\xff', b'\xc3', b'\xc3\xa9', b'"\xc3\xa9"', b'"\xe2\x82\xac"', b'"\xf0\x9f\x98\x80"', b'"\xed\xa0\x80"', b'"\xc0\x80"', b'"\xe0\x80\x80"', b'"\xf4\x90\x80\x80"',
               b'"\xf8\x88\x80\x80\x80"', b'"\xe2\x82"', b'{}\xff', b'\xef\xbb\xbf{}', b'"\xc2\x80"', b'"\xdf\xbf"', b'"\xe0\xa0\x80"', b'"\xef\xbf\xbf"', b'"\xf0\x90\x80\x80"',
               b'"\xf4\x8f\xbf\xbf"', b'"\x80"', b'"\xc2"', b'"\xc2\xc2"', b'"\xe1\x80"', b'"\xf1\x80\x80"']


def real_loads(data):
    """json.load through the real fetch path: the file's bytes -> canonical value | 'exc'"""
    tc, _, _ = _mods()
    d = tempfile.mkdtemp(prefix='c11g-')
    try:
        with open(d + '/00000000.json', 'wb') as f:
            f.write(data)
        c = tc.TocCache(rw_cache=d)
        # `fetch` maps every Exception to None; to see the difference between `null` and an exception use the same
        # call fetch makes
        try:
            with open(d + '/00000000.json') as f:
                v = json.load(f, object_hook=c._decoder)
            direct = 'ok ' + canon(v)
        except Exception:
            direct = 'exc'
        try:
            viafetch = canon(c.fetch(0))
        except Exception as e:
            viafetch = 'fetch-raised ' + type(e).__name__
        want = None if direct == 'exc' else v
        if viafetch != canon(want):
            direct = 'fetch-differs ' + viafetch
        return direct
    finally:
        shutil.rmtree(d, ignore_errors=True)


# ---- fetcher ------------------------------------------------------------------------------------------------
class FakeCF:
    """the Crazyflie object as TocFetcher uses it + a device answering TOC requests from a table"""

    def __init__(self, version, port, crc, elems):
        self.version, self.port, self.crc, self.elems = version, port, crc, elems     # elems: list of (type_byte, group, name)
        self.platform = self
        self.cb = None
        self.sent = []
        self.removed = 0
        from cflib.utils.callbacks import Caller
        self.disconnected = Caller()      # TocFetcher.start() listens to it (abort on link loss); removed again when finished

    def get_protocol_version(self):
        return self.version

    def add_port_callback(self, port, cb):
        self.cb = cb

    def remove_port_callback(self, port, cb):
        self.cb = None
        self.removed += 1

    def send_packet(self, pk, expected_reply=(), **kw):
        self.sent.append(bytes(pk.data))

    def reply_for(self, req):
        from cflib.crtp.crtpstack import CRTPPacket
        pk = CRTPPacket()
        pk.set_header(self.port, 0)
        cmd = req[0]
        if cmd == 3:
            pk.data = bytes([3]) + struct.pack('<HI', len(self.elems), self.crc)
        elif cmd == 1:
            pk.data = bytes([1]) + struct.pack('<BI', len(self.elems), self.crc)
        elif cmd == 2:
            idx = req[1] | (req[2] << 8)
            t, g, n = self.elems[idx]
            pk.data = bytes([2]) + struct.pack('<H', idx) + bytes([t]) + g.encode('latin-1') + b'\0' + n.encode('latin-1') + b'\0'
        else:
            idx = req[1]
            t, g, n = self.elems[idx]
            pk.data = bytes([0, idx, t]) + g.encode('latin-1') + b'\0' + n.encode('latin-1') + b'\0'
        return pk


def run_fetcher(sess, cls, version, crc, elems, desc, key):
    """real TocFetcher against FakeCF and sess.cache; mirrored on the model's fetcher.  returns (toc, requests)"""
    tc, L, P = _mods()
    from cflib.crazyflie.toc import Toc, TocFetcher
    ecls = L if cls == 'L' else P
    port = 5 if cls == 'L' else 2
    cf = FakeCF(version, port, crc, elems)
    holder = Toc()
    done = []
    f = TocFetcher(cf, ecls, port, holder, lambda: done.append(1), sess.cache)
    tc.open = sess._open          # permission failures of unreadable entries (see Session.shim)
    try:
        return _run_fetcher_loop(sess, cls, ecls, crc, elems, desc, key, cf, f, holder, done)
    finally:
        del tc.open


def _run_fetcher_loop(sess, cls, ecls, crc, elems, desc, key, cf, f, holder, done):
    f.start()
    sess.emit('fnew', 'ok', None, None)
    nreq = 0
    steps = 0
    while cf.sent and cf.cb is not None and steps < 100000:
        steps += 1
        req = cf.sent.pop(0)
        pk = cf.reply_for(req)
        before = len(cf.sent)
        ndone = len(done)
        cf.cb(pk)
        outs = []
        for r in cf.sent[before:] if before <= len(cf.sent) else []:
            if r[0] in (2,):
                outs.append('req%d' % (r[1] | (r[2] << 8)))
            elif r[0] == 0:
                outs.append('req%d' % r[1])
        if len(done) > ndone:
            outs.append('fin')
        real = 'ok ' + (','.join(outs) or '-')
        if req[0] in (1, 3):
            # the model decodes the reply bytes itself (legacy '<BI' / V2 '<HI'): payload = data after the command byte
            sess.emit('finfopkt %d %s' % (1 if cf.version >= 4 else 0, hexb(bytes(pk.data)[1:])), real, desc, key)
        else:
            nreq += 1
            idx = (req[1] | (req[2] << 8)) if req[0] == 2 else req[1]
            t, g, n = elems[idx]
            e = ecls(idx, bytes([t]) + g.encode('latin-1') + b'\0' + n.encode('latin-1') + b'\0')
            spec = E(cls, e.ident, e.group, e.name, e.ctype, e.pytype, e.access, getattr(e, 'extended', False)).spec()
            sess.emit('felem %d %s' % (idx, spec), real, None, None)
    try:
        real = 'ok ' + canon(holder.toc)
    except Exception as ex:
        real = 'raised ' + type(ex).__name__
    sess.emit('ftoc', real, None, None)
    return holder.toc, nreq, len(done)


def crc_relatives(c):
    """checksums that carry the same bytes / bits in another order (what a wrong byte order, field offset or width would read)"""
    b = c.to_bytes(4, 'little')
    outs = {int.from_bytes(b[::-1], 'little'),                       # byte swap
            int.from_bytes(b[1:] + b[:1], 'little'), int.from_bytes(b[2:] + b[:2], 'little'), int.from_bytes(b[3:] + b[:3], 'little'),
            int.from_bytes(bytes([b[1], b[0], b[3], b[2]]), 'little'),   # swap inside the halves
            (c << 8) & 0xFFFFFFFF, c >> 8, (c << 16) & 0xFFFFFFFF, c >> 16, c & 0xFFFF, c & 0xFFFFFF}
    outs.discard(c)
    return sorted(outs)


def gen_mixed_pair(rng):
    """(crc A, crc B): B is a byte permutation / shift of A, A != B"""
    while True:
        a = rng.choice([1, 0x01000000, 0x00000100, 0x11223344, 0xDEADBEEF, 0x000000FF, rng.randrange(2 ** 32), rng.randrange(2 ** 32),
                        rng.randrange(1, 256) << rng.choice([0, 8, 16, 24])])
        rel = crc_relatives(a)
        if rel:
            return a, rng.choice(rel[:1] * 3 + rel)        # the byte swap most often


def device_table(rng, cls, n):
    """n distinct (type byte, group, name) entries a device could announce"""
    _, L, P = _mods()
    ids = sorted(L.types) if cls == 'L' else sorted(P.types)
    out, seen = [], set()
    groups = [gen_name(rng, 'id') for _ in range(max(1, n // 3))]
    while len(out) < n:
        g, nm = rng.choice(groups), gen_name(rng, rng.choice(['id', 'id', 'id', 'latin']))
        if '\0' in g or '\0' in nm or (g, nm) in seen or not nm:
            continue
        seen.add((g, nm))
        t = rng.choice(ids)
        if cls == 'P':
            t |= rng.choice([0, 0x40]) | rng.choice([0, 0, 0x10])
        out.append((t, g, nm))
    return out


# ---- the correspondence ------------------------------------------------------------------------------------------
def correspond(ctx):
    rng = ctx.rng
    thorough = ctx.tier == 'thorough'
    types = type_tables()
    tc, L, P = _mods()

    # (0) corpus first
    texts = []
    corpus_prefix = []
    if os.path.isdir(CORPUS):
        for fn in sorted(os.listdir(CORPUS)):
            if fn.endswith('.json'):
                item = json.load(open(os.path.join(CORPUS, fn)))
                for t in item.get('texts_hex', []):
                    texts.append(('corpus:' + fn, bytes.fromhex(t)))
                for t in item.get('every_prefix_hex', []):
                    corpus_prefix.append(bytes.fromhex(t))

    # (1) json.loads/_decoder vs Json.parse on fixed + generated + mutated texts
    for t in FIXED_TEXTS:
        texts.append(('fixed', t.encode('utf-8', 'surrogatepass') if not any(0xD800 <= ord(c) < 0xE000 for c in t) else t.encode('utf-8', 'surrogatepass')))
    for b in FIXED_BYTES:
        texts.append(('fixed-bytes', b))
    for _ in range(3000 if thorough else 500):
        t = gen_json_text(rng)
        if rng.random() < 0.25:
            t = rng.choice(['', ' ', '\n', '﻿']) + t + rng.choice(['', ' ', '\n', 'x', ',', '}', ' 1'])
        texts.append(('gen', t.encode('utf-8')))
    seeds = []
    for _ in range(60 if thorough else 12):
        toc = gen_toc(rng, types)
        seeds.append(json.dumps(toc_real(toc), indent=2, default=tc.TocCache()._encoder).encode())
    for _ in range(3000 if thorough else 500):
        texts.append(('mutated', mutate(rng, rng.choice(seeds))))
    lines = []
    for kind, data in texts:
        real = real_loads(data)
        ctx.count('text:' + kind)
        ctx.count('loads:' + real.split(' ')[0])
        lines.append(('loads ' + hexb(data), real, {'op': 'loads', 'kind': kind, 'len': len(data)}, ('loads', data)))
    for data in corpus_prefix:
        good = ['%d:ok' % k for k in range(len(data) + 1) if real_loads(data[:k]) != 'exc']
        ctx.count('truncation-offsets', len(data))
        lines.append(('prefixes ' + hexb(data), 'ok ' + (','.join(good) or '-'), {'op': 'every-truncation(corpus)', 'bytes': len(data)}, ('prefixes', data)))
    batches = [('json.load(object_hook=_decoder) vs Json.loads', lines)]

    # (2) json.dumps vs Json.print, load = store, EVERY truncation offset
    sess = Session(ctx)
    try:
        rw = sess.path('rw')
        sess.new(None, rw)
        ntab = 60 if thorough else 14
        for i in range(ntab):
            big = i % 7 == 6
            toc = gen_toc(rng, types, max_groups=8 if big else 3, max_names=8 if big else 3)
            crc = rng.choice([0, 1, 0xBEEF, 0xFFFFFFFF, rng.randrange(2 ** 32), rng.randrange(2 ** 32)])
            sess.insert(crc, toc, key=('insert', toc_spec(toc)))
            path = written_path(sess.cache, rw, crc)
            if path is None:
                ctx.disagree('insert wrote no file', 'insert %d' % crc, 'file ' + stored_name(crc), 'none')
                continue
            data = open(path, 'rb').read()
            sess.emit('print ' + toc_spec(toc), 'ok ' + hexb(data), {'op': 'print', 'bytes': len(data)}, ('print', data))
            sess.fetch(crc, key=('fetch-after-insert', data))
            ctx.count('table:class-key' if has_class_key(toc) else 'table:plain')
            ctx.count('table:empty' if not toc else 'table:nonempty')
            # every truncation offset of the written file, through the real fetch
            good = []
            for k in range(len(data) + 1):
                sess.put(path, data[:k])
                r = sess.cache.fetch(crc)
                if k < len(data):
                    ctx.count('truncation-offsets')
                if r is not None:
                    good.append('%d:ok' % k)
            sess.put(path, data)
            sess.emit('prefixes ' + hexb(data), 'ok ' + (','.join(good) or '-'), {'op': 'every-truncation', 'bytes': len(data)}, ('prefixes', data))
    finally:
        sess.close()
    batches.append(('TocCache insert/fetch/truncation vs model', sess.lines))

    # (3) scenarios: ro/rw combinations, foreign and colliding names, failures, cuts, restarts
    for sc in range(120 if thorough else 30):
        sess = Session(ctx)
        try:
            scenario(ctx, sess, rng, types, sc)
        finally:
            sess.close()
        batches.append(('TocCache scenario vs model', sess.lines))

    # (4) TocFetcher cache paths with a fake Crazyflie
    for sc in range(108 if thorough else 36):
        sess = Session(ctx)
        try:
            fetcher_scenario(ctx, sess, rng, sc)
        finally:
            sess.close()
        batches.append(('TocFetcher cache paths vs model', sess.lines))
    run_batches(ctx, batches)


def scenario(ctx, sess, rng, types, sc):
    ro, rw = sess.path('ro'), sess.path('rw')
    mode = ['both', 'rw', 'ro', 'none', 'same', 'both', 'both', 'rw-missing', 'ro-missing', 'rw-unmakeable'][sc % 10]
    ctx.count('scenario:' + mode)
    crcs = [rng.randrange(2 ** 32) for _ in range(3)] + [0, 0xABCD, 0xFFFFFFFF]
    tocs = {}

    def table():
        return gen_toc(rng, types, max_groups=2, max_names=2, kinds=['id', 'id', 'latin'])

    def dump(t):
        return json.dumps(toc_real(t), indent=2, default=lean_encoder()).encode()
    if mode != 'ro-missing':
        sess.mkdir(ro)
    if mode not in ('rw-missing', 'rw-unmakeable'):
        sess.mkdir(rw)
    # pre-populate: stored names, foreign names, names that END in a pattern, sub-directories, hidden files
    for d in ([ro] if os.path.isdir(ro) else []) + ([rw] if os.path.isdir(rw) else []):
        for _ in range(rng.randrange(0, 4)):
            crc = rng.choice(crcs)
            r = rng.random()
            if r < 0.55:
                name = stored_name(crc)
            elif r < 0.7:
                name = rng.choice(['X', 'FF', '1', 'ab-']) + stored_name(crc)       # suffix match on a foreign file
            elif r < 0.8:
                name = '.' + stored_name(crc)                                        # hidden: not globbed
            elif r < 0.9:
                name = ('%08X' % crc) + rng.choice(['.JSON', '.json.bak', '.txt', 'json'])
            else:
                name = ('%08x.json' % crc)                                           # lower case
            t = table()
            content = dump(t) if rng.random() < 0.75 else rng.choice([b'', b'{', b'[1]', b'null', b'{"a": 1}', dump(t)[:rng.randrange(1, 40)], b'\xff\xfe'])
            sess.put(d + '/' + name, content)
        if rng.random() < 0.35:
            # an entry the directory scan lists but open() cannot read: a directory / dangling link / unreadable file with a
            # cache file's name (no other entry of this directory ends in the same pattern: listing order between an
            # unopenable entry and a file is not part of the model)
            gcrc = rng.choice(crcs)
            for n in os.listdir(d):
                if n.endswith(stored_name(gcrc)):
                    os.remove(d + '/' + n)
            kind = rng.choice(['dir', 'dangling', 'noperm'])
            sess.make_ghost(d + '/' + stored_name(gcrc), kind)
            ctx.count('scenario:unopenable-' + kind)
    if mode == 'rw-unmakeable':
        sess.put(sess.path('blocker'), b'x')
        rw = sess.path('blocker', 'rw')
    a_ro = {'both': ro, 'ro': ro, 'same': ro, 'rw-missing': ro, 'ro-missing': ro, 'rw-unmakeable': ro}.get(mode)
    a_rw = {'both': rw, 'rw': rw, 'same': ro, 'rw-missing': rw, 'ro-missing': rw, 'rw-unmakeable': rw}.get(mode)
    if mode == 'none' and rng.random() < 0.5:
        a_ro, a_rw = '', ''
    r = sess.new(a_ro, a_rw, readonly=(mode == 'rw-unmakeable'))
    if r == 'exc':
        ctx.count('new:raised')
        return
    def snap():
        return {n: (sess.ghost_kind(ro + '/' + n) or open(os.path.join(ro, n), 'rb').read()) for n in os.listdir(ro)}
    snapshot = snap() if os.path.isdir(ro) and a_rw != ro else None
    for step in range(rng.randrange(4, 12)):
        op = rng.choice(['fetch', 'fetch', 'insert', 'insert', 'cut', 'restart', 'fail', 'rmdir', 'vanish', 'block', 'fetch-other'])
        crc = rng.choice(crcs)
        if op == 'fetch':
            sess.fetch(crc, key=('sc-fetch', sc, step, mode))
        elif op == 'fetch-other':
            sess.fetch(rng.choice([crc ^ 1, crc + 2 ** 32, (crc * 16) % 2 ** 32, 0xABCD + 0x10000, crc & 0xFFFFFF, crc & 0xFFFF, crc & 0xF, 0]), key=('sc-fetch-other', sc, step))
        elif op == 'insert':
            t = table()
            sess.insert(crc, t, key=('sc-insert', sc, step, mode))
            tocs[crc] = t
        elif op == 'cut':
            t = table()
            n = len(dump(t))
            sess.insert_cut(crc, t, rng.choice([0, 1, n // 2, n - 1, rng.randrange(n)]), key=('sc-cut', sc, step))
            sess.fetch(crc, key=('sc-fetch-after-cut', sc, step))
        elif op == 'fail':
            sess.insert(crc, table(), fail_open=True, key=('sc-insert-fail', sc, step))
        elif op == 'rmdir' and a_rw and rng.random() < 0.3 and a_rw != ro:
            shutil.rmtree(a_rw, ignore_errors=True)
            sess.noperm = {q for q in sess.noperm if os.path.dirname(q) != a_rw}
            sess.sync_fs([a_ro, a_rw])
            sess.insert(crc, table(), key=('sc-insert-nodir', sc, step))
            sess.fetch(crc, key=('sc-fetch-nodir', sc, step))
        elif op == 'vanish' and sess.cache._cache_files:
            p = rng.choice(sess.cache._cache_files)
            if os.path.isfile(p) and p not in sess.noperm:
                os.remove(p)          # (the harness, not the library, removes it: forget it in the ro snapshot)
                if snapshot is not None and os.path.dirname(p) == ro:
                    snapshot.pop(os.path.basename(p), None)
                sess.emit('rm ' + enc(p), 'ok', None, None)
            sess.fetch(crc, key=('sc-fetch-vanished', sc, step))
        elif op == 'block' and sess.cache._cache_files:
            # behind the back of the live cache the entry becomes a directory / dangling link / unreadable file
            p = rng.choice(sess.cache._cache_files)
            if os.path.isfile(p) or os.path.islink(p):
                kind = rng.choice(['dir', 'dangling', 'noperm'])
                sess.make_ghost(p, kind, live=True)
                ctx.count('scenario:blocked-' + kind)
                if snapshot is not None and os.path.dirname(p) == ro:
                    snapshot[os.path.basename(p)] = kind
                m = os.path.basename(p)[-13:-5]
                try:
                    sess.fetch(int(m, 16), key=('sc-fetch-blocked', sc, step, kind))
                except ValueError:
                    pass
            sess.fetch(crc, key=('sc-fetch-after-block', sc, step))
        elif op == 'restart':
            if sess.new(a_ro, a_rw) == 'exc':
                return
        if rng.random() < 0.3:
            sess.files()
    if snapshot is not None:
        now = snap()
        if now != snapshot:
            ctx.disagree('ro directory changed', 'scenario %d' % sc, 'unchanged', sorted(set(now) ^ set(snapshot)))
    for d in (a_ro, a_rw):
        if d and os.path.isdir(d):
            for n in sorted(os.listdir(d)):
                if os.path.isfile(d + '/' + n):
                    sess.cat(d + '/' + n)


def lean_encoder():
    tc, _, _ = _mods()
    return tc.TocCache()._encoder


def fetcher_scenario(ctx, sess, rng, sc):
    rw = sess.path('rw')
    sess.mkdir(rw)
    cls = 'LP'[sc % 2]
    version = [4, 3, 5, 1][sc % 4]
    n = rng.choice([0, 1, 2, 3, 5, 9])
    if version < 4:
        n = min(n, 255)
    elems = device_table(rng, cls, n)
    crc = rng.randrange(2 ** 32)
    kind = ['miss-then-hit', 'truncated', 'garbage', 'other-class', 'vanished', 'dir', 'dangling', 'noperm', 'mixed-generation'][sc % 9]
    in_ro = kind in ('vanished', 'dir', 'dangling', 'noperm') and (sc // 9) % 2 == 1
    if kind == 'mixed-generation':
        # a legacy-protocol and a V2 device of the same kind share one cache; their checksums are byte permutations of each
        # other: each must end up with its own table, in whatever order they connect, and hit its own file afterwards
        ctx.count('fetcher:' + kind)
        ca, cb = gen_mixed_pair(rng)
        va, vb = rng.choice([(3, 4), (4, 3), (1, 5), (3, 4), (4, 4), (3, 3)])
        ea, eb = device_table(rng, cls, max(n, 1)), device_table(rng, cls, rng.choice([1, 2, 4]))
        order = [(va, ca, ea), (vb, cb, eb), (va, ca, ea), (vb, cb, eb)]
        if rng.random() < 0.5:
            order = [order[1], order[0], order[3], order[2]]
        for i, (v, c, e) in enumerate(order):
            if i != 1 or rng.random() < 0.7:
                sess.new(None, rw)          # a new process (sometimes the second device uses the live TocCache)
            run_fetcher(sess, cls, v, c, e, {'op': 'fetcher-mixed-generation', 'step': i, 'v': v, 'crc': '%08X' % c}, ('fetcher-mixed', i, cls, v, c, sc))
        sess.files()
        for nme in sorted(os.listdir(rw)):
            sess.cat(rw + '/' + nme)
        return
    ctx.count('fetcher:' + kind)
    sess.new(None, rw)
    # first connection: nothing cached -> download -> insert
    toc1, nreq1, done1 = run_fetcher(sess, cls, version, crc, elems, {'op': 'fetcher', 'kind': kind, 'n': n, 'v': version}, ('fetcher', kind, cls, version, n, sc))
    path = written_path(sess.cache, rw, crc) or rw + '/' + stored_name(crc)
    if kind == 'truncated' and os.path.exists(path):
        data = open(path, 'rb').read()
        sess.put(path, data[:rng.randrange(len(data))])
    elif kind == 'garbage':
        sess.put(path, rng.choice([b'', b'{', b'\xff', b'[1', b'{"a":}', b'nul']))
    elif kind == 'other-class':
        # the other TOC of the same firmware announces the same CRC: the file is shared
        cls = 'P' if cls == 'L' else 'L'
        elems = device_table(rng, cls, n)
    if kind in ('vanished', 'dir', 'dangling', 'noperm'):
        # the entry of the announced checksum is in the cache's list but cannot be opened: the fetcher must download
        ro2 = None
        if in_ro:       # the stored file is shipped in a read-only directory instead
            ro2 = sess.path('ro')
            sess.mkdir(ro2)
            os.rename(path, ro2 + '/' + os.path.basename(path))
            path = ro2 + '/' + os.path.basename(path)
        if kind == 'vanished':
            sess.new(ro2, rw)                 # scanned while present ...
            os.remove(path)                   # ... gone when the checksum is announced (same TocCache object)
            sess.emit('rm ' + enc(path), 'ok', None, None)
        else:
            sess.make_ghost(path, kind)
            sess.new(ro2, rw)
        sess.fetch(crc, key=('fetcher-unusable-fetch', kind, in_ro, sc))
        run_fetcher(sess, cls, version, crc, elems, {'op': 'fetcher-unusable-hit', 'kind': kind, 'ro': in_ro, 'n': n}, ('fetcher-unusable', kind, in_ro, cls, version, n, sc))
        sess.files()
        for d in (ro2, rw):
            if d:
                for nme in sorted(os.listdir(d)):
                    if os.path.isfile(d + '/' + nme):
                        sess.cat(d + '/' + nme)
        return
    # second connection (new process): new TocCache, new fetcher
    sess.new(None, rw)
    run_fetcher(sess, cls, version, crc, elems, {'op': 'fetcher-2nd', 'kind': kind, 'n': n}, ('fetcher2', kind, cls, version, n, sc))
    sess.cat(path)


# ======================================================================================================
# failing-input search: the property itself, evaluated on the real code (no Lean needed)
# ======================================================================================================
def table_fields(t):
    """{group: {name: fields}} of a real loaded table (or a marker when it is not a table of elements)"""
    if not isinstance(t, dict):
        return ('not-a-dict', repr(t)[:80])
    out = {}
    for g, ns in t.items():
        if not isinstance(ns, dict):
            return ('group-not-a-dict', repr(ns)[:80])
        out[g] = {n: elem_fields(e) for n, e in ns.items()}
    return out


def want_fields(toc):
    return {g: {n: e.fields() for n, e in ns.items()} for g, ns in toc.items()}


def is_unparsable(data):
    try:
        json.loads(data.decode('utf-8'))
        return False
    except Exception:
        return True


UNUSABLE_KINDS = ('vanished', 'unreadable', 'directory', 'dangling-symlink')
_case_no = [0]


def connect_via_fetcher(cache, cls, version, crc, elems):
    """one connection's TOC fetch of the real TocFetcher against a device table; returns (table, element requests, done)"""
    tc, L, P = _mods()
    from cflib.crazyflie.toc import Toc, TocFetcher
    cf = FakeCF(version, 5 if cls == 'L' else 2, crc, elems)
    holder, done = Toc(), []
    TocFetcher(cf, L if cls == 'L' else P, cf.port, holder, lambda: done.append(1), cache).start()
    reqs = 0
    while cf.sent and cf.cb is not None:
        req = cf.sent.pop(0)
        reqs += req[0] in (0, 2)
        cf.cb(cf.reply_for(req))
    return holder.toc, reqs, len(done)


def device_want(cls, elems):
    tc, L, P = _mods()
    ecls = L if cls == 'L' else P
    want = {}
    for idx, (t, g, nm) in enumerate(elems):
        e = ecls(idx, bytes([t]) + g.encode('latin-1') + b'\0' + nm.encode('latin-1') + b'\0')
        want.setdefault(g, {})[nm] = elem_fields(e)
    return want


def make_unusable(kind, path):
    """turn the cache file at `path` into an entry that the directory scan lists but open() cannot read.
    returns a context manager factory to wrap the calls into the library (only 'unreadable' needs one: the checks run as
    root, so the permission error is produced at the `open` the module calls)"""
    tc, _, _ = _mods()
    if kind == 'vanished':
        os.remove(path)
    elif kind == 'directory':
        os.remove(path)
        os.mkdir(path)
    elif kind == 'dangling-symlink':
        os.remove(path)
        os.symlink(path + '.gone', path)

    @contextlib.contextmanager
    def guard():
        if kind == 'unreadable':
            def no_read(name, mode='r', *a, **k):
                if os.path.abspath(name) == os.path.abspath(path) and 'w' not in mode and 'a' not in mode:
                    raise PermissionError(13, 'Permission denied', name)
                return open(name, mode, *a, **k)
            tc.open = no_read
            try:
                yield
            finally:
                del tc.open
        else:
            yield
    return guard


def unusable_hit_case(ctx, rng, root, kind, where, cls, version):
    tc, L, P = _mods()
    _case_no[0] += 1
    base = '%s/u%d' % (root, _case_no[0])
    ro, rw = base + '/ro', base + '/rw'
    os.makedirs(ro)
    os.makedirs(rw)
    n = rng.choice([1, 2, 3, 5])
    elems = device_table(rng, cls, n)
    crc = rng.randrange(2 ** 32)
    want = device_want(cls, elems)
    inp = {'kind': kind, 'dir': where, 'cls': cls, 'version': version, 'crc': '%08X' % crc, 'elems': [(t, g, nm) for t, g, nm in elems]}
    # a first connection stores the table in the chosen directory (for ro: the directory is shipped with that file)
    try:
        connect_via_fetcher(tc.TocCache(rw_cache=ro if where == 'ro' else rw), cls, version, crc, elems)
    except Exception as e:
        ctx.witness('connection-failed', 'cold TOC fetch raised ' + type(e).__name__, inp)
        return
    path = written_path(None, ro if where == 'ro' else rw, crc)
    if path is None:
        names = os.listdir(ro if where == 'ro' else rw)
        if len(names) != 1:
            return
        path = os.path.join(ro if where == 'ro' else rw, names[0])
    if kind == 'vanished':
        cache = tc.TocCache(ro_cache=ro, rw_cache=rw)      # the directory scan sees the file ...
        guard = make_unusable(kind, path)                 # ... which is gone when the checksum is announced
    else:
        guard = make_unusable(kind, path)
        cache = tc.TocCache(ro_cache=ro, rw_cache=rw)
    if path not in cache._cache_files:
        ctx.count('search:unusable-not-listed')
    with guard():
        try:
            got = cache.fetch(crc)
        except Exception as e:
            got = e
        def fetch_witness():
            if got is not None:
                ctx.witness('unusable-hit-not-a-miss', 'fetch() on a cache entry that cannot be opened (%s, %s directory) did not return None: %s'
                            % (kind, where, type(got).__name__), inp, got=repr(got)[:200])
        try:
            toc, reqs, done = connect_via_fetcher(cache, cls, version, crc, elems)
        except Exception as e:
            ctx.witness('unusable-hit-connection-failed', 'the TOC fetch raised %s when the cache entry of the announced checksum cannot be opened '
                        '(%s, %s directory): nothing is downloaded and the connection never completes' % (type(e).__name__, kind, where), inp)
            fetch_witness()
            return
        fetch_witness()
    if done != 1 or reqs != n or table_fields(toc) != want:
        ctx.witness('unusable-hit-not-downloaded', 'with an unopenable cache entry (%s, %s directory) the table was not downloaded from the device '
                    '(done=%d, element requests=%d of %d)' % (kind, where, done, reqs, n), inp, got=str(table_fields(toc))[:300], want=str(want)[:300])
        return
    ctx.count('search:unusable-hit:' + kind + ':' + where)
    # the read-only directory must look the same afterwards (entry kinds and names)
    if where == 'ro' and sorted(os.listdir(ro)) != [os.path.basename(path)] * (0 if kind == 'vanished' else 1):
        ctx.witness('ro-written', 'the read-only cache directory changed while handling an unusable entry', inp, now=sorted(os.listdir(ro)))


def mixed_generation_case(ctx, rng, root, trial):
    tc, L, P = _mods()
    rw = '%s/mix%d' % (root, trial)
    cls = 'LP'[trial % 2]
    ca, cb = gen_mixed_pair(rng)
    if trial < 4:       # the plain byte swap between a legacy and a V2 device first
        ca = int.from_bytes(bytes(rng.sample(range(1, 256), 4)), 'little')
        cb = int.from_bytes(ca.to_bytes(4, 'little')[::-1], 'little')
    va, vb = [(3, 4), (4, 3), (1, 5), (4, 4), (3, 3), (3, 4)][trial % 6]
    devs = {'A': (va, ca, device_table(rng, cls, rng.choice([1, 2, 3]))), 'B': (vb, cb, device_table(rng, cls, rng.choice([1, 2, 4])))}
    seq = ['A', 'B', 'A', 'B'] if trial % 4 < 2 else ['B', 'A', 'B', 'A']
    cache = None
    seen = set()
    misnamed = None
    for i, who in enumerate(seq):
        v, c, elems = devs[who]
        if cache is None or rng.random() < 0.6:
            cache = tc.TocCache(rw_cache=rw)
        inp = {'cls': cls, 'sequence': seq, 'step': i, 'devices': {k: {'version': d[0], 'crc': '%08X' % d[1], 'elems': [list(e) for e in d[2]]} for k, d in devs.items()}}
        try:
            toc, reqs, done = connect_via_fetcher(cache, cls, v, c, elems)
        except Exception as e:
            ctx.witness('connection-failed', 'TOC fetch raised %s with two protocol generations sharing the cache' % type(e).__name__, inp)
            return
        want = device_want(cls, elems)
        if done != 1 or table_fields(toc) != want:
            ctx.witness('mixed-generation-wrong-table', 'device %s (protocol %d, checksum %08X) got a table that is not its own after a device of '
                        'protocol %d with checksum %08X used the same cache' % (who, v, c, devs['B' if who == 'A' else 'A'][0], devs['B' if who == 'A' else 'A'][1]),
                        inp, got=str(table_fields(toc))[:300], want=str(want)[:300])
            if misnamed is not None:
                ctx.witness('stored-under-other-checksum', misnamed[0], misnamed[1])
            return
        expect = 0 if who in seen else len(elems)
        if reqs != expect:
            ctx.witness('mixed-generation-requests', 'device %s (protocol %d, checksum %08X): %d element requests, expected %d (%s)'
                        % (who, v, c, reqs, expect, 'warm' if who in seen else 'cold'), inp)
            return
        if not os.path.isfile('%s/%08X.json' % (rw, c)) and misnamed is None:
            misnamed = ('after the download for announced checksum %08X (protocol %d) there is no %08X.json; directory: %s'
                        % (c, v, c, sorted(os.listdir(rw))), inp)       # reported after the table checks of the whole sequence
        seen.add(who)
    if misnamed is not None:
        ctx.witness('stored-under-other-checksum', misnamed[0], misnamed[1])
        return
    ctx.count('search:mixed-generation')


def search(ctx):
    rng = ctx.rng
    thorough = ctx.tier == 'thorough'
    types = type_tables()
    tc, L, P = _mods()
    from cflib.crazyflie.toc import Toc, TocFetcher
    root = tempfile.mkdtemp(prefix='c11s-')
    try:
        ro, rw = root + '/ro', root + '/rw'
        os.makedirs(ro)
        # a read-only directory with a few shipped tables
        shipped = {}
        for _ in range(4):
            t = gen_toc(rng, types, kinds=['id'])
            crc = rng.randrange(2 ** 32)
            shipped[crc] = t
            with open('%s/%08X.json' % (ro, crc), 'w') as f:
                f.write(json.dumps(toc_real(t), indent=2, default=tc.TocCache()._encoder))
        ro_before = {n: (open(ro + '/' + n, 'rb').read(), os.stat(ro + '/' + n).st_mtime_ns) for n in os.listdir(ro)}
        cache = tc.TocCache(ro_cache=ro, rw_cache=rw)
        stored = {}
        for i in range(200 if thorough else 40):
            toc = gen_toc(rng, types, max_groups=6 if i % 5 == 4 else 3, max_names=6 if i % 5 == 4 else 3)
            crc = rng.choice([rng.randrange(2 ** 32), rng.randrange(2 ** 32), 0, 0xFFFFFFFF] + list(stored)[:2] + list(shipped)[:1])
            try:
                cache.insert(crc, toc_real(toc))
            except Exception as e:
                ctx.witness('insert-raised', 'insert raised ' + type(e).__name__, {'crc': crc, 'toc': toc_spec(toc)})
                continue
            stored[crc] = toc
            path = written_path(cache, rw, crc)
            if path is None:
                if rw:
                    ctx.witness('insert-wrote-nothing', 'insert into a writable rw directory left no file', {'crc': crc})
                continue
            data = open(path, 'rb').read()
            # (a) load = store, entry for entry; through this instance and through a new one (new process)
            for c2, who in ((cache, 'same-instance'), (tc.TocCache(ro_cache=ro, rw_cache=rw), 'new-instance')):
                try:
                    got = c2.fetch(crc)
                except Exception as e:
                    ctx.witness('fetch-raised', 'fetch raised ' + type(e).__name__, {'crc': crc, 'toc': toc_spec(toc)})
                    continue
                if got is None:
                    if not has_class_key(toc):
                        ctx.witness('stored-table-not-loaded', 'a table stored without error is not found again (%s)' % who, {'crc': crc, 'toc': toc_spec(toc)})
                    else:
                        ctx.count('search:class-key-table-is-a-miss')
                elif table_fields(got) != want_fields(toc):
                    ctx.witness('load-ne-store', 'loaded table differs from the stored one (%s)' % who, {'crc': crc, 'toc': toc_spec(toc)},
                                got=str(table_fields(got))[:400], want=str(want_fields(toc))[:400])
                else:
                    ctx.count('search:load=store')
            # (b) every truncation offset is a miss
            if i % 3 == 0 or thorough:
                for k in range(len(data)):
                    with open(path, 'wb') as f:
                        f.write(data[:k])
                    try:
                        got = cache.fetch(crc)
                    except Exception as e:
                        got = e
                    if got is not None:
                        ctx.witness('truncated-file-used', 'a cache file cut at byte %d of %d is not treated as a miss' % (k, len(data)),
                                    {'crc': crc, 'toc': toc_spec(toc), 'k': k}, got=repr(got)[:200])
                        break
                    ctx.count('search:truncation-offsets')
                with open(path, 'wb') as f:
                    f.write(data)
            # (c) only the announced checksum finds it
            for other in (crc ^ 1, crc ^ 0x80000000, (crc + 1) % 2 ** 32, (crc * 16) % 2 ** 32, crc >> 4,
                          crc & 0x00FFFFFF, crc & 0xFFFF, crc & 0xFF, crc & 0xF, 0, crc | 0xF0000000):
                if other in stored or other in shipped or other == crc:
                    continue
                try:
                    r_other = cache.fetch(other)
                except Exception as e:
                    r_other = e
                if r_other is not None:
                    ctx.witness('wrong-crc-hit', 'fetch(%08X) returned a table although nothing was stored under it' % other, {'stored': crc, 'asked': other})
        # (d) each checksum yields the table LAST stored under it (shipped ones unless overwritten in rw)
        fresh = tc.TocCache(ro_cache=ro, rw_cache=rw)
        for crc, toc in list(shipped.items()) + list(stored.items()):
            if crc in stored:
                toc = stored[crc]
            try:
                got = fresh.fetch(crc)
            except Exception as e:
                ctx.witness('fetch-raised', 'fetch raised ' + type(e).__name__, {'crc': crc, 'toc': toc_spec(toc)})
                continue
            if got is None and (has_class_key(toc) or not toc):
                continue
            if table_fields(got) != want_fields(toc):
                ctx.witness('wrong-table-for-crc', 'fetch returned a table other than the one last stored under this checksum', {'crc': crc},
                            got=str(table_fields(got))[:300], want=str(want_fields(toc))[:300])
            else:
                ctx.count('search:last-stored-wins')
        # (e) unparsable files are misses, never exceptions
        for i in range(600 if thorough else 150):
            data = rng.choice([mutate(rng, json.dumps(toc_real(gen_toc(rng, types)), indent=2, default=cache._encoder).encode()),
                               gen_json_text(rng).encode('utf-8')[:rng.randrange(1, 60)], bytes(rng.randrange(256) for _ in range(rng.randrange(0, 30)))])
            if not is_unparsable(data):
                continue
            crc = 0x0BADF00D
            with open('%s/%08X.json' % (rw, crc), 'wb') as f:
                f.write(data)
            c2 = tc.TocCache(ro_cache=ro, rw_cache=rw)
            try:
                got = c2.fetch(crc)
            except Exception as e:
                got = e
            if got is not None:
                ctx.witness('unparsable-file-used', 'an unparsable cache file is not treated as a miss', {'data': data.hex()}, got=repr(got)[:200])
            ctx.count('search:unparsable-is-miss')
        # (e2) well-formed JSON whose entries cannot be decoded (older format without 'extended', missing member, unknown or
        #      non-string class tag, wrong container types): a miss as well, and the fetcher downloads
        elem = '"ident": 0, "group": "g", "name": "n", "ctype": "uint8_t", "pytype": "<B", "access": 0'
        undecodable = ['{"g": {"n": {"__class__": "ParamTocElement", %s}}}' % elem,
                       '{"g": {"n": {"__class__": "ParamTocElement", %s, "extended": true}}}' % elem.replace('"pytype": "<B", ', ''),
                       '{"g": {"n": {"__class__": "LogTocElement", %s}}}' % elem.replace('"ident": 0, ', ''),
                       '{"g": {"n": {"__class__": "FooTocElement", %s}}}' % elem,
                       '{"g": {"n": {"__class__": 5, %s}}}' % elem,
                       '{"g": {"n": {"__class__": null, %s}}}' % elem,
                       '{"g": {"__class__": {"__class__": "LogTocElement", %s}}}' % elem]
        for text in undecodable:
            with open('%s/%08X.json' % (rw, 0x0BADF00D), 'w') as f:
                f.write(text)
            c2 = tc.TocCache(ro_cache=ro, rw_cache=rw)
            try:
                got = c2.fetch(0x0BADF00D)
            except Exception as e:
                got = e
            if got is not None:
                ctx.witness('undecodable-file-used', 'a cache file whose entries cannot be decoded is not treated as a miss', {'text': text}, got=repr(got)[:200])
            ctx.count('search:undecodable-is-miss')
        os.remove('%s/%08X.json' % (rw, 0x0BADF00D))
        # (f) the read-only directory is untouched
        ro_after = {n: (open(ro + '/' + n, 'rb').read(), os.stat(ro + '/' + n).st_mtime_ns) for n in os.listdir(ro)}
        if ro_after != ro_before:
            ctx.witness('ro-written', 'the read-only cache directory was modified', {'changed': sorted(set(ro_after) ^ set(ro_before)) or 'content'})
        # (g) TocFetcher: a hit yields the stored table without element requests; a miss / cut / garbage file is downloaded
        for i in range(120 if thorough else 30):
            cls = 'LP'[i % 2]
            version = [4, 3][i // 2 % 2]
            n = rng.choice([1, 2, 3, 6, 12])
            elems = device_table(rng, cls, n)
            crc = 0x70000000 + i
            ecls = L if cls == 'L' else P

            def connect():
                c = tc.TocCache(ro_cache=ro, rw_cache=rw)
                cf = FakeCF(version, 5 if cls == 'L' else 2, crc, elems)
                holder, done = Toc(), []
                f = TocFetcher(cf, ecls, cf.port, holder, lambda: done.append(1), c)
                f.start()
                reqs = 0
                while cf.sent and cf.cb is not None:
                    req = cf.sent.pop(0)
                    reqs += req[0] in (0, 2)
                    cf.cb(cf.reply_for(req))
                return holder.toc, reqs, len(done)
            want = {}
            for idx, (t, g, nm) in enumerate(elems):
                e = ecls(idx, bytes([t]) + g.encode('latin-1') + b'\0' + nm.encode('latin-1') + b'\0')
                want.setdefault(g, {})[nm] = elem_fields(e)
            for phase in ('cold', 'warm', 'cut', 'garbage', 'warm-again'):
                path = written_path(None, rw, crc) or sorted((p for p in (os.path.join(rw, n) for n in os.listdir(rw))), key=os.path.getmtime)[-1]
                if phase == 'cut':
                    data = open(path, 'rb').read()
                    with open(path, 'wb') as f:
                        f.write(data[:rng.randrange(len(data))])
                elif phase == 'garbage':
                    with open(path, 'wb') as f:
                        f.write(rng.choice([b'', b'{"', b'\xff\xfe', b'[', b'{"a": {"b": }}']))
                try:
                    toc, reqs, done = connect()
                except Exception as e:
                    ctx.witness('connection-failed', 'TOC fetch raised %s in phase %s' % (type(e).__name__, phase), {'cls': cls, 'n': n, 'phase': phase})
                    break
                if done != 1 or table_fields(toc) != want:
                    ctx.witness('fetcher-wrong-table', 'table after the TOC fetch differs from the device table (phase %s)' % phase,
                                {'cls': cls, 'version': version, 'elems': [(t, g, nm) for t, g, nm in elems], 'phase': phase}, got=str(table_fields(toc))[:300], want=str(want)[:300])
                    break
                expect_reqs = 0 if phase in ('warm', 'warm-again') else n
                if reqs != expect_reqs:
                    ctx.witness('fetcher-requests', 'phase %s: %d element requests, expected %d' % (phase, reqs, expect_reqs), {'cls': cls, 'n': n, 'phase': phase})
                    break
                ctx.count('search:fetcher-' + phase)
        # (g1) EVERY kind of unusable hit, through the real TocFetcher: the checksum's file is in the cache's file list but
        #      cannot be opened when the device announces it - vanished after the directory scan, unreadable, a directory or a
        #      dangling symlink with the file's name; in the ro and in the rw directory; log and param; protocol V1 and V2.
        #      Required: fetch() returns None without raising, the fetcher downloads all elements and completes with the
        #      device's table.
        for kind in UNUSABLE_KINDS:
            for where in ('ro', 'rw'):
                for cls in 'LP':
                    for version in (4, 3):
                        unusable_hit_case(ctx, rng, root, kind, where, cls, version)
        # (g3) mixed protocol generations on one cache, checksums that are byte permutations / shifts of each other: every
        #      device ends up with ITS table (cold: downloaded; warm: from the cache without requests), the file is named after
        #      the announced checksum, in both connection orders, same TocCache object or a new one
        for trial in range(48 if thorough else 16):
            mixed_generation_case(ctx, rng, root, trial)
        # (g2) histories (twin of never_wrong_table): completed inserts, inserts cut at any byte, restarts; afterwards every
        #      checksum yields None or the table LAST written under it - and None when that last write was cut
        for trial in range(60 if thorough else 15):
            hd = '%s/h%d' % (root, trial)
            cache = tc.TocCache(rw_cache=hd)
            last = {}
            crcs = [rng.randrange(2 ** 32) for _ in range(3)] + [0x0000BEEF, 0x1000BEEF]
            for _ in range(rng.randrange(3, 14)):
                op = rng.choice(['insert', 'insert', 'cut', 'restart'])
                crc = rng.choice(crcs)
                if op == 'restart':
                    cache = tc.TocCache(rw_cache=hd)
                    continue
                toc = gen_toc(rng, types, max_groups=2, max_names=2)
                if op == 'insert':
                    cache.insert(crc, toc_real(toc))
                    last[crc] = (toc, True)
                else:
                    n = len(json.dumps(toc_real(toc), indent=2, default=cache._encoder))
                    k = rng.choice([0, 1, n - 1, rng.randrange(n)])

                    def cut_open(name, mode='r', *a, **kw):
                        f = open(name, mode, *a, **kw)
                        return CutWriter(f, k) if 'w' in mode else f
                    tc.open = cut_open
                    try:
                        cache.insert(crc, toc_real(toc))
                    finally:
                        del tc.open
                    last[crc] = (toc, False)
            for c2 in (cache, tc.TocCache(rw_cache=hd)):
                for crc in crcs:
                    try:
                        got = c2.fetch(crc)
                    except Exception as e:
                        ctx.witness('fetch-raised', 'fetch raised %s after a history of inserts/cuts/restarts' % type(e).__name__, {'crc': crc})
                        continue
                    if got is None:
                        if crc in last and last[crc][1] and last[crc][0] and not has_class_key(last[crc][0]) and c2 is not cache:
                            ctx.witness('stored-table-not-loaded', 'the table last stored completely is not found by a new TocCache', {'crc': crc})
                        continue
                    if crc not in last or not last[crc][1] or table_fields(got) != want_fields(last[crc][0]):
                        ctx.witness('history-wrong-table', 'after a history of inserts, cut writes and restarts fetch returned a table that is not '
                                    'the one last (completely) written under this checksum', {'crc': crc, 'complete': last.get(crc, (None, None))[1]},
                                    got=str(table_fields(got))[:300])
                    else:
                        ctx.count('search:history-last-written')
        # (h) colliding checksums: the log and the parameter table of one firmware announce the same CRC
        crc = 0x5EEDC0DE
        log_elems, par_elems = device_table(rng, 'L', 3), device_table(rng, 'P', 3)
        for crc, (first, second) in ((0x5EEDC0DE, ('L', 'P')), (0x5EEDC0DF, ('P', 'L'))):
            for cls in (first, second):
                elems = log_elems if cls == 'L' else par_elems
                ecls = L if cls == 'L' else P
                c = tc.TocCache(ro_cache=ro, rw_cache=rw)
                cf = FakeCF(4, 5 if cls == 'L' else 2, crc, elems)
                holder, done = Toc(), []
                try:
                    TocFetcher(cf, ecls, cf.port, holder, lambda: done.append(1), c).start()
                    while cf.sent and cf.cb is not None:
                        cf.cb(cf.reply_for(cf.sent.pop(0)))
                except Exception as e:
                    ctx.witness('connection-failed', 'TOC fetch raised %s with colliding checksums' % type(e).__name__, {'first': first, 'second': second})
                    continue
                want = {}
                for idx, (t, g, nm) in enumerate(elems):
                    e = ecls(idx, bytes([t]) + g.encode('latin-1') + b'\0' + nm.encode('latin-1') + b'\0')
                    want.setdefault(g, {})[nm] = elem_fields(e)
                if table_fields(holder.toc) != want:
                    bad = sorted({type(e).__name__ for ns in holder.toc.values() for e in ns.values()})
                    ctx.witness('crc-collision-log-param',
                                'log and parameter TOC announcing the same CRC share one cache file: the %s fetch is given the %s table (%s)'
                                % ('parameter' if cls == 'P' else 'log', 'log' if cls == 'P' else 'parameter', ','.join(bad)),
                                {'crc': crc, 'first': first, 'second': second}, got=str(table_fields(holder.toc))[:300], want=str(want)[:300])
    finally:
        shutil.rmtree(root, ignore_errors=True)

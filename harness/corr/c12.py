"""C12 - Flashing writes exactly the image, nowhere else.

Tie A: the integer expressions of Bootloader._internal_flash (size guard, page count, slice bounds, flush
condition, flash-page expressions), the struct formats / argument lists / constants of Cloader.upload_buffer
and Cloader.write_flash (incl. the retry-loop test, the two receive timeouts and the retry counter) and
CRTPPacket's header expression are re-extracted into Gen/C12.lean.
Tie B: real Bootloader._internal_flash + Cloader over a fake link (send_packet / receive_packet(timeout))
connected to a Python twin of the Spec target + outcome script, vs the Lean model run against the Lean Spec
environment (Driver/C12.lean): transmitted packets, probed flash/buffer pages, result are compared.
"""
import ast
import contextlib
import io
import json
import os

from harness.lib import extract as X
from harness.lib.common import ExtractError, exc_enum, hexs, VERIF

PID = 'C12'
LEAN_TARGETS = ['CfVerif.Props.C12']
PROPS_MODULES = ['CfVerif.Props.C12']
DRIVER = 'Driver/C12.lean'
REQUIRED_THEOREMS = ['CfVerif.C12.refused_if_too_big', 'CfVerif.C12.upload_covers_once', 'CfVerif.C12.flash_exact',
                     'CfVerif.C12.upload_no_aliasing', 'CfVerif.C12.gen_fresh_packets', 'CfVerif.C12.write_flash_attempts_bounded', 'CfVerif.C12.write_flash_ok_only_if_acked', 'CfVerif.C12.abort_on_failure',
                     'CfVerif.C12.geometry_from_own_connection', 'CfVerif.C12.flash_uses_geometry_of_this_connection', 'CfVerif.C12.stale_cache_counterexample',
                     'CfVerif.C12.gen_loader_state', 'CfVerif.C12.gen_update_info', 'CfVerif.C12.gen_update_info_tests', 'CfVerif.C12.ref_attempts_le', 'CfVerif.C12.ref_unanswered', 'CfVerif.C12.ref_answered_at_once',
                     'CfVerif.C12.gen_upload', 'CfVerif.C12.gen_upload_room', 'CfVerif.C12.gen_write_flash', 'CfVerif.C12.gen_retry_test',
                     'CfVerif.C12.gen_internal_flash', 'CfVerif.C12.gen_constants']
TRUSTED = ['harness/corr/c12.py: extractor (AST -> Gen/C12.lean), fake link, Python twin of the Spec target, canonicalisers',
           'Spec/C12.lean environment (written from protocol knowledge, cross-checked against its Python twin on every run): target = page buffers + flash '
           'as byte maps; 0x14 load-buffer / 0x18 write-flash decoding; executes every write-flash command it receives; reply (id, 0x18, status, code)',
           'link drivers modelled as a FIFO receive queue: receive_packet(0) = non-blocking get, receive_packet(t>0) = head of queue or None after the timeout',
           "native byte order ('=BBHH') = little-endian; int((len-1)/page_size) (float division) = integer division (exact below 2^53)",
           'Python struct / bytearray / slicing as in Base/Struct and Model/C12 (pySlice, List.drop)']
ASSUMPTIONS = ['a positive write-flash reply (header 0xFF, (id, 0x18), status 1) is produced only by the target and only after it executed that command (Outcome.Genuine)',
               'timing: a reply is never later than the start of the next write_flash call (a late reply becomes visible as soon as the receive of the attempt that caused it '
               'has returned; the protocol has no sequence numbers, so a reply delayed across calls could acknowledge the wrong command); no reply is in flight when flashing starts',
               'geometry as _update_info can produce it (16-bit fields, page_size > 0, buffer_pages > 0), target id a byte, image length >= 1, page_override None or >= 0',
               'one target on the link (commands addressed to other target ids are ignored by the modelled target)',
               'get-info replies on a link are genuine (only the connected copter answers (id, 0x10) packets; it may lose, delay or interleave unrelated packets); '
               'a copter reports a fixed geometry per target; one link per copter at a time',
               'flash() orchestration (zip/manifest, soft-device upgrade, deck flashing), read_flash, reset handshakes and scan are outside the model; '
               'start_bootloader(cold) / flash(.bin) / close are compared through their expansion into the modelled loader operations']
RULE = ('cases = (flash) geometry x image length x outcome script x stale receive queue x override x terminate/progress callbacks: every length 0..2 buffer-fulls+ for '
        'small adversarial geometries (page 1..51, buffers 1..5), lengths around every page/buffer/capacity multiple otherwise, the real nRF51/STM32 geometries through the '
        'real getInfo handler; (upload) every buffer length 0..79 + multiples of 25 and 16-bit address overflow; (wflash) EVERY script of length <= 3 over 8 outcome kinds, '
        'the sixth-attempt neighbourhood, random argument/ script/ stale-queue combinations incl. malformed replies. non-trivial = distinct (kind, all inputs) tuple; '
        'compared: result/exception class, every transmitted packet (hex), probed flash and buffer pages, outcomes left, receive-queue length')

BOOT = 'cflib/bootloader/__init__.py'
CLOAD = 'cflib/bootloader/cloader.py'
CRTP = 'cflib/crtp/crtpstack.py'


# ------------------------------------------------------------------------------------------------------
# Tie A
# ------------------------------------------------------------------------------------------------------
def _iexpr(e, env, nat=False):
    """integer expression -> Lean term over Int (or over Nat when nat=True: then `-` is rejected, all operands
    being non-negative by construction).  Supports names/attributes in env, int literals, + - *,
    `len(image)`-style calls listed in env and `int(a / b)` (float division then truncation: exact for
    |a| < 2^53, b != 0; translated to Int.tdiv, division by zero is checked by the model before use)."""
    def go(n):
        s = ast.unparse(n)
        if s in env:
            return env[s]
        if isinstance(n, ast.Constant) and isinstance(n.value, int) and not isinstance(n.value, bool):
            return str(n.value) if n.value >= 0 else '(%d)' % n.value
        if isinstance(n, ast.BinOp) and isinstance(n.op, (ast.Add, ast.Sub, ast.Mult)):
            if nat and isinstance(n.op, ast.Sub):
                raise ExtractError('subtraction in an expression the model evaluates over Nat: ' + s)
            op = {ast.Add: '+', ast.Sub: '-', ast.Mult: '*'}[type(n.op)]
            return '(%s %s %s)' % (go(n.left), op, go(n.right))
        if isinstance(n, ast.Call) and isinstance(n.func, ast.Name) and n.func.id == 'int' and len(n.args) == 1 \
                and isinstance(n.args[0], ast.BinOp) and isinstance(n.args[0].op, ast.Div):
            return ('(%s / %s)' if nat else '(Int.tdiv %s %s)') % (go(n.args[0].left), go(n.args[0].right))
        raise ExtractError('untranslatable integer expression: ' + s)
    return go(e)


_CMP = {ast.Gt: '>', ast.GtE: '≥', ast.Lt: '<', ast.LtE: '≤', ast.Eq: '=', ast.NotEq: '≠'}


def _icmp(e, env, nat=False):
    X.expect(isinstance(e, ast.Compare) and len(e.ops) == 1 and type(e.ops[0]) in _CMP, 'untranslatable comparison: ' + ast.unparse(e))
    return 'decide (%s %s %s)' % (_iexpr(e.left, env, nat), _CMP[type(e.ops[0])], _iexpr(e.comparators[0], env, nat))


def _calls(node, suffix):
    res = [n for n in ast.walk(node) if isinstance(n, ast.Call) and ast.unparse(n.func).endswith(suffix)]
    return sorted(res, key=lambda n: (n.lineno, n.col_offset))


def _one(lst, what):
    X.expect(len(lst) == 1, 'expected exactly one %s, found %d' % (what, len(lst)))
    return lst[0]


def extract(ctx):
    g = X.GenFile(PID, [BOOT, CLOAD, CRTP])
    # ---- CRTPPacket header expression + set_header(0xFF, 0xFF) ------------------------------------------
    uh = X.func(CRTP, 'CRTPPacket._update_header')
    asg = _one([n for n in ast.walk(uh) if isinstance(n, ast.Assign) and ast.unparse(n.targets[0]) == 'self.header'], 'self.header assignment')
    g.raw('def crtpHeader (port chan : Nat) : Nat := ' + X.expr_to_lean(asg.value, {'self._port': 'port', 'self.channel': 'chan'}))
    # ---- Cloader.upload_buffer -------------------------------------------------------------------------
    ub = X.func(CLOAD, 'Cloader.upload_buffer')
    X.expect([a.arg for a in ub.args.args] == ['self', 'target_id', 'page', 'address', 'buff'], 'upload_buffer signature changed')
    sc = X.struct_calls(ub)
    X.expect(len(sc) == 2 and all(c['fn'] == 'pack' and c['fmt'] for c in sc), 'upload_buffer: expected two struct.pack calls')
    X.expect(sc[0]['fmt'] == sc[1]['fmt'], 'upload_buffer: the two packets use different formats')
    g.string('uploadFmt', sc[0]['fmt'])
    g.strings('uploadArgs0', sc[0]['args'])
    g.strings('uploadArgs1', sc[1]['args'])
    packs = [n for n in _calls(ub, 'struct.pack')]
    try:
        g.nat('uploadCmd', ast.literal_eval(packs[0].args[2]))
        g.nat('uploadCmd1', ast.literal_eval(packs[1].args[2]))
    except Exception:
        raise ExtractError('upload_buffer: command byte is not a literal')
    g.raw('def uploadNextAddr (i address : Nat) : Nat := ' + X.expr_to_lean(packs[1].args[4], {'i': 'i', 'address': 'address'}))
    hdrs = _calls(ub, '.set_header')
    X.expect(len(hdrs) == 2 and all(len(h.args) == 2 for h in hdrs), 'upload_buffer: expected two set_header(port, channel) calls')
    g.strings('uploadHeaderArgs', sorted({ast.unparse(a) for h in hdrs for a in h.args}))
    try:
        g.nat('bootPort', ast.literal_eval(hdrs[0].args[0]))
        g.nat('bootChan', ast.literal_eval(hdrs[0].args[1]))
    except Exception:
        raise ExtractError('upload_buffer: set_header arguments are not literals')
    loop = _one([n for n in ast.walk(ub) if isinstance(n, ast.For)], 'for loop in upload_buffer')
    g.string('uploadLoopIter', ast.unparse(loop.target) + ' in ' + ast.unparse(loop.iter))
    g.strings('uploadAppendArgs', [ast.unparse(c.args[0]) for c in _calls(ub, 'pk.data.append')])
    cmp_ = _one([n for n in ast.walk(ub) if isinstance(n, ast.Compare)], 'comparison in upload_buffer')
    X.expect(isinstance(cmp_.left, ast.Name) and cmp_.left.id == 'count' and isinstance(cmp_.comparators[0], ast.Constant),
             'upload_buffer: flush test is not `count <op> <literal>`')
    g.raw('def uploadFull (count : Nat) : Bool := ' + _icmp(cmp_, {'count': 'count'}, nat=True))
    g.nat('uploadFlushAt', cmp_.comparators[0].value)
    g.strings('uploadCountUpdates', [ast.unparse(n) for n in sorted((m for m in ast.walk(ub) if isinstance(m, (ast.AugAssign, ast.Assign)) and ast.unparse(m.targets[0] if isinstance(m, ast.Assign) else m.target) == 'count'), key=lambda m: m.lineno)])
    g.strings('uploadSends', [ast.unparse(c) for c in _calls(ub, 'link.send_packet')])
    # aliasing: after a packet object has been handed to link.send_packet it must not be touched again - the next chunk
    # needs a NEW CRTPPacket before anything is written to `pk` (a link may keep the object and serialise it later)
    def fresh_after_send(body):
        idx = [i for i, s_ in enumerate(body) if isinstance(s_, ast.Expr) and isinstance(s_.value, ast.Call) and ast.unparse(s_.value.func).endswith('link.send_packet')]
        if not idx:
            return None
        for s_ in body[idx[0] + 1:]:
            if isinstance(s_, ast.Assign) and ast.unparse(s_.targets[0]) == 'pk':
                return isinstance(s_.value, ast.Call) and ast.unparse(s_.value.func) == 'CRTPPacket'
            if any(isinstance(n, ast.Name) and n.id == 'pk' for n in ast.walk(s_)):
                return False
        return True        # pk is not used again in this block
    fullif = _one([n for n in ast.walk(ub) if isinstance(n, ast.If) and n.test is cmp_], 'packet-full branch of upload_buffer')
    fr = fresh_after_send(fullif.body)
    X.expect(fr is not None, 'upload_buffer: the packet-full branch does not send the packet')
    g.raw('def uploadFreshPacket : Bool := ' + ('true' if fr else 'false') + '   -- a new CRTPPacket object is created after every send inside the loop')
    # ---- Cloader.write_flash -----------------------------------------------------------------------------
    wf = X.func(CLOAD, 'Cloader.write_flash')
    X.expect([a.arg for a in wf.args.args] == ['self', 'addr', 'page_buffer', 'target_page', 'page_count'], 'write_flash signature changed')
    whiles = sorted([n for n in ast.walk(wf) if isinstance(n, ast.While)], key=lambda n: n.lineno)
    X.expect(len(whiles) == 2, 'write_flash: expected the flush loop and the retry loop')
    g.string('flushLoopTest', ast.unparse(whiles[0].test))
    g.string('retryLoopTest', ast.unparse(whiles[1].test))
    recvs = _calls(wf, 'link.receive_packet')
    X.expect(len(recvs) == 3 and all(len(r.args) == 1 for r in recvs), 'write_flash: expected three receive_packet(timeout) calls')
    X.expect(recvs[0].lineno < whiles[0].lineno and whiles[0].lineno < recvs[1].lineno <= whiles[0].end_lineno
             and whiles[1].lineno < recvs[2].lineno <= whiles[1].end_lineno, 'write_flash: receive_packet calls are not where the model expects them')
    g.strings('flushRecvArgs', [ast.unparse(r.args[0]) for r in recvs[:2]])
    g.string('retryRecvArg', ast.unparse(recvs[2].args[0]))
    try:
        tmo = [ast.literal_eval(r.args[0]) for r in recvs]
    except Exception:
        raise ExtractError('write_flash: receive_packet timeouts are not literals')
    X.expect(all(isinstance(t, (int, float)) and not isinstance(t, bool) for t in tmo), 'write_flash: receive_packet timeouts are not numbers')
    g.raw('def flushRecvPolls : Bool := ' + ('true' if tmo[0] == 0 and tmo[1] == 0 else 'false') + '   -- both flush receives use timeout 0')
    g.raw('def retryRecvBlocks : Bool := ' + ('true' if tmo[2] > 0 else 'false') + '   -- the retry receive waits (timeout > 0)')
    g.strings('flushLoopBody', [ast.unparse(s) for s in whiles[0].body])
    ia = X.int_assigns(wf)
    X.expect('retry_counter' in ia, 'write_flash: retry_counter = <literal> not found')
    g.nat('retryInit', ia['retry_counter'])
    g.strings('retryCounterUpdates', [ast.unparse(n) for n in ast.walk(whiles[1]) if isinstance(n, ast.AugAssign)])
    sc = X.struct_calls(wf)
    X.expect(len(sc) == 2 and sc[0]['fn'] == 'unpack' and sc[1]['fn'] == 'pack' and sc[0]['fmt'] and sc[1]['fmt'], 'write_flash: expected unpack (reply) and pack (command)')
    g.string('replyFmt', sc[0]['fmt'])
    g.strings('replyArgs', sc[0]['args'])
    g.string('writeFmt', sc[1]['fmt'])
    g.strings('writeArgs', sc[1]['args'])
    pk = _one(_calls(wf, 'struct.pack'), 'struct.pack in write_flash')
    try:
        g.nat('writeCmd', ast.literal_eval(pk.args[2]))
    except Exception:
        raise ExtractError('write_flash: command byte is not a literal')
    tup = [n for n in ast.walk(whiles[1].test) if isinstance(n, ast.Compare) and isinstance(n.comparators[0], ast.Tuple)]
    X.expect(len(tup) == 1 and len(tup[0].comparators[0].elts) == 2 and ast.unparse(tup[0].comparators[0].elts[0]) == 'addr', 'write_flash: reply check `!= (addr, <cmd>)` not found')
    hdrc = [n for n in ast.walk(whiles[1].test) if isinstance(n, ast.Compare) and ast.unparse(n.left) == 'pk.header']
    lenc = [n for n in ast.walk(whiles[1].test) if isinstance(n, ast.Compare) and ast.unparse(n.left) == 'len(pk.data)']
    X.expect(len(hdrc) == 1 and len(lenc) == 1, 'write_flash: header / length checks not found')
    try:
        g.nat('replyCmd', ast.literal_eval(tup[0].comparators[0].elts[1]))
        g.nat('replyHeader', ast.literal_eval(hdrc[0].comparators[0]))
        g.nat('replyMinLen', ast.literal_eval(lenc[0].comparators[0]))
    except Exception:
        raise ExtractError('write_flash: reply check constants are not literals')
    hdrs = _calls(wf, '.set_header')
    g.strings('writeHeaderArgs', sorted({ast.unparse(a) for h in hdrs for a in h.args}))
    ifs = [n for n in ast.walk(wf) if isinstance(n, ast.If)]
    g.strings('writeIfTests', [ast.unparse(n.test) for n in sorted(ifs, key=lambda n: n.lineno)])
    g.strings('writeReturns', [ast.unparse(n.value) if n.value else 'None' for n in sorted((m for m in ast.walk(wf) if isinstance(m, ast.Return)), key=lambda m: m.lineno)])
    g.strings('writeErrorCode', [ast.unparse(n.value) for n in sorted((m for m in ast.walk(wf) if isinstance(m, ast.Assign) and ast.unparse(m.targets[0]) == 'self.error_code'), key=lambda m: m.lineno)])
    g.strings('writeSends', [ast.unparse(c) for c in _calls(wf, 'link.send_packet')])
    first = whiles[1].body[0]
    g.raw('def writeFreshPacket : Bool := ' + ('true' if isinstance(first, ast.Assign) and ast.unparse(first.targets[0]) == 'pk' and isinstance(first.value, ast.Call)
                                               and ast.unparse(first.value.func) == 'CRTPPacket' else 'false') + '   -- every attempt builds a new CRTPPacket object')
    # ---- Bootloader._internal_flash ------------------------------------------------------------------------
    fl = X.func(BOOT, 'Bootloader._internal_flash')
    env = {}
    for pre in ('t_data', 'target_info'):
        env.update({pre + '.page_size': 'pageSize', pre + '.buffer_pages': 'bufferPages', pre + '.flash_pages': 'flashPages'})
    env.update({'len(image)': 'len', 'start_page': 'startPage', 'i': 'i', 'ctr': 'ctr'})
    alias = [ast.unparse(n) for n in ast.walk(fl) if isinstance(n, ast.Assign) and ast.unparse(n.targets[0]) in ('t_data', 'image', 'start_page', 'factor')]
    g.strings('flashAssigns', alias)
    ifs = sorted([n for n in ast.walk(fl) if isinstance(n, ast.If)], key=lambda n: n.lineno)
    ov = [n for n in ifs if ast.unparse(n.test) == 'page_override is not None']
    X.expect(len(ov) == 1 and [ast.unparse(s) for s in ov[0].body] == ['start_page = page_override'] and not ov[0].orelse, '_internal_flash: page_override handling changed')
    guard = [n for n in ifs if isinstance(n.test, ast.Compare) and ast.unparse(n.test.left) == 'len(image)']
    X.expect(len(guard) == 1 and isinstance(guard[0].body[-1], ast.Raise), '_internal_flash: size guard `if len(image) > ...: raise` not found')
    loop = _one([n for n in ast.walk(fl) if isinstance(n, ast.For)], 'for loop in _internal_flash')
    X.expect(guard[0].lineno < loop.lineno and ov[0].lineno < guard[0].lineno, '_internal_flash: size guard is not before the page loop')
    # nothing may be transmitted before the guard
    first_tx = min([c.lineno for c in _calls(fl, '_cload.upload_buffer') + _calls(fl, '_cload.write_flash')] or [0])
    X.expect(first_tx > guard[0].lineno, '_internal_flash: a transmission precedes the size guard')
    g.raw('def guardRefuses (len flashPages startPage pageSize : Int) : Bool := ' + _icmp(guard[0].test, env))
    X.expect(isinstance(loop.iter, ast.Call) and ast.unparse(loop.iter.func) == 'range' and len(loop.iter.args) == 2
             and ast.unparse(loop.iter.args[0]) == '0' and ast.unparse(loop.target) == 'i', '_internal_flash: page loop is not `for i in range(0, n)`')
    g.raw('def pageCount (len pageSize : Int) : Int := ' + _iexpr(loop.iter.args[1], env))
    term = [n for n in loop.body if isinstance(n, ast.If) and 'terminate_flashing_cb' in ast.unparse(n.test)]
    X.expect(len(term) == 1 and loop.body[0] is term[0] and isinstance(term[0].body[-1], ast.Raise), '_internal_flash: terminate check is not the first statement of the page loop')
    g.string('terminateTest', ast.unparse(term[0].test))
    ups = _calls(fl, '_cload.upload_buffer')
    X.expect(len(ups) == 2 and all(len(u.args) == 4 for u in ups), '_internal_flash: expected two upload_buffer calls')
    part = [n for n in loop.body if isinstance(n, ast.If) and any(u in list(ast.walk(n)) for u in ups)]
    X.expect(len(part) == 1 and ups[0] in list(ast.walk(part[0].body[0])) and ups[1] in list(ast.walk(part[0].orelse[0])), '_internal_flash: partial/full page upload branches changed')
    g.raw('def lastPartial (i pageSize len : Nat) : Bool := ' + _icmp(part[0].test, env, nat=True))
    g.strings('uploadCallArgs0', [ast.unparse(a) for a in ups[0].args[:3]])
    g.strings('uploadCallArgs1', [ast.unparse(a) for a in ups[1].args[:3]])
    for k, u in enumerate(ups):
        sl = u.args[3]
        X.expect(isinstance(sl, ast.Subscript) and ast.unparse(sl.value) == 'image' and isinstance(sl.slice, ast.Slice) and sl.slice.step is None
                 and sl.slice.lower is not None, '_internal_flash: upload_buffer data is not a slice image[a:b]')
        g.raw('def slice%dLo (i pageSize : Nat) : Nat := %s' % (k, _iexpr(sl.slice.lower, env, nat=True)))
        if k == 0:
            X.expect(sl.slice.upper is None, '_internal_flash: the partial-page slice has an upper bound')
        else:
            X.expect(sl.slice.upper is not None, '_internal_flash: the full-page slice has no upper bound')
            g.raw('def slice1Hi (i pageSize : Nat) : Nat := ' + _iexpr(sl.slice.upper, env, nat=True))
    g.strings('ctrUpdates', [ast.unparse(n) for n in sorted((m for m in ast.walk(fl) if isinstance(m, (ast.AugAssign, ast.Assign)) and ast.unparse(m.targets[0] if isinstance(m, ast.Assign) else m.target) == 'ctr'), key=lambda m: m.lineno)])
    wfs = _calls(fl, '_cload.write_flash')
    X.expect(len(wfs) == 2 and all(len(w.args) == 4 for w in wfs), '_internal_flash: expected two write_flash calls')
    fl_if = [n for n in loop.body if isinstance(n, ast.If) and wfs[0] in list(ast.walk(n))]
    X.expect(len(fl_if) == 1 and isinstance(fl_if[0].test, ast.Compare), '_internal_flash: in-loop flush condition not found')
    g.raw('def flushDue (ctr bufferPages : Nat) : Bool := ' + _icmp(fl_if[0].test, env, nat=True))
    fin_if = [n for n in fl.body if isinstance(n, ast.If) and wfs[1] in list(ast.walk(n))]
    X.expect(len(fin_if) == 1 and fin_if[0].lineno > loop.end_lineno and isinstance(fin_if[0].test, ast.Compare), '_internal_flash: final flush after the loop not found')
    g.raw('def finalFlushDue (ctr : Nat) : Bool := ' + _icmp(fin_if[0].test, env, nat=True))
    g.strings('flushCallArgs0', [ast.unparse(a) for a in wfs[0].args])
    g.strings('flushCallArgs1', [ast.unparse(a) for a in wfs[1].args])
    g.raw('def flushPage (startPage i ctr : Int) : Int := ' + _iexpr(wfs[0].args[2], env))
    g.raw('def finalFlushPage (startPage len pageSize ctr : Int) : Int := ' + _iexpr(wfs[1].args[2], env))
    # both write_flash calls are the test of `if not <call>: ... raise`
    fails = []
    for w in wfs:
        holder = [n for n in ast.walk(fl) if isinstance(n, ast.If) and isinstance(n.test, ast.UnaryOp) and isinstance(n.test.op, ast.Not) and n.test.operand is w]
        X.expect(len(holder) == 1, '_internal_flash: write_flash result is not tested with `if not ...`')
        fails.append('raise' if isinstance(holder[0].body[-1], ast.Raise) and not holder[0].orelse else 'continue')
    g.strings('flushFailAction', fails)
    # ---- the geometry cache of the Cloader object: __init__, _update_info, request_info_update, check_link_and_get_info ----
    cl = X.find(X.parse(CLOAD), 'Cloader')
    class_level = sorted(ast.unparse(t) for n in cl.body if isinstance(n, (ast.Assign, ast.AnnAssign))
                         for t in (n.targets if isinstance(n, ast.Assign) else [n.target]))
    g.strings('cloaderClassAttrs', class_level)          # mutable state must not live on the class (shared by all loaders)
    init = X.find(cl, '__init__')
    inits = {ast.unparse(n.targets[0]): ast.unparse(n.value) for n in init.body if isinstance(n, ast.Assign) and len(n.targets) == 1}
    g.strings('cloaderInit', ['%s = %s' % (k, inits.get(k, '<missing>')) for k in ('self.link', 'self.targets', 'self.protocol_version')])
    # every function of the module that rebinds / clears `targets` (only __init__ may)
    rebind = []
    for fn in [n for n in ast.walk(X.parse(CLOAD)) if isinstance(n, ast.FunctionDef)]:
        for n in ast.walk(fn):
            tg = []
            if isinstance(n, ast.Assign):
                tg = n.targets
            elif isinstance(n, (ast.AugAssign, ast.AnnAssign)):
                tg = [n.target]
            elif isinstance(n, ast.Delete):
                tg = n.targets
            for t in tg:
                if ast.unparse(t) in ('self.targets', 'Cloader.targets', 'cls.targets'):
                    rebind.append(fn.name)
            if isinstance(n, ast.Call) and ast.unparse(n.func) in ('self.targets.clear', 'self.targets.pop', 'self.targets.update'):
                rebind.append(fn.name + ':' + ast.unparse(n.func))
    g.strings('targetsRebinds', sorted(rebind))
    ui = X.find(cl, '_update_info')
    X.expect([a.arg for a in ui.args.args] == ['self', 'target_id'], '_update_info signature changed')
    ia = X.int_assigns(ui)
    X.expect('timeout' in ia, '_update_info: timeout = <int literal> not found')
    g.nat('infoTimeout', ia['timeout'])
    loop = _one([n for n in ast.walk(ui) if isinstance(n, ast.While)], 'while loop in _update_info')
    g.string('infoLoopTest', ast.unparse(loop.test))
    rc = _one(_calls(ui, 'link.receive_packet'), 'receive_packet in _update_info')
    try:
        w = ast.literal_eval(rc.args[0])
    except Exception:
        raise ExtractError('_update_info: receive timeout is not a literal')
    X.expect(isinstance(w, int) and not isinstance(w, bool) and w > 0, '_update_info: receive timeout is not a positive int literal')
    g.nat('infoRecvWait', w)
    g.strings('infoSends', [ast.unparse(c) for c in _calls(ui, 'link.send_packet')])
    dat = [ast.unparse(n.value) for n in ast.walk(ui) if isinstance(n, ast.Assign) and ast.unparse(n.targets[0]) == 'pk.data']
    g.strings('infoRequestData', dat)
    X.expect(len(dat) == 1, '_update_info: request data assignment changed')
    req = [n.value for n in ast.walk(ui) if isinstance(n, ast.Assign) and ast.unparse(n.targets[0]) == 'pk.data'][0]
    X.expect(isinstance(req, ast.Tuple) and len(req.elts) == 2 and ast.unparse(req.elts[0]) == 'target_id', '_update_info: request is not (target_id, <cmd>)')
    try:
        g.nat('infoCmd', ast.literal_eval(req.elts[1]))
    except Exception:
        raise ExtractError('_update_info: command byte is not a literal')
    ifs = sorted([n for n in ast.walk(ui) if isinstance(n, ast.If)], key=lambda n: n.lineno)
    g.strings('infoIfTests', [ast.unparse(n.test) for n in ifs])
    sc = X.struct_calls(ui)
    X.expect(len(sc) >= 3 and sc[0]['fn'] == 'unpack' and sc[1]['fn'] == 'unpack' and sc[1]['fmt'], '_update_info: unpack calls changed')
    g.string('infoMatchFmt', sc[0]['fmt'] or '?')
    g.strings('infoMatchArgs', sc[0]['args'])
    g.string('infoFmt', sc[1]['fmt'])
    g.strings('infoArgs', sc[1]['args'])
    g.strings('infoCpuidArgs', sc[2]['args'])
    g.string('infoCpuidFmt', sc[2]['fmt_src'])
    fields = {}
    for n in ast.walk(ui):
        if isinstance(n, ast.Assign) and ast.unparse(n.targets[0]).startswith('self.targets[target_id].'):
            fields[ast.unparse(n.targets[0]).split('.')[-1]] = ast.unparse(n.value)
    g.strings('infoFields', ['%s = %s' % (k, fields.get(k, '<missing>')) for k in ('addr', 'page_size', 'buffer_pages', 'flash_pages', 'start_page', 'protocol_version')])
    g.strings('infoReturns', [ast.unparse(n.value) if n.value else 'None' for n in sorted((m for m in ast.walk(ui) if isinstance(m, ast.Return)), key=lambda m: m.lineno)])
    um = X.find(cl, '_update_mapping')
    g.strings('mappingIO', [ast.unparse(c) for c in sorted(_calls(um, 'link.send_packet') + _calls(um, 'link.receive_packet'), key=lambda c: c.lineno)])
    md = [n.value for n in ast.walk(um) if isinstance(n, ast.Assign) and ast.unparse(n.targets[0]) == 'pk.data']
    X.expect(len(md) == 1 and isinstance(md[0], ast.Tuple) and len(md[0].elts) == 2, '_update_mapping: request data changed')
    try:
        g.nat('mappingCmd', ast.literal_eval(md[0].elts[1]))
    except Exception:
        raise ExtractError('_update_mapping: command byte is not a literal')
    g.strings('mappingIfTests', [ast.unparse(n.test) for n in sorted((m for m in ast.walk(um) if isinstance(m, ast.If)), key=lambda m: m.lineno)])
    ri = X.find(cl, 'request_info_update')
    g.strings('requestInfoBody', [ast.unparse(s_) for s_ in ri.body if not (isinstance(s_, ast.Expr) and isinstance(s_.value, ast.Constant))])
    ck = X.find(cl, 'check_link_and_get_info')
    g.strings('checkLinkTests', [ast.unparse(n.test) for n in sorted((m for m in ast.walk(ck) if isinstance(m, ast.If)), key=lambda m: m.lineno)])
    g.strings('checkLinkDefaults', [ast.unparse(d) for d in ck.args.defaults])
    ob = X.find(cl, 'open_bootloader_uri')
    g.strings('openLinkAssigns', sorted({ast.unparse(n.targets[0]) for n in ast.walk(ob) if isinstance(n, ast.Assign)}))
    # the cache is forgotten before the new link exists: unconditional top-level statements of open_bootloader_uri,
    # placed before the statement that creates the new driver
    top = [ast.unparse(s_) for s_ in ob.body if isinstance(s_, ast.Assign)]
    newlink = [i for i, s_ in enumerate(ob.body) if any(isinstance(n, ast.Call) and ast.unparse(n.func).endswith('get_link_driver') for n in ast.walk(s_))]
    X.expect(len(newlink) == 1, 'open_bootloader_uri: expected one statement creating the new link driver')
    g.strings('openLinkResets', [ast.unparse(s_) for s_ in ob.body[:newlink[0]] if isinstance(s_, ast.Assign)])
    g.strings('openLinkTopAssigns', top)
    tt = X.class_consts('cflib/bootloader/boottypes.py', 'TargetTypes')
    g.nat('targetSTM32', tt['STM32'])
    g.nat('targetNRF51', tt['NRF51'])
    bv = X.class_consts('cflib/bootloader/boottypes.py', 'BootVersion')
    g.nat('protoCF2', bv['CF2_PROTO_VER'])
    # the geometry _internal_flash uses: the cache entry of the loader object it was called on
    tinfo = [ast.unparse(n.value) for n in ast.walk(fl) if isinstance(n, ast.Assign) and ast.unparse(n.targets[0]) == 'target_info']
    g.strings('flashTargetInfo', tinfo)
    return {'C12.lean': g.render()}


# ------------------------------------------------------------------------------------------------------
# Tie B: environment twin (Python twin of Spec/C12.lean) and the real-code runner
# ------------------------------------------------------------------------------------------------------
def flash_pat(seed, q, o):
    return (q * 7 + o * 13 + seed) % 251


def buf_pat(seed, q, o):
    return (q * 3 + o * 5 + seed + 101) % 253


class Twin:
    """Bootloader target (buffers + flash as byte maps over an initial pattern) + outcome script + late queue.
    Outcome = (exec: bool, reply: None | (hdr, bytes), late: bool).  Written from the protocol, like the Lean Spec."""

    def __init__(self, tid, seed, script):
        self.tid = tid
        self.seed = seed
        self.script = list(script)
        self.late = []
        self.bufov = {}        # buffer page -> {offset: byte}
        self.flashpg = {}      # flash page -> (source buffer page, {offset: byte})   (pages programmed so far)
        self.exec_log = []     # (bp, fp, n) of executed flash-writes
        self.cmds = []         # decoded commands in arrival order

    def decode(self, hdr, d):
        if hdr != 0xFF or len(d) < 2 or d[0] != self.tid:
            return None
        if d[1] == 0x14 and len(d) >= 6:
            return ('load', d[2] | d[3] << 8, d[4] | d[5] << 8, bytes(d[6:]))
        if d[1] == 0x18 and len(d) == 8:
            return ('write', d[2] | d[3] << 8, d[4] | d[5] << 8, d[6] | d[7] << 8)
        return None

    def on_send(self, hdr, d):
        c = self.decode(hdr, d)
        if c is None:
            return []
        self.cmds.append(c)
        if c[0] == 'load':
            ov = self.bufov.setdefault(c[1], {})
            for j, b in enumerate(c[3]):
                ov[c[2] + j] = b
            return []
        _, bp, fp, n = c
        o = self.script.pop(0) if self.script else (True, (0xFF, bytes([self.tid & 0xFF, 0x18, 1, 0])), False)
        if o[0]:
            self.exec_log.append((bp, fp, n))
            for k in range(n):
                self.flashpg[fp + k] = (bp + k, dict(self.bufov.get(bp + k, {})))
        if o[1] is None:
            return []
        if o[2]:
            self.late.append(o[1])
            return []
        return [o[1]]

    def on_wait_done(self):
        r, self.late = self.late, []
        return r

    def flash(self, q, o):
        if q in self.flashpg:
            src, ov = self.flashpg[q]
            return ov[o] if o in ov else buf_pat(self.seed, src, o)
        return flash_pat(self.seed, q, o)

    def buf(self, q, o):
        ov = self.bufov.get(q, {})
        return ov[o] if o in ov else buf_pat(self.seed, q, o)

    def flash_page(self, q, ps):
        return bytes(self.flash(q, o) for o in range(ps))

    def buf_page(self, q, ps):
        return bytes(self.buf(q, o) for o in range(ps))


class FakeLink:
    """The boundary object the bootloader code calls: send_packet / receive_packet(timeout).
    mode 'eager': the packet is serialised inside send_packet (usb / tcp drivers).
    mode 'deferred': the link keeps the packet OBJECT in a one-slot out-queue (radio driver: Queue(1), the radio thread
    reads header/data afterwards) and serialises it as late as the protocol allows: when the next packet needs the slot,
    when the client starts to receive, or when the call is over (finish()).  The client must therefore not touch a packet
    it has handed over; for code that does not, both modes put the same bytes on the air."""

    def __init__(self, twin, inbox=(), mode='eager'):
        self.twin = twin
        self.inbox = list(inbox)
        self.sent = []
        self.timeouts = []
        self.mode = mode
        self.slot = None

    def _air(self, pk):
        d = bytes(pk.data)
        self.sent.append((pk.header, d))
        self.inbox.extend(self.twin.on_send(pk.header, d))

    def finish(self):
        if self.slot is not None:
            pk, self.slot = self.slot, None
            self._air(pk)

    def send_packet(self, pk):
        if self.mode == 'eager':
            self._air(pk)
        else:
            self.finish()
            self.slot = pk

    def receive_packet(self, wait=0):
        from cflib.crtp.crtpstack import CRTPPacket
        self.finish()
        self.timeouts.append(wait)
        r = self.inbox.pop(0) if self.inbox else None
        if wait != 0:
            self.inbox.extend(self.twin.on_wait_done())
        if r is None:
            return None
        return CRTPPacket(r[0], bytearray(r[1]))

    def close(self):
        pass


def _quiet():
    import logging
    logging.disable(logging.CRITICAL)


def show_pkts(pk):
    return ';'.join('%d:%s' % (h, hexs(d)) for h, d in pk) or '-'


def show_pages(fn, ps, pages):
    return ';'.join('%d:%s' % (q, hexs(fn(q, ps))) for q in pages) or '-'


TARGET_NAMES = {0xFF: 'stm32', 0xFE: 'nrf51', 0: 'other'}


def run_real_flash(c):
    """c: case dict (see gen).  Returns (result string, link, twin)."""
    _quiet()
    from cflib.bootloader import Bootloader, FlashArtifact, Target as ATarget
    from cflib.bootloader.boottypes import Target as BTarget
    tid = c['key']
    twin = Twin(c['addr'] if 0 <= c['addr'] < 256 else -1, c['seed'], c['script'])
    link = FakeLink(twin, c['inbox'], c.get('link_mode', 'eager'))
    bl = Bootloader(None)
    bl._cload.link = link
    if c.get('via_info'):
        # geometry travels through the real getInfo handler (Cloader._update_info)
        import struct as _s
        link.inbox.append((0xFF, _s.pack('<BBHHHH', tid, 0x10, c['ps'], c['bp'], c['fp'], c['sp']) + bytes(12)))
        assert bl._cload._update_info(tid)
        link.sent.clear()
        link.timeouts.clear()
    else:
        t = BTarget(tid)
        t.addr = c['addr']
        t.page_size, t.buffer_pages, t.flash_pages, t.start_page = c['ps'], c['bp'], c['fp'], c['sp']
        bl._cload.targets[tid] = t
    calls = {'progress': 0, 'term': 0}
    if c['progress']:
        def prog(msg, pct):
            calls['progress'] += 1
        bl.progress_cb = prog
    if c['term'] is not None:
        vals = list(c['term'])

        def term():
            calls['term'] += 1
            return vals.pop(0) if vals else False
        bl.terminate_flashing_cb = term
    image = bytes(c['image']) if c['image_type'] == 'bytes' else (list(c['image']) if c['image_type'] == 'list' else bytearray(c['image']))
    art = FlashArtifact(image, ATarget('cf2', TARGET_NAMES[tid], 'fw', [], []), None)
    try:
        try:
            with contextlib.redirect_stdout(io.StringIO()):
                bl._internal_flash(art, 1, 1, c['override'])
        finally:
            link.finish()
        res = 'done'
    except Exception as e:
        if type(e) is Exception and e.args == ('Not enough space to flash the image file',):
            res = 'nospace'
        elif type(e) is Exception and e.args == ('Flashing terminated',):
            res = 'terminated'
        elif type(e) is Exception and e.args == ():
            res = 'failed:%d' % bl._cload.error_code
        else:
            res = 'err:' + exc_enum(e)
    return res, link, twin


def fmt_outcome(o):
    s = ('1' if o[0] else '0') + ('l' if o[2] else 'n')
    if o[1] is not None:
        s += ':%d:%s' % (o[1][0], hexs(o[1][1]))
    return s


def flash_line(c):
    return 'flash %d %d %d %d %d %s %s %s %s %d %s %s %s' % (
        c['addr'], c['ps'], c['bp'], c['fp'], c['sp'], '-' if c['override'] is None else str(c['override']),
        ''.join('1' if b else '0' for b in (c['term'] or [])) or '-', hexs(c['image']),
        ','.join(fmt_outcome(o) for o in c['script']) or '-', c['seed'],
        ','.join('%d:%s' % (h, hexs(d)) for h, d in c['inbox']) or '-',
        ','.join(map(str, c['fprobe'])) or '-', ','.join(map(str, c['bprobe'])) or '-')


def real_flash_reply(c):
    res, link, twin = run_real_flash(c)
    return '%s sent=%s flash=%s buf=%s left=%d inbox=%d late=%d' % (
        res, show_pkts(link.sent), show_pages(twin.flash_page, c['ps'], c['fprobe']), show_pages(twin.buf_page, c['ps'], c['bprobe']),
        len(twin.script), len(link.inbox), len(twin.late)), link, twin


def real_upload(tid, page, address, buff, mode='eager'):
    _quiet()
    from cflib.bootloader.cloader import Cloader
    twin = Twin(-1, 0, [])
    link = FakeLink(twin, (), mode)
    cl = Cloader(None)
    cl.link = link
    try:
        try:
            cl.upload_buffer(tid, page, address, buff)
        finally:
            link.finish()
        res = 'ok'
    except Exception as e:
        res = 'err:' + exc_enum(e)
    return '%s sent=%s' % (res, show_pkts(link.sent))


def real_wflash(addr, pb, tp, pc, script, inbox, mode='eager'):
    _quiet()
    from cflib.bootloader.cloader import Cloader
    twin = Twin(addr if 0 <= addr < 256 else -1, 0, script)
    link = FakeLink(twin, inbox, mode)
    cl = Cloader(None)
    cl.link = link
    try:
        try:
            r = cl.write_flash(addr, pb, tp, pc)
        finally:
            link.finish()
        res = '%s:%d' % ('true' if r else 'false', cl.error_code)
    except Exception as e:
        res = 'err:' + exc_enum(e)
    return '%s sent=%s left=%d inbox=%d late=%d' % (res, show_pkts(link.sent), len(twin.script), len(link.inbox), len(twin.late)), link


# ------------------------------------------------------------------------------------------------------
# case generation
# ------------------------------------------------------------------------------------------------------
def o_ok(tid, late=False):
    return (True, (0xFF, bytes([tid, 0x18, 1, 0])), late)


def o_neg(tid, code=3, late=False):
    return (True, (0xFF, bytes([tid, 0x18, 0, code])), late)


O_LOST = (False, None, False)
O_RLOST = (True, None, False)


def named_outcomes(tid):
    return [('lost', O_LOST), ('rlost', O_RLOST), ('ok', o_ok(tid)), ('oklate', o_ok(tid, True)),
            ('neg', o_neg(tid)), ('neglate', o_neg(tid, 7, True))]


def noise_pkt(rng, tid):
    """a packet that is NOT a positive flash-write reply of `tid` (received headers always have bits 2-3 set)"""
    k = rng.randrange(8)
    if k == 0:
        return (0xFF, bytes([tid, 0x14, 1, 0]))                    # other command byte
    if k == 1:
        return (0xFF, bytes([(tid + 1) & 0xFF, 0x18, 1, 0]))       # other target
    if k == 2:
        return (0xFD | 0x0C, bytes([tid, 0x18, 1, 0]))             # other port/channel
    if k == 3:
        return (0xFF, bytes([tid]))                                # too short to be a reply
    if k == 4:
        return (0xFF, b'')
    if k == 5:
        return (0xFF, bytes([tid, 0x18, 2, 9]))                    # status neither 0 nor 1
    if k == 6:
        return (0x0C | (rng.randrange(16) << 4) | rng.randrange(4), bytes(rng.randrange(256) for _ in range(rng.randrange(0, 8))))
    return (0xFF, bytes([tid, 0x10]) + bytes(rng.randrange(256) for _ in range(20)))   # an info reply


def rand_outcome(rng, tid, malformed=False):
    r = rng.random()
    if malformed and r < 0.25:
        # replies matching (tid, 0x18) but too short for data[3] / data[2]
        return (rng.random() < 0.5, (0xFF, bytes([tid, 0x18] + [1] * rng.randrange(0, 2))), rng.random() < 0.3)
    if malformed and r < 0.4:
        return (False, (0xFF, bytes([tid, 0x18, 1, 0])), rng.random() < 0.3)     # positive reply without execution (not Genuine)
    if r < 0.55:
        return rng.choice(named_outcomes(tid))[1]
    if r < 0.75:
        return o_ok(tid, rng.random() < 0.3)
    return (rng.random() < 0.6, noise_pkt(rng, tid), rng.random() < 0.4)


def rand_script(rng, tid, malformed=False):
    r = rng.random()
    if r < 0.35:
        return []
    if r < 0.5:      # one flush fails after all attempts
        pre = [o_ok(tid)] * rng.randrange(0, 3)
        return pre + [rng.choice([O_LOST, O_RLOST]) for _ in range(6)] + [o_ok(tid)] * 2
    n = rng.choice([1, 2, 3, 5, 6, 7, 9, 14])
    return [rand_outcome(rng, tid, malformed) for _ in range(n)]


def rand_inbox(rng, tid):
    r = rng.random()
    if r < 0.75:
        return []
    if r < 0.9:      # stale positive replies from "before"
        return [(0xFF, bytes([tid, 0x18, 1, 0]))] * rng.randrange(1, 4)
    return [noise_pkt(rng, tid) for _ in range(rng.randrange(1, 4))]


REAL_GEOMS = [(0xFF, 1024, 10, 1024, 16), (0xFE, 1024, 1, 232, 88), (0xFE, 1024, 1, 232, 108)]


def boundary_lengths(ps, bp, cap):
    s = {0, 1, 2, 24, 25, 26, 49, 50, 51, cap - 1, cap, cap + 1, cap + ps}
    for m in (ps, bp * ps, 2 * bp * ps, 3 * bp * ps, (bp + 1) * ps, (2 * bp + 1) * ps):
        s.update((m - 1, m, m + 1))
    return sorted(x for x in s if x >= 0)


def n_pages(ln, ps):
    return (ln - 1) // ps + 1 if ln >= 1 and ps > 0 else 0


def mk_case(rng, key, ps, bp, fp, sp, ln, script=None, **kw):
    c = {'key': key, 'addr': key, 'ps': ps, 'bp': bp, 'fp': fp, 'sp': sp, 'override': None, 'term': None, 'progress': rng.random() < 0.5,
         'image': bytes(rng.randrange(256) for _ in range(ln)), 'image_type': rng.choice(['bytes', 'bytes', 'list', 'bytearray']),
         'script': rand_script(rng, key) if script is None else script, 'seed': rng.randrange(1000), 'inbox': [], 'via_info': False}
    c.update(kw)
    c.setdefault('link_mode', 'deferred' if c['seed'] % 2 else 'eager')     # see FakeLink
    return c


def gen_flash_cases(ctx):
    rng = ctx.rng
    thorough = ctx.tier == 'thorough'
    cases = load_corpus()
    # (a) small adversarial geometries x every length up to more than two buffer-fulls, fault-free + random faults
    small = [(1, 1), (1, 3), (2, 2), (3, 1), (4, 3), (5, 2), (7, 4), (24, 2), (25, 1), (25, 3), (26, 2), (50, 2), (51, 1)]
    if thorough:
        small += [(ps, bp) for ps in (6, 8, 16, 49, 64, 75) for bp in (1, 2, 5)]
    for (ps, bp) in small:
        key = rng.choice([0xFF, 0xFE, 0])
        sp = rng.randrange(0, 4)
        top = (2 * bp + 1) * ps + 2
        lens = range(0, top + 1) if (ps * bp <= 30 or thorough) else boundary_lengths(ps, bp, top)
        for ln in lens:
            fp = sp + n_pages(ln, ps) + rng.choice([0, 0, 1, 5])
            cases.append(mk_case(rng, key, ps, bp, fp, sp, ln, script=[] if rng.random() < 0.5 else None))
    # (b) capacity boundary: image exactly fills / exceeds by one the space from the effective start page
    for _ in range(120 if thorough else 40):
        ps, bp = rng.choice([1, 2, 4, 7, 25, 26, 32]), rng.randrange(1, 6)
        fp, sp = rng.randrange(1, 12), rng.randrange(0, 12)
        ov = rng.choice([None, None, rng.randrange(-2, fp + 3)])
        s = sp if ov is None else ov
        cap = max((fp - s) * ps, 0)
        ln = max(0, cap + rng.choice([-1, 0, 0, 1, 1, ps]))
        cases.append(mk_case(rng, rng.choice([0xFF, 0xFE]), ps, bp, fp, sp, ln, override=ov))
    # (c) random geometry/length with faults, stale inbox, override, terminate callback, malformed replies
    for _ in range(1500 if thorough else 500):
        ps, bp = rng.choice([1, 2, 3, 4, 5, 8, 16, 24, 25, 26, 31, 50, 64]), rng.randrange(1, 6)
        sp = rng.randrange(0, 5)
        npg = rng.choice([1, 1, 2, bp, bp + 1, 2 * bp, 2 * bp + 1, 3 * bp])
        ln = max(1, npg * ps - rng.choice([0, 0, 1, ps - 1, rng.randrange(ps)]))
        fp = sp + n_pages(ln, ps) + rng.choice([0, 1, 3])
        key = rng.choice([0xFF, 0xFE, 0])
        kw = {}
        if rng.random() < 0.2:
            kw['override'] = rng.choice([sp, sp + 1, max(0, sp - 1), fp - n_pages(ln, ps), fp, -1])
        if rng.random() < 0.3:
            t = [False] * rng.randrange(0, npg + 2)
            if rng.random() < 0.6:
                t.append(True)
            kw['term'] = t
        kw['inbox'] = rand_inbox(rng, key)
        malformed = rng.random() < 0.15
        kw['script'] = rand_script(rng, key, malformed)
        if rng.random() < 0.04:
            kw['addr'] = rng.choice([256, -1, 1000])        # Target.addr outside a byte: struct.error
        cases.append(mk_case(rng, key, ps, bp, fp, sp, ln, **kw))
    # (d) degenerate geometry values the code can be handed
    for (ps, bp, fp, sp, ln) in [(0, 1, 4, 0, 3), (4, 0, 9, 1, 9), (4, 1, 0, 0, 1), (4, 2, 70000, 65534, 9), (4, 2, 70000, 65535, 9),
                                 (70000, 1, 3, 0, 5), (65535, 1, 3, 0, 30), (4, 65536, 9, 0, 5), (4, 70000, 9, 0, 5)]:
        cases.append(mk_case(rng, 0xFF, ps, bp, fp, sp, ln, script=[]))
    # (e) the real geometries (geometry through the real getInfo handler), lengths around page / buffer multiples
    for (key, ps, bp, fp, sp) in REAL_GEOMS:
        lens = [1, ps - 1, ps, ps + 1, 2 * ps + 1] + ([bp * ps, bp * ps + 1] if bp > 1 else [3 * ps])
        if thorough:
            lens += [2 * bp * ps - 1, 2 * bp * ps, 5 * ps + 7]
        for ln in lens:
            cases.append(mk_case(rng, key, ps, bp, fp, sp, ln, via_info=True, script=rand_script(rng, key) if rng.random() < 0.5 else []))
        cases.append(mk_case(rng, key, ps, bp, sp + 2, sp, 2 * ps + 1, via_info=True, script=[]))      # does not fit
    return cases


def eff_start(c):
    return c['sp'] if c['override'] is None else c['override']


def probes(c, twin):
    s, n = eff_start(c), n_pages(len(c['image']), c['ps'])
    lo, hi = max(0, s - 1), max(0, s) + min(n, 40) + 2
    fpr = set(range(lo, hi)) | set(twin.flashpg) | {0, c['fp'] - 1 if c['fp'] > 0 else 0, c['fp']}
    fpr = sorted(fpr)
    if c['ps'] >= 512:                       # keep the lines short for the real geometries
        fpr = sorted(set(twin.flashpg) | {max(0, s - 1), s + n})[:14]
    bpr = list(range(0, min(c['bp'], 5) + 1)) if c['ps'] < 512 else [0, min(c['bp'], 10)]
    return fpr, bpr


def real_flash_case(c):
    res, link, twin = run_real_flash(c)
    c['fprobe'], c['bprobe'] = probes(c, twin)
    reply = '%s sent=%s flash=%s buf=%s left=%d inbox=%d late=%d' % (
        res, show_pkts(link.sent), show_pages(twin.flash_page, c['ps'], c['fprobe']), show_pages(twin.buf_page, c['ps'], c['bprobe']),
        len(twin.script), len(link.inbox), len(twin.late))
    return reply, res, link, twin


def gen_upload_cases(ctx):
    rng = ctx.rng
    cases = []
    lens = list(range(0, 80)) + [99, 100, 101, 124, 125, 126, 1023, 1024, 1025]
    for ln in lens:
        tid = rng.choice([255, 254, 0, 255, 254, 17])
        page = rng.choice([0, 1, 2, 9, 255, 256, 65535])
        address = rng.choice([0, 0, 0, 1, 5, 1000])
        cases.append((tid, page, address, bytes(rng.randrange(256) for _ in range(ln))))
    for (tid, page, address, ln) in [(256, 0, 0, 5), (-1, 0, 0, 30), (255, 65536, 0, 30), (255, 0, 65536, 3), (255, 0, 65535, 0), (255, 0, 65535, 24),
                                     (255, 0, 65535, 25), (255, 0, 65510, 25), (255, 0, 65511, 25), (255, 0, 65500, 80), (255, 0, 65486, 50), (255, 0, 65485, 50)]:
        cases.append((tid, page, address, bytes(rng.randrange(256) for _ in range(ln))))
    return cases


def gen_wflash_cases(ctx):
    rng = ctx.rng
    thorough = ctx.tier == 'thorough'
    cases = []
    tid = 0xFF
    alpha = [o for _, o in named_outcomes(tid)] + [(True, (0xFF, bytes([tid, 0x14, 1, 0])), False), (False, (0xFC, bytes([tid, 0x18, 1, 0])), True)]
    # exhaustive: every script of length <= 3 over the alphabet, padded with losses (so the first three attempts decide)
    import itertools
    for k in range(0, 4):
        for pre in itertools.product(range(len(alpha)), repeat=k):
            pad = rng.choice([[], [O_LOST] * 6, [O_RLOST] * 6])
            cases.append((tid, 0, rng.randrange(0, 40), rng.randrange(1, 11), [alpha[i] for i in pre] + pad, []))
    cases.append((tid, 0, 7, 2, [O_LOST] * 40, []))
    # the sixth-attempt quirk and its neighbours
    for nlost in range(0, 8):
        for last in (o_ok(tid), o_ok(tid, True), o_neg(tid), None):
            cases.append((tid, 0, 5, 1, [rng.choice([O_LOST, O_RLOST]) for _ in range(nlost)] + ([last] if last else [O_LOST] * 3), []))
    for _ in range(1500 if thorough else 600):
        t = rng.choice([0xFF, 0xFE, 0])
        a = (rng.choice([t, t, t, t, 256, -1, 300]), rng.choice([0, 0, 0, 1, 65535, 65536, -1]), rng.choice([0, 5, 1023, 65535, 65536, -3]), rng.choice([1, 10, 0, 65535, 65536, -1]))
        cases.append((a[0], a[1], a[2], a[3], rand_script(rng, t, rng.random() < 0.3), rand_inbox(rng, t)))
    return cases


def correspond(ctx):
    lines, reals, meta = [], [], []
    for c in gen_flash_cases(ctx):
        real, res, link, twin = real_flash_case(c)
        lines.append(flash_line(c))
        reals.append(real)
        ln, ps, bp = len(c['image']), c['ps'], c['bp']
        nflush = len({(i, x) for i, x in enumerate(link.sent) if len(x[1]) > 1 and x[1][1] == 0x18})
        ctx.count('flash:result:' + res.split(':')[0] + (':' + res.split(':')[1] if res.startswith('err') else ''))
        ctx.count('flash:last-page:' + ('n/a' if ps == 0 or ln == 0 else 'full' if ln % ps == 0 else 'partial'))
        ctx.count('flash:buffers:' + ('n/a' if ps == 0 or bp == 0 or ln == 0 else 'exact-multiple' if n_pages(ln, ps) % bp == 0 else 'final-partial-flush'))
        ctx.count('flash:write-cmds:' + ('0' if nflush == 0 else '1' if nflush == 1 else '2-6' if nflush <= 6 else '7+'))
        ctx.count('flash:override:' + ('none' if c['override'] is None else 'set'))
        ctx.count('flash:terminate_cb:' + ('unset' if c['term'] is None else 'set'))
        ctx.count('flash:progress_cb:' + ('set' if c['progress'] else 'unset'))
        ctx.count('flash:geometry:' + ('real' if c['via_info'] else 'small'))
        ctx.count('flash:link:' + c.get('link_mode', 'eager'))
        ctx.count('flash:stale-inbox:' + ('yes' if c['inbox'] else 'no'))
        ctx.count('flash:timeouts:' + ','.join(sorted({str(t) for t in link.timeouts})) if link.timeouts else 'flash:timeouts:none')
        meta.append(('flash', {'op': 'flash', 'geom': [c['key'], ps, bp, c['fp'], c['sp']], 'override': c['override'], 'len': ln, 'script': [fmt_outcome(o) for o in c['script']][:12],
                               'inbox': len(c['inbox']), 'term': c['term'], 'result': res},
                     ('flash', c['key'], c['addr'], ps, bp, c['fp'], c['sp'], c['override'], ln, tuple(fmt_outcome(o) for o in c['script']), len(c['inbox']), tuple(c['term'] or ()))))
    for (tid, page, address, buff) in gen_upload_cases(ctx):
        for mode in ('eager', 'deferred'):       # the same bytes must go on the air whether or not the link serialises at once
            lines.append('%s %d %d %d %s' % ('upload' if mode == 'eager' else 'uploadobj', tid, page, address, hexs(buff)))
            r = real_upload(tid, page, address, buff, mode)
            reals.append(r)
            ctx.count('upload:result:' + r.split(' ')[0])
            ctx.count('upload:link:' + mode)
            ctx.count('upload:len%25:' + ('0' if len(buff) % 25 == 0 else 'other'))
            meta.append(('upload', {'op': 'upload', 'tid': tid, 'page': page, 'address': address, 'len': len(buff), 'link': mode}, ('upload', tid, page, address, len(buff), mode)))
    for (addr, pb, tp, pc, script, inbox) in gen_wflash_cases(ctx):
        lines.append('wflash %d %d %d %d %s %s' % (addr, pb, tp, pc, ','.join(fmt_outcome(o) for o in script) or '-',
                                                   ','.join('%d:%s' % (h, hexs(d)) for h, d in inbox) or '-'))
        wmode = 'deferred' if len(lines) % 2 else 'eager'
        r, link = real_wflash(addr, pb, tp, pc, script, inbox, wmode)
        ctx.count('wflash:link:' + wmode)
        reals.append(r)
        ctx.count('wflash:result:' + r.split(' ')[0].split(':')[0] + (':' + r.split(' ')[0].split(':')[1] if r.startswith('err') else ''))
        ctx.count('wflash:attempts:%d' % len(link.sent))
        meta.append(('wflash', {'op': 'wflash', 'args': [addr, pb, tp, pc], 'script': [fmt_outcome(o) for o in script][:10], 'inbox': len(inbox)},
                     ('wflash', addr, pb, tp, pc, tuple(fmt_outcome(o) for o in script), len(inbox))))
    replies = ctx.lean(DRIVER, lines)
    for line, real, model, (kind, desc, key) in zip(lines, reals, replies, meta):
        ctx.case(desc, key)
        if real != model:
            ctx.disagree(kind, line[:600], model[:600], real[:600])
    correspond_histories(ctx)


# ------------------------------------------------------------------------------------------------------
# failing-input search: the property itself (Python twin of the Lean spec) on the real code's observable behaviour
# ------------------------------------------------------------------------------------------------------
def positive(tid, pkt):
    h, d = pkt
    return h == 0xFF and len(d) >= 3 and d[0] == tid and d[1] == 0x18 and d[2] == 1


def genuine(tid, script):
    return all(o[0] or o[1] is None or not positive(tid, o[1]) for o in script)


def in_scope(c):
    """the hypotheses of the property: geometry as a bootloader reports it, image >= 1 byte, genuine replies"""
    return (0 < c['ps'] < 65536 and 0 < c['bp'] < 65536 and 0 <= c['fp'] < 65536 and 0 <= c['sp'] < 65536 and c['addr'] == c['key']
            and len(c['image']) >= 1 and (c['override'] is None or c['override'] >= 0) and genuine(c['key'], c['script']))


MAX_ATTEMPTS = 16     # "bounded": the Lean theorem pins the exact bound (retryInit + 1 = 6) through Gen


def property_failures(c, res, link, twin):
    """returns [(key, what, detail)] - violations of C12 on this run of the real code"""
    out = []
    tid, ps, bp, fp = c['key'], c['ps'], c['bp'], c['fp']
    img = bytes(c['image'])
    S = eff_start(c)
    n = n_pages(len(img), ps)
    if len(img) > (fp - S) * ps:
        if res != 'nospace' or link.sent:
            out.append(('too-big-not-refused', 'an image that does not fit from the effective start page was not refused before transmitting', 'result=%s packets=%d' % (res, len(link.sent))))
        return out
    # (1) every command within buffers and within [S, S+n) (itself within the flash); pages outside untouched
    uploads, cur = [], None
    groups = []          # maximal runs of identical flash-write packets: [packet, first index, count]
    for idx, (h, d) in enumerate(link.sent):
        cmd = twin.decode(h, d)
        if cmd is None:
            out.append(('undecodable-packet', 'a transmitted packet is not a command of the target', '%d:%s' % (h, d.hex())))
            continue
        if cmd[0] == 'load':
            _, page, addr, data = cmd
            if len(d) > 31:
                out.append(('packet-too-long', 'buffer-upload message longer than 31 bytes after the header', '%d bytes' % len(d)))
            if not (page < bp and addr + len(data) <= ps):
                out.append(('load-out-of-bounds', 'load-buffer command outside the page buffers', 'page=%d addr=%d len=%d' % (page, addr, len(data))))
            if addr == 0 and (cur is None or cur['writes']):
                cur = {'page': page, 'writes': []}
                uploads.append(cur)
            if cur is None or cur['page'] != page:
                cur = {'page': page, 'writes': []}
                uploads.append(cur)
            cur['writes'] += [(addr + j, b) for j, b in enumerate(data)]
        else:
            _, b0, f0, cnt = cmd
            cur = None
            if not (b0 + cnt <= bp and S <= f0 and f0 + cnt <= S + n and S + n <= fp):
                out.append(('write-out-of-bounds', 'flash-write command outside the image range / flash / buffers', 'buf=%d flash=%d count=%d range=[%d,%d) flash_pages=%d' % (b0, f0, cnt, S, S + n, fp)))
            if groups and groups[-1][0] == (h, d) and groups[-1][1] + groups[-1][2] == idx:
                groups[-1][2] += 1
            else:
                groups.append([(h, d), idx, 1])
    for q in twin.flashpg:
        if not (S <= q < S + n and q < fp):
            out.append(('page-outside-range', 'a flash page outside the range the image occupies was written', 'page=%d range=[%d,%d)' % (q, S, S + n)))
    # (2) buffer uploads cover every byte of every page exactly once at its offset
    for i, u in enumerate(uploads):
        chunk = img[i * ps:(i + 1) * ps]
        if u['page'] != i % bp or sorted(u['writes']) != [(o, chunk[o]) for o in range(len(chunk))]:
            out.append(('upload-coverage', 'buffer upload does not cover each byte of the page exactly once at its offset', 'page index %d buffer %d' % (i, u['page'])))
            break
    # (3) success means the image is in flash
    if res == 'done':
        bad = [k for k in range(len(img)) if twin.flash(S + k // ps, k % ps) != img[k]]
        if bad:
            out.append(('flash-not-image', 'flashing reported success but flash does not hold the image', 'first bad byte %d of %d' % (bad[0], len(img))))
    # (4) retries bounded; a flush that was never positively answered ends the run with an error, nothing follows
    used = 0
    for gi, (pkt, first, count) in enumerate(groups):
        outs = [(c['script'][j] if j < len(c['script']) else o_ok(tid)) for j in range(used, used + count)]
        used += count
        if count > MAX_ATTEMPTS:
            out.append(('retries-unbounded', 'a flash-write command was transmitted more than %d times' % MAX_ATTEMPTS, 'count=%d' % count))
        acked = any(o[1] is not None and positive(tid, o[1]) for o in outs)
        last = first + count == len(link.sent)
        if not acked and (not last or res == 'done'):
            out.append(('continued-after-failed-flush', 'a flash-write command that was never positively answered did not abort the flashing',
                        'flush #%d attempts=%d result=%s packets after=%d' % (gi, count, res, len(link.sent) - first - count)))
    return out


def search_cases(ctx):
    rng = ctx.rng
    cases = []
    tid = 0xFF
    # the scenarios the clauses are about, on a small geometry: stale positive reply + lost command, failures at each flush,
    # late replies crossing into the next flush, exact multiples, override at the capacity boundary
    for ps, bp, npg in [(4, 3, 7), (25, 2, 4), (5, 1, 3)]:
        for ln in sorted({npg * ps, npg * ps - 1, (npg - 1) * ps + 1}):
            for script, inbox in [([], []),
                                  ([O_LOST] * 6, [(0xFF, bytes([tid, 0x18, 1, 0]))]),
                                  ([O_LOST] * 5 + [o_ok(tid)], []),
                                  ([O_LOST] * 40, []),
                                  ([o_ok(tid, True), O_LOST] + [O_LOST] * 6, []),
                                  ([O_LOST, o_ok(tid, True), o_ok(tid), O_LOST, O_LOST, O_LOST, O_LOST, O_LOST, O_LOST], []),
                                  ([o_ok(tid)] + [O_RLOST] * 6, []),
                                  ([o_ok(tid), o_neg(tid)], []),
                                  ([(True, (0xFF, bytes([tid, 0x14, 1, 0])), False)] * 7, [])]:
                cases.append(mk_case(rng, tid, ps, bp, 3 + npg + 1, 3, ln, script=list(script), inbox=list(inbox)))
    cases += gen_flash_cases(ctx)
    return cases


def load_corpus():
    d = os.path.join(VERIF, 'harness', 'corpus', 'c12')
    res = []
    if os.path.isdir(d):
        for f in sorted(os.listdir(d)):
            if f.endswith('.json'):
                j = json.load(open(os.path.join(d, f)))
                for c in j.get('cases', []):
                    c = dict(c)
                    c['image'] = bytes.fromhex(c['image'])
                    c['script'] = [(o[0], None if o[1] is None else (o[1][0], bytes.fromhex(o[1][1])), o[2]) for o in c['script']]
                    c['inbox'] = [(h, bytes.fromhex(x)) for h, x in c['inbox']]
                    c.setdefault('link_mode', 'deferred')
                    res.append(c)
    return res


def search(ctx):
    seen = set()
    for c in search_cases(ctx):
        if not in_scope(c):
            ctx.count('search:out-of-scope')
            continue
        res, link, twin = run_real_flash(c)
        ctx.count('search:evaluated')
        for key, what, detail in property_failures(c, res, link, twin):
            if key in seen:
                ctx.count('witnesses-suppressed')
                continue
            seen.add(key)
            ctx.witness(key, what, {'geom': {'target': c['key'], 'page_size': c['ps'], 'buffer_pages': c['bp'], 'flash_pages': c['fp'], 'start_page': c['sp']},
                                    'page_override': c['override'], 'image': bytes(c['image']).hex(), 'script': [fmt_outcome(o) for o in c['script']],
                                    'inbox': ['%d:%s' % (h, d.hex()) for h, d in c['inbox']], 'terminate_cb': c['term'], 'progress_cb': c['progress'],
                                    'link': c.get('link_mode', 'eager') + ' serialisation'},
                        detail=detail, result=res)
    search_histories(ctx, seen)


# ------------------------------------------------------------------------------------------------------
# histories: several loader objects / connections / copters (geometry cache of the Cloader object)
# ------------------------------------------------------------------------------------------------------
class CopterTwin:
    """Python twin of Spec `Copter` / `copterPeer`: targets {tid: geometry + Twin memory}, get-info script."""

    def __init__(self, ci, seed, proto, info_script, targets):
        self.ci = ci
        self.proto = proto
        self.info_script = list(info_script)
        self.late = []
        self.geom = {}
        self.mem = {}
        self.order = []
        for (tid, ps, bp, fp, sp) in targets:
            if tid in self.geom:
                continue
            self.order.append(tid)
            self.geom[tid] = (ps, bp, fp, sp)
            self.mem[tid] = Twin(tid, seed + tid + 17 * ci, [])
        self.holder = None

    def info_pkt(self, tid):
        import struct as _s
        ps, bp, fp, sp = self.geom[tid]
        return (0xFF, _s.pack('<BBHHHH', tid, 0x10, ps, bp, fp, sp) + bytes(range(12)) + (bytes([self.proto]) if self.proto is not None else b''))

    def on_send(self, hdr, d):
        if hdr != 0xFF or len(d) < 2 or d[0] not in self.geom:
            return []
        tid = d[0]
        if d[1] == 0x10:
            if not self.info_script:
                return [self.info_pkt(tid)]
            o = self.info_script.pop(0)
            if o[1] is None:
                return []
            if o[2]:
                self.late.append(o[1])
                return []
            return [o[1]]
        return self.mem[tid].on_send(hdr, d)

    def on_wait_done(self):
        r, self.late = self.late, []
        return r


class VClock:
    """virtual time for the bootloader modules only (module-scoped stand-in for `time`)"""

    def __init__(self):
        self.now = 1000.0

    def time(self):
        return self.now

    def sleep(self, s):
        self.now += s


class Air:
    def __init__(self, copters, clock):
        self.copters = copters
        self.current = None        # the copter a new link connects to
        self.clock = clock
        self.links = []
        self.mode = 'eager'

    def finish(self):
        for ln in self.links:
            ln.finish()


def make_driver_class(air):
    class FakeDriver:
        """a CRTP link driver (the boundary object cflib.crtp.get_link_driver instantiates)"""

        def __init__(self):
            self.copter = None
            self.inbox = []
            self.sent = []
            self.uri = ''
            self.closed = False

        def connect(self, uri, link_quality_callback=None, link_error_callback=None):
            self.uri = uri.split('?')[0]
            self.copter = air.copters[air.current] if air.current is not None else None
            if self.copter is not None and not uri.startswith('radio://0/80/'):
                self.copter.late = []
            air.links.append(self)

        def _air(self, pk):
            d = bytes(pk.data)
            self.sent.append((pk.header, d))
            if self.copter is not None:
                self.inbox.extend(self.copter.on_send(pk.header, d))

        def finish(self):
            if getattr(self, 'slot', None) is not None:
                pk, self.slot = self.slot, None
                self._air(pk)

        def send_packet(self, pk):
            if air.mode == 'eager':
                self._air(pk)
            else:                      # one-slot out-queue holding the packet object (see FakeLink)
                self.finish()
                self.slot = pk

        def receive_packet(self, wait=0):
            from cflib.crtp.crtpstack import CRTPPacket
            self.finish()
            r = self.inbox.pop(0) if self.inbox else None
            if wait != 0 and self.copter is not None:
                self.inbox.extend(self.copter.on_wait_done())
            if r is None:
                if wait > 0:
                    air.clock.sleep(wait)
                return None
            return CRTPPacket(r[0], bytearray(r[1]))

        def scan_selected(self, uris):
            return [uris[-1]] if self.copter is not None else []

        def close(self):
            self.finish()
            self.closed = True
    return FakeDriver


class fake_radio:
    """context: cflib.crtp hands out FakeDriver links to the current copter; bootloader modules see virtual time"""

    def __init__(self, air):
        self.air = air

    def __enter__(self):
        import cflib.crtp
        import cflib.bootloader as bmod
        import cflib.bootloader.cloader as cmod
        self.mods = (cflib.crtp, bmod, cmod)
        self.saved = (cflib.crtp.CLASSES, bmod.time, cmod.time)
        cflib.crtp.CLASSES = [make_driver_class(self.air)]
        bmod.time = self.air.clock
        cmod.time = self.air.clock
        return self

    def __exit__(self, *a):
        crtp, bmod, cmod = self.mods
        crtp.CLASSES, bmod.time, cmod.time = self.saved


def run_real_history(h):
    """h: {'seed', 'copters': [{'proto', 'info': [...], 'targets': [(tid, ps, bp, fp, sp)]}], 'ops': [...]}
    ops (direct Cloader API):  ('new',) ('open', k, c) ('close', k) ('update', k, tid) ('request', k, tid) ('check', k)
                               ('flash', k, key, image, override)
    ops (public Bootloader API): ('bl_new',) ('bl_start', k, c) ('bl_flash', k, image) ('bl_close', k)
    Returns per-op [(result string, packets)], the copter twins, and for each flash the copter it went to."""
    _quiet()
    import tempfile
    from cflib.bootloader import Bootloader, FlashArtifact, Target as ATarget
    from cflib.bootloader.cloader import Cloader
    clock = VClock()
    copters = [CopterTwin(i, h['seed'], c['proto'], c['info'], c['targets']) for i, c in enumerate(h['copters'])]
    air = Air(copters, clock)
    air.mode = 'deferred' if h['seed'] % 2 else 'eager'
    loaders = []       # ('cl', Cloader) | ('bl', Bootloader)
    conn = []
    out = []
    flashes = []

    def cl_of(k):
        kind, o = loaders[k]
        return o if kind == 'cl' else o._cload

    def sent_now(k):
        ln = cl_of(k).link
        return list(ln.sent) if ln is not None and hasattr(ln, 'sent') else []

    with fake_radio(air), contextlib.redirect_stdout(io.StringIO()):
        for op in h['ops']:
            k = op[1] if len(op) > 1 else None
            before = [] if op[0] in ('new', 'bl_new', 'open') else sent_now(k)
            link_before = None if k is None or op[0] in ('new', 'bl_new') else cl_of(k).link
            try:
                if op[0] == 'new':
                    loaders.append(('cl', Cloader(None)))
                    conn.append(None)
                    res = 'ok'
                elif op[0] == 'bl_new':
                    loaders.append(('bl', Bootloader(None)))
                    conn.append(None)
                    res = 'ok'
                elif op[0] == 'open':
                    air.current = op[2]
                    cl_of(k).open_bootloader_uri('radio://0/0/2M/E7E7E7E7E7')
                    conn[k] = op[2]
                    res = 'ok'
                elif op[0] == 'close':
                    c = cl_of(k)
                    c.close()
                    c.link = None
                    conn[k] = None
                    res = 'ok'
                elif op[0] == 'update':
                    res = 'true' if cl_of(k)._update_info(op[2]) else 'false'
                elif op[0] == 'request':
                    t = cl_of(k).request_info_update(op[2])
                    res = 'geom:%d,%d,%d,%d,%d' % (t.addr, t.page_size, t.buffer_pages, t.flash_pages, t.start_page)
                elif op[0] == 'check':
                    res = 'true' if cl_of(k).check_link_and_get_info() else 'false'
                elif op[0] == 'flash':
                    kind, o = loaders[k]
                    bl = o if kind == 'bl' else None
                    if bl is None:
                        bl = Bootloader(None)
                        bl._cload = o
                    flashes.append({'op': len(out), 'loader': k, 'copter': conn[k], 'key': op[2], 'image': bytes(op[3]), 'override': op[4]})
                    res = flash_result(bl, lambda: bl._internal_flash(FlashArtifact(bytes(op[3]), ATarget('cf2', TARGET_NAMES[op[2]], 'fw', [], []), None), 1, 1, op[4]))
                elif op[0] == 'bl_start':
                    air.current = op[2]
                    had_link = bool(cl_of(k).link)
                    ok = loaders[k][1].start_bootloader(warm_boot=False)
                    if not had_link:
                        conn[k] = op[2]
                    res = 'true' if ok else 'false'
                elif op[0] == 'bl_flash':
                    bl = loaders[k][1]
                    fd, path = tempfile.mkstemp(suffix='.bin')
                    os.write(fd, bytes(op[2]))
                    os.close(fd)
                    flashes.append({'op': len(out), 'loader': k, 'copter': conn[k], 'key': 0xFE, 'image': bytes(op[2]), 'override': None})
                    try:
                        res = flash_result(bl, lambda: bl.flash(path, [ATarget('cf2', 'nrf51', 'fw', [], [])]))
                    finally:
                        os.unlink(path)
                elif op[0] == 'bl_close':
                    loaders[k][1].close()
                    conn[k] = None
                    res = 'ok'
                else:
                    raise AssertionError(op)
            except Exception as e:
                res = 'err:' + exc_enum(e)
            air.finish()          # the call is over: whatever still sits in a link's out-queue goes on the air now
            if k is None or op[0] in ('open', 'close', 'bl_close'):
                pk = []
            else:
                ln = cl_of(k).link
                if ln is link_before:
                    pk = sent_now(k)[len(before):]
                else:           # the operation replaced the link (bl_start): packets of the old link's tail + the new link
                    pk = (list(link_before.sent)[len(before):] if link_before is not None and hasattr(link_before, 'sent') else []) + sent_now(k)
            out.append((res, pk))
    return out, copters, flashes


def flash_result(bl, thunk):
    try:
        thunk()
        return 'done'
    except Exception as e:
        if type(e) is Exception and e.args == ('Not enough space to flash the image file',):
            return 'nospace'
        if type(e) is Exception and e.args == ('Flashing terminated',):
            return 'terminated'
        if type(e) is Exception and e.args == ():
            return 'failed:%d' % bl._cload.error_code
        if type(e) is Exception and e.args and 'soft device' in str(e.args[0]):
            return 'err:unknown-softdevice'
        return 'err:' + exc_enum(e)


def lean_ops(h):
    """the history in the Lean driver's primitive operations (public Bootloader calls are expanded as the code does them:
    start_bootloader(cold) with no link = open link, check_link_and_get_info(), then request_info_update(NRF51) if CF2;
    flash(.bin for nrf51 fw) = _get_current_nrf51_sd_version (needs the cached nRF51 entry, start page 88/108) + _internal_flash)"""
    ops = []
    expand = []          # index of the primitive op whose result/packets represent each original op (list of indices)
    linked = {}
    nload = 0
    for op in h['ops']:
        if op[0] in ('new', 'bl_new'):
            ops.append('n')
            expand.append([len(ops) - 1])
            linked[nload] = False
            nload += 1
        elif op[0] == 'open':
            ops.append('o%d:%d' % (op[1], op[2]))
            linked[op[1]] = True
            expand.append([len(ops) - 1])
        elif op[0] in ('close', 'bl_close'):
            ops.append('x%d' % op[1])
            linked[op[1]] = False
            expand.append([len(ops) - 1])
        elif op[0] == 'update':
            ops.append('u%d:%d' % (op[1], op[2]))
            expand.append([len(ops) - 1])
        elif op[0] == 'request':
            ops.append('r%d:%d' % (op[1], op[2]))
            expand.append([len(ops) - 1])
        elif op[0] == 'check':
            ops.append('c%d' % op[1])
            expand.append([len(ops) - 1])
        elif op[0] == 'flash':
            ops.append('f%d:%d:%s:%s' % (op[1], op[2], hexs(op[3]), '-' if op[4] is None else str(op[4])))
            expand.append([len(ops) - 1])
        elif op[0] == 'bl_start':
            idx = []
            if not linked.get(op[1]):
                ops.append('o%d:%d' % (op[1], op[2]))
                ops.append('c%d' % op[1])
                idx += [len(ops) - 2, len(ops) - 1]
                linked[op[1]] = True
            ops.append('r%d:254' % op[1])
            idx.append(len(ops) - 1)
            expand.append(idx)
        elif op[0] == 'bl_flash':
            ops.append('f%d:254:%s:-' % (op[1], hexs(op[2])))
            expand.append([len(ops) - 1])
    return ops, expand


def hist_line(h, probes):
    cop = ';'.join('%s/%s/%s' % ('-' if c['proto'] is None else str(c['proto']), ','.join(fmt_outcome(o) for o in c['info']) or '-',
                                 ','.join('%d:%d:%d:%d:%d' % t for t in c['targets'])) for c in h['copters'])
    ops, expand = lean_ops(h)
    return 'hist %d %d %s %s %s' % (h.get('fuel', 200), h['seed'], cop, ';'.join(ops) or '-', ','.join('%d:%d:%d' % p for p in probes) or '-'), expand


def hist_probes(h, copters, flashes):
    pr = set()
    for ci, c in enumerate(copters):
        for tid in c.order:
            ps, bp, fp, sp = c.geom[tid]
            if ps > 64:
                pr.update((ci, tid, q) for q in list(c.mem[tid].flashpg)[:6])
                pr.add((ci, tid, sp))
            else:
                pr.update((ci, tid, q) for q in c.mem[tid].flashpg)
                pr.update((ci, tid, q) for q in (sp, sp + 1, max(0, sp - 1), fp))
    return sorted(pr)


def real_hist_reply(h, public):
    out, copters, flashes = run_real_history(h)
    probes = hist_probes(h, copters, flashes)
    line, expand = hist_line(h, probes)
    # canonical reply in the Lean driver's format
    parts = []
    for (res, pk), idx, op in zip(out, expand, h['ops']):
        if op[0] == 'bl_start':
            # the public call's packets are those of its primitive operations; its result is compared as a whole
            parts.append(('bl_start', res, pk))
        else:
            parts.append((op[0], res, pk))
    fl = ';'.join('%d:%d:%d:%s' % (ci, tid, q, hexs(copters[ci].mem[tid].flash_page(q, copters[ci].geom[tid][0]))) for (ci, tid, q) in probes) or '-'
    return line, expand, parts, fl, copters, flashes


def compare_hist(model_reply, expand, parts, fl):
    """model reply vs real: per original op the concatenated packets of its primitive ops and the (last) result"""
    try:
        body, mfl = model_reply.rsplit(' flash=', 1)
        prim = [x.split('@', 1) for x in body.split('|')] if body else []
    except ValueError:
        return 'unparsable model reply'
    if mfl != fl:
        return 'flash probes differ'
    for (kind, res, pk), idx in zip(parts, expand):
        mres = prim[idx[-1]][0]
        mpk = ';'.join(p[1] for p in (prim[i] for i in idx) if p[1] != '-') or '-'
        if kind == 'bl_start':
            # start_bootloader returns True iff check_link_and_get_info succeeded (no link before) / True (link existed); then caches nRF51
            prim_res = [prim[i][0] for i in idx]
            ok = (len(idx) == 1) or prim_res[1] == 'true'
            want = 'true' if ok else 'false'
            if prim_res[-1].startswith('err:') and ok:
                want = prim_res[-1]
            if res != want:
                return 'bl_start result %s vs model %s' % (res, prim_res)
        elif kind == 'bl_flash':
            if mres == 'err:key_error' and res == 'err:key_error':
                pass
            elif res == 'err:unknown-softdevice':
                continue        # raised by the orchestration before _internal_flash: nothing to compare
            elif res != mres:
                return 'bl_flash result %s vs model %s' % (res, mres)
        elif res != mres:
            return '%s result %s vs model %s' % (kind, res, mres)
        if show_pkts(pk) != mpk and not (kind == 'bl_flash' and res == 'err:unknown-softdevice'):
            return '%s packets differ: real %s model %s' % (kind, show_pkts(pk)[:200], mpk[:200])
    return None


def small_copter(rng, nrf_sp=None, public=False):
    ps = rng.choice([4, 8, 16, 25, 32]) if not public else rng.choice([16, 32])
    stm = (0xFF, ps, rng.randrange(1, 4), rng.randrange(150, 400) if public else rng.randrange(12, 60), rng.randrange(1, 8))
    nsp = nrf_sp if nrf_sp is not None else rng.randrange(2, 20)
    nrf = (0xFE, ps if rng.random() < 0.7 else rng.choice([4, 8, 16]), 1 if rng.random() < 0.7 else 2, nsp + rng.randrange(4, 30) if not public else rng.choice([200, 232]), nsp)
    return {'proto': 0x10 if (public or rng.random() < 0.8) else rng.choice([None, 0x10, 1]), 'info': [], 'targets': [stm, nrf]}


def info_outcome(rng, cop, tid):
    """what can happen to a get-info transmission: lost, the genuine reply now/late, unrelated packets, a truncated reply"""
    import struct as _s
    t = [x for x in cop['targets'] if x[0] == tid][0]
    gen = (0xFF, _s.pack('<BBHHHH', tid, 0x10, t[1], t[2], t[3], t[4]) + bytes(range(12)) + (bytes([cop['proto']]) if cop['proto'] is not None else b''))
    r = rng.random()
    if r < 0.3:
        return (False, None, False)
    if r < 0.55:
        return (True, gen, rng.random() < 0.5)
    if r < 0.7:
        return (True, (0xFF, bytes([tid, 0x18, 1, 0])), rng.random() < 0.5)          # a stray flash-write reply
    if r < 0.8:
        return (True, (0x0C | (rng.randrange(15) << 4), bytes([tid, 0x10]) + bytes(20)), False)   # other port
    if r < 0.9:
        return (True, (0xFF, gen[1][:rng.choice([1, 5, 9, 15, 21])]), False)          # truncated: struct.error
    return (True, (0xFF, bytes([7, 0x10]) + gen[1][2:]), False)                       # an id that is no target of this copter


def gen_histories(ctx):
    rng = ctx.rng
    thorough = ctx.tier == 'thorough'
    hs = []

    def img(n):
        return bytes(rng.randrange(256) for _ in range(n))
    # (a) several loader objects, one per connection, copters with different geometry (direct Cloader API)
    for _ in range(60 if thorough else 14):
        cops = [small_copter(rng) for _ in range(rng.choice([2, 2, 3]))]
        ops, nl = [], 0
        order = list(range(len(cops)))
        rng.shuffle(order)
        overlap = rng.random() < 0.4
        opened = []
        for c in order + ([rng.choice(order)] if rng.random() < 0.5 else []):
            if any(oc == c for _, oc in opened):
                continue
            ops.append(('new',))
            k = nl
            nl += 1
            ops += [('open', k, c), ('check', k)]
            key = rng.choice([0xFE, 0xFE, 0xFF])
            if key == 0xFE:
                ops.append(('request', k, 0xFE) if rng.random() < 0.8 else ('update', k, 0xFE))
            t = [x for x in cops[c]['targets'] if x[0] == key][0]
            ln = rng.choice([1, t[1], t[1] + 1, 2 * t[1] * t[2] + 1, 3 * t[1]])
            ops.append(('flash', k, key, img(ln), None))
            if overlap:
                opened.append((k, c))
            else:
                ops.append(('close', k))
        hs.append(('multi-loader', {'seed': rng.randrange(500), 'copters': cops, 'ops': ops}))
    # (b) the public path: Bootloader().start_bootloader(cold) + flash(.bin -> nrf51) + close, one object per copter,
    #     nRF51 with the s110 / s130 layouts (start page 88 / 108)
    for _ in range(20 if thorough else 5):
        cops = [small_copter(rng, nrf_sp=sp, public=True) for sp in rng.choice([(88, 108), (108, 88), (88, 108, 88), (108, 108, 88)])]
        ops = []
        for k, c in enumerate(range(len(cops))):
            t = cops[c]['targets'][1]
            ops += [('bl_new',), ('bl_start', k, c), ('bl_flash', k, img(rng.choice([1, t[1] + 3, 4 * t[1]]))), ('bl_close', k)]
        hs.append(('public-api', {'seed': rng.randrange(500), 'copters': cops, 'ops': ops}))
    # (c) one loader object, several connections: the reconnect re-reads what it asks for (update / check) and keeps the rest
    for _ in range(40 if thorough else 10):
        cops = [small_copter(rng) for _ in range(2)]
        refresh = rng.choice(['update', 'request', 'none'])
        key = rng.choice([0xFE, 0xFF])
        t1 = [x for x in cops[1]['targets'] if x[0] == key][0]
        ops = [('new',), ('open', 0, 0), ('check', 0), ('request', 0, 0xFE), ('close', 0) if rng.random() < 0.5 else ('check', 0),
               ('open', 0, 1), ('check', 0)]
        if refresh != 'none':
            ops.append((refresh, 0, 0xFE))
        ops.append(('flash', 0, key, img(rng.choice([1, t1[1] + 1, 2 * t1[1]])), None))
        hs.append(('reconnect-same-loader', {'seed': rng.randrange(500), 'copters': cops, 'ops': ops}))
    # (d) faults on the get-info exchange (lost, late, unrelated, truncated replies, timeouts) and cache misses
    for _ in range(80 if thorough else 20):
        cops = [small_copter(rng) for _ in range(2)]
        for c in cops:
            c['info'] = [info_outcome(rng, c, rng.choice([0xFF, 0xFE])) for _ in range(rng.choice([0, 1, 2, 3, 6, 8]))]
        ops = [('new',), ('flash', 0, 0xFE, img(3), None), ('update', 0, 0xFE), ('open', 0, 0)]
        for _ in range(rng.randrange(1, 5)):
            ops.append(rng.choice([('update', 0, 0xFE), ('update', 0, 0xFF), ('check', 0), ('request', 0, 0xFE), ('request', 0, 0xFF), ('request', 0, 7)]))
        ops.append(('flash', 0, rng.choice([0xFE, 0xFF]), img(rng.choice([1, 9, 40])), None))
        ops += [('new',), ('open', 1, 1), ('request', 1, 0xFE), ('flash', 1, 0xFE, img(5), None)]
        hs.append(('info-faults', {'seed': rng.randrange(500), 'copters': cops, 'ops': ops}))
    return hs


def ghost_reads(h, out):
    """for every flash op: the copter the loader's cache entry for the flashed target was read from, assuming each
    loader object has its OWN cache (which is what the property needs) - vs the copter it is connected to"""
    conn, cached, info = [], [], {}
    for i, (op, (res, pk)) in enumerate(zip(h['ops'], out)):
        if op[0] in ('new', 'bl_new'):
            conn.append(None)
            cached.append({})
        elif op[0] == 'open':
            conn[op[1]] = op[2]
        elif op[0] in ('close', 'bl_close'):
            conn[op[1]] = None
        elif op[0] == 'update' and res == 'true':
            cached[op[1]][op[2]] = conn[op[1]]
        elif op[0] == 'check' and res == 'true':
            cached[op[1]][0xFF] = conn[op[1]]
        elif op[0] == 'request' and res.startswith('geom:'):
            cached[op[1]].setdefault(op[2], conn[op[1]])
        elif op[0] == 'bl_start' and res == 'true':
            if conn[op[1]] is None:
                conn[op[1]] = op[2]
                cached[op[1]][0xFF] = op[2]
            cached[op[1]].setdefault(0xFE, conn[op[1]])
        elif op[0] in ('flash', 'bl_flash'):
            key = op[2] if op[0] == 'flash' else 0xFE
            info[i] = (conn[op[1]], cached[op[1]].get(key))
    return info


def history_failures(h, out, copters, flashes):
    """C12 on every flashing of a history: the image must land at the start page reported by the target of THIS
    connection, nothing outside, nothing beyond that target's flash.  Returns [(key, what, detail, flash index)]"""
    res_ = []
    info = ghost_reads(h, out)
    dirty_seen = {}
    times = {}
    for f in flashes:
        times[(f['copter'], f['key'])] = times.get((f['copter'], f['key']), 0) + 1
    for f in flashes:
        if f['copter'] is None or times[(f['copter'], f['key'])] > 1:
            continue      # a target flashed twice in one history: the final memory does not separate the two runs
        cop = copters[f['copter']]
        if f['key'] not in cop.geom:
            continue
        ps, bp, fp, sp = cop.geom[f['key']]
        res, pk = out[f['op']]
        if res.startswith('err:') and not pk:
            continue
        twin = cop.mem[f['key']]
        seen = dirty_seen.setdefault((f['copter'], f['key']), set())

        class V:           # the part of this target's memory touched by THIS flashing
            pass
        v = V()
        v.flashpg = {q: x for q, x in twin.flashpg.items() if q not in seen}
        v.flash = twin.flash
        v.decode = twin.decode
        link = V()
        link.sent = pk
        c = {'key': f['key'], 'addr': f['key'], 'ps': ps, 'bp': bp, 'fp': fp, 'sp': sp, 'override': f['override'], 'image': f['image'], 'script': []}
        fails = property_failures(c, res, link, v) if in_scope(c) else []
        seen.update(twin.flashpg)
        connected, read_from = info.get(f['op'], (None, None))
        for key, what, detail in fails:
            stale_own = read_from is not None and read_from != connected
            # D26 (fixed in c1a3150): the entry predates the current connection of this loader object - a violation if it comes back
            k2 = 'stale-geometry-after-reconnect' if stale_own else 'geometry-of-this-connection:' + key
            res_.append((k2, what + ' (geometry reported by the target of this connection: start page %d, %d flash pages)' % (sp, fp), detail, f['op']))
    return res_


def correspond_histories(ctx):
    hs = gen_histories(ctx)
    lines, meta = [], []
    for kind, h in hs:
        line, expand, parts, fl, cop, fls = real_hist_reply(h, kind == 'public-api')
        lines.append(line)
        meta.append((kind, h, expand, parts, fl))
        ctx.count('hist:' + kind)
        for _, r, _p in parts:
            ctx.count('hist:result:' + r.split(':')[0] + (':' + r.split(':')[1] if r.startswith('err') else ''))
    replies = ctx.lean(DRIVER, lines)
    for line, model, (kind, h, expand, parts, fl) in zip(lines, replies, meta):
        ctx.case({'op': 'history', 'kind': kind, 'copters': [[list(t) for t in c['targets']] for c in h['copters']],
                  'ops': [[o[0]] + [x if not isinstance(x, (bytes, bytearray)) else 'image[%d]' % len(x) for x in o[1:]] for o in h['ops']][:24]},
                 ('hist', line))
        d = compare_hist(model, expand, parts, fl)
        if d:
            ctx.disagree('history:' + kind, line[:700], (d + ' || ' + model)[:700], str([(k, r) for k, r, _ in parts])[:700])


def search_histories(ctx, seen):
    for kind, h in gen_histories(ctx):
        out, copters, flashes = run_real_history(h)
        ctx.count('search:history:' + kind)
        for key, what, detail, opi in history_failures(h, out, copters, flashes):
            if key in seen:
                ctx.count('witnesses-suppressed')
                continue
            seen.add(key)
            ctx.witness(key, what, {'copters': [{'protocol': c['proto'], 'get_info_script': [fmt_outcome(o) for o in c['info']],
                                                 'targets(id,page_size,buffer_pages,flash_pages,start_page)': [list(t) for t in c['targets']]} for c in h['copters']],
                                    'ops': [[o[0]] + [x.hex() if isinstance(x, (bytes, bytearray)) else x for x in o[1:]] for o in h['ops']],
                                    'failing_op': opi, 'seed': h['seed']},
                        detail=detail, results=[r for r, _ in out])

"""C12 - Flashing writes exactly the image, nowhere else.

Tie A: the integer expressions of Bootloader._internal_flash (size guard, page count, slice bounds, flush
condition, flash-page expressions), the struct formats / argument lists / constants of Cloader.upload_buffer
and Cloader.write_flash (incl. the retry-loop test, the two receive timeouts and the retry counter) and
CRTPPacket's header expression are re-extracted into Gen/C12.lean.
Tie B: real Bootloader._internal_flash + Cloader over a fake link (send_packet / receive_packet(timeout))
connected to a Python twin of the Spec target + outcome script, vs the Lean model run against the Lean Spec
environment (Driver/C12.lean): transmitted packets, probed flash/buffer pages, result are compared.
"""
import ast
import contextlib
import io
import json
import os

from harness.lib import extract as X
from harness.lib.common import ExtractError, exc_enum, hexs, VERIF

PID = 'C12'
LEAN_TARGETS = ['CfVerif.Props.C12']
PROPS_MODULES = ['CfVerif.Props.C12']
DRIVER = 'Driver/C12.lean'
REQUIRED_THEOREMS = []
TRUSTED = []
ASSUMPTIONS = []
RULE = ''

BOOT = 'cflib/bootloader/__init__.py'
CLOAD = 'cflib/bootloader/cloader.py'
CRTP = 'cflib/crtp/crtpstack.py'


# ------------------------------------------------------------------------------------------------------
# Tie A
# ------------------------------------------------------------------------------------------------------
def _iexpr(e, env):
    """integer expression -> Lean term over Int.  Supports names/attributes in env, int literals, + - *,
    `len(image)`-style calls listed in env and `int(a / b)` (float division then truncation: exact for
    |a| < 2^53, b != 0; translated to Int.tdiv, division by zero is checked by the model before use)."""
    def go(n):
        s = ast.unparse(n)
        if s in env:
            return env[s]
        if isinstance(n, ast.Constant) and isinstance(n.value, int) and not isinstance(n.value, bool):
            return str(n.value) if n.value >= 0 else '(%d)' % n.value
        if isinstance(n, ast.BinOp) and isinstance(n.op, (ast.Add, ast.Sub, ast.Mult)):
            op = {ast.Add: '+', ast.Sub: '-', ast.Mult: '*'}[type(n.op)]
            return '(%s %s %s)' % (go(n.left), op, go(n.right))
        if isinstance(n, ast.Call) and isinstance(n.func, ast.Name) and n.func.id == 'int' and len(n.args) == 1 \
                and isinstance(n.args[0], ast.BinOp) and isinstance(n.args[0].op, ast.Div):
            return '(Int.tdiv %s %s)' % (go(n.args[0].left), go(n.args[0].right))
        raise ExtractError('untranslatable integer expression: ' + s)
    return go(e)


_CMP = {ast.Gt: '>', ast.GtE: '≥', ast.Lt: '<', ast.LtE: '≤', ast.Eq: '=', ast.NotEq: '≠'}


def _icmp(e, env):
    X.expect(isinstance(e, ast.Compare) and len(e.ops) == 1 and type(e.ops[0]) in _CMP, 'untranslatable comparison: ' + ast.unparse(e))
    return 'decide (%s %s %s)' % (_iexpr(e.left, env), _CMP[type(e.ops[0])], _iexpr(e.comparators[0], env))


def _calls(node, suffix):
    res = [n for n in ast.walk(node) if isinstance(n, ast.Call) and ast.unparse(n.func).endswith(suffix)]
    return sorted(res, key=lambda n: (n.lineno, n.col_offset))


def _one(lst, what):
    X.expect(len(lst) == 1, 'expected exactly one %s, found %d' % (what, len(lst)))
    return lst[0]


def extract(ctx):
    g = X.GenFile(PID, [BOOT, CLOAD, CRTP])
    # ---- CRTPPacket header expression + set_header(0xFF, 0xFF) ------------------------------------------
    uh = X.func(CRTP, 'CRTPPacket._update_header')
    asg = _one([n for n in ast.walk(uh) if isinstance(n, ast.Assign) and ast.unparse(n.targets[0]) == 'self.header'], 'self.header assignment')
    g.raw('def crtpHeader (port chan : Nat) : Nat := ' + X.expr_to_lean(asg.value, {'self._port': 'port', 'self.channel': 'chan'}))
    # ---- Cloader.upload_buffer -------------------------------------------------------------------------
    ub = X.func(CLOAD, 'Cloader.upload_buffer')
    X.expect([a.arg for a in ub.args.args] == ['self', 'target_id', 'page', 'address', 'buff'], 'upload_buffer signature changed')
    sc = X.struct_calls(ub)
    X.expect(len(sc) == 2 and all(c['fn'] == 'pack' and c['fmt'] for c in sc), 'upload_buffer: expected two struct.pack calls')
    X.expect(sc[0]['fmt'] == sc[1]['fmt'], 'upload_buffer: the two packets use different formats')
    g.string('uploadFmt', sc[0]['fmt'])
    g.strings('uploadArgs0', sc[0]['args'])
    g.strings('uploadArgs1', sc[1]['args'])
    packs = [n for n in _calls(ub, 'struct.pack')]
    try:
        g.nat('uploadCmd', ast.literal_eval(packs[0].args[2]))
        g.nat('uploadCmd1', ast.literal_eval(packs[1].args[2]))
    except Exception:
        raise ExtractError('upload_buffer: command byte is not a literal')
    g.raw('def uploadNextAddr (i address : Nat) : Nat := ' + X.expr_to_lean(packs[1].args[4], {'i': 'i', 'address': 'address'}))
    hdrs = _calls(ub, '.set_header')
    X.expect(len(hdrs) == 2 and all(len(h.args) == 2 for h in hdrs), 'upload_buffer: expected two set_header(port, channel) calls')
    g.strings('uploadHeaderArgs', sorted({ast.unparse(a) for h in hdrs for a in h.args}))
    try:
        g.nat('bootPort', ast.literal_eval(hdrs[0].args[0]))
        g.nat('bootChan', ast.literal_eval(hdrs[0].args[1]))
    except Exception:
        raise ExtractError('upload_buffer: set_header arguments are not literals')
    loop = _one([n for n in ast.walk(ub) if isinstance(n, ast.For)], 'for loop in upload_buffer')
    g.string('uploadLoopIter', ast.unparse(loop.target) + ' in ' + ast.unparse(loop.iter))
    g.strings('uploadAppendArgs', [ast.unparse(c.args[0]) for c in _calls(ub, 'pk.data.append')])
    cmp_ = _one([n for n in ast.walk(ub) if isinstance(n, ast.Compare)], 'comparison in upload_buffer')
    X.expect(isinstance(cmp_.left, ast.Name) and cmp_.left.id == 'count' and isinstance(cmp_.comparators[0], ast.Constant),
             'upload_buffer: flush test is not `count <op> <literal>`')
    g.raw('def uploadFull (count : Nat) : Bool := ' + _icmp(cmp_, {'count': 'count'}))
    g.nat('uploadFlushAt', cmp_.comparators[0].value)
    g.strings('uploadCountUpdates', [ast.unparse(n) for n in sorted((m for m in ast.walk(ub) if isinstance(m, (ast.AugAssign, ast.Assign)) and ast.unparse(m.targets[0] if isinstance(m, ast.Assign) else m.target) == 'count'), key=lambda m: m.lineno)])
    g.strings('uploadSends', [ast.unparse(c) for c in _calls(ub, 'link.send_packet')])
    # ---- Cloader.write_flash -----------------------------------------------------------------------------
    wf = X.func(CLOAD, 'Cloader.write_flash')
    X.expect([a.arg for a in wf.args.args] == ['self', 'addr', 'page_buffer', 'target_page', 'page_count'], 'write_flash signature changed')
    whiles = sorted([n for n in ast.walk(wf) if isinstance(n, ast.While)], key=lambda n: n.lineno)
    X.expect(len(whiles) == 2, 'write_flash: expected the flush loop and the retry loop')
    g.string('flushLoopTest', ast.unparse(whiles[0].test))
    g.string('retryLoopTest', ast.unparse(whiles[1].test))
    recvs = _calls(wf, 'link.receive_packet')
    X.expect(len(recvs) == 3 and all(len(r.args) == 1 for r in recvs), 'write_flash: expected three receive_packet(timeout) calls')
    X.expect(recvs[0].lineno < whiles[0].lineno and whiles[0].lineno < recvs[1].lineno <= whiles[0].end_lineno
             and whiles[1].lineno < recvs[2].lineno <= whiles[1].end_lineno, 'write_flash: receive_packet calls are not where the model expects them')
    g.strings('flushRecvArgs', [ast.unparse(r.args[0]) for r in recvs[:2]])
    g.string('retryRecvArg', ast.unparse(recvs[2].args[0]))
    g.strings('flushLoopBody', [ast.unparse(s) for s in whiles[0].body])
    ia = X.int_assigns(wf)
    X.expect('retry_counter' in ia, 'write_flash: retry_counter = <literal> not found')
    g.nat('retryInit', ia['retry_counter'])
    g.strings('retryCounterUpdates', [ast.unparse(n) for n in ast.walk(whiles[1]) if isinstance(n, ast.AugAssign)])
    sc = X.struct_calls(wf)
    X.expect(len(sc) == 2 and sc[0]['fn'] == 'unpack' and sc[1]['fn'] == 'pack' and sc[0]['fmt'] and sc[1]['fmt'], 'write_flash: expected unpack (reply) and pack (command)')
    g.string('replyFmt', sc[0]['fmt'])
    g.strings('replyArgs', sc[0]['args'])
    g.string('writeFmt', sc[1]['fmt'])
    g.strings('writeArgs', sc[1]['args'])
    pk = _one(_calls(wf, 'struct.pack'), 'struct.pack in write_flash')
    try:
        g.nat('writeCmd', ast.literal_eval(pk.args[2]))
    except Exception:
        raise ExtractError('write_flash: command byte is not a literal')
    tup = [n for n in ast.walk(whiles[1].test) if isinstance(n, ast.Compare) and isinstance(n.comparators[0], ast.Tuple)]
    X.expect(len(tup) == 1 and len(tup[0].comparators[0].elts) == 2 and ast.unparse(tup[0].comparators[0].elts[0]) == 'addr', 'write_flash: reply check `!= (addr, <cmd>)` not found')
    hdrc = [n for n in ast.walk(whiles[1].test) if isinstance(n, ast.Compare) and ast.unparse(n.left) == 'pk.header']
    lenc = [n for n in ast.walk(whiles[1].test) if isinstance(n, ast.Compare) and ast.unparse(n.left) == 'len(pk.data)']
    X.expect(len(hdrc) == 1 and len(lenc) == 1, 'write_flash: header / length checks not found')
    try:
        g.nat('replyCmd', ast.literal_eval(tup[0].comparators[0].elts[1]))
        g.nat('replyHeader', ast.literal_eval(hdrc[0].comparators[0]))
        g.nat('replyMinLen', ast.literal_eval(lenc[0].comparators[0]))
    except Exception:
        raise ExtractError('write_flash: reply check constants are not literals')
    hdrs = _calls(wf, '.set_header')
    g.strings('writeHeaderArgs', sorted({ast.unparse(a) for h in hdrs for a in h.args}))
    ifs = [n for n in ast.walk(wf) if isinstance(n, ast.If)]
    g.strings('writeIfTests', [ast.unparse(n.test) for n in sorted(ifs, key=lambda n: n.lineno)])
    g.strings('writeReturns', [ast.unparse(n.value) if n.value else 'None' for n in sorted((m for m in ast.walk(wf) if isinstance(m, ast.Return)), key=lambda m: m.lineno)])
    g.strings('writeErrorCode', [ast.unparse(n.value) for n in sorted((m for m in ast.walk(wf) if isinstance(m, ast.Assign) and ast.unparse(m.targets[0]) == 'self.error_code'), key=lambda m: m.lineno)])
    g.strings('writeSends', [ast.unparse(c) for c in _calls(wf, 'link.send_packet')])
    # ---- Bootloader._internal_flash ------------------------------------------------------------------------
    fl = X.func(BOOT, 'Bootloader._internal_flash')
    env = {}
    for pre in ('t_data', 'target_info'):
        env.update({pre + '.page_size': 'pageSize', pre + '.buffer_pages': 'bufferPages', pre + '.flash_pages': 'flashPages'})
    env.update({'len(image)': 'len', 'start_page': 'startPage', 'i': 'i', 'ctr': 'ctr'})
    alias = [ast.unparse(n) for n in ast.walk(fl) if isinstance(n, ast.Assign) and ast.unparse(n.targets[0]) in ('t_data', 'image', 'start_page', 'factor')]
    g.strings('flashAssigns', alias)
    ifs = sorted([n for n in ast.walk(fl) if isinstance(n, ast.If)], key=lambda n: n.lineno)
    ov = [n for n in ifs if ast.unparse(n.test) == 'page_override is not None']
    X.expect(len(ov) == 1 and [ast.unparse(s) for s in ov[0].body] == ['start_page = page_override'] and not ov[0].orelse, '_internal_flash: page_override handling changed')
    guard = [n for n in ifs if isinstance(n.test, ast.Compare) and ast.unparse(n.test.left) == 'len(image)']
    X.expect(len(guard) == 1 and isinstance(guard[0].body[-1], ast.Raise), '_internal_flash: size guard `if len(image) > ...: raise` not found')
    loop = _one([n for n in ast.walk(fl) if isinstance(n, ast.For)], 'for loop in _internal_flash')
    X.expect(guard[0].lineno < loop.lineno and ov[0].lineno < guard[0].lineno, '_internal_flash: size guard is not before the page loop')
    # nothing may be transmitted before the guard
    first_tx = min([c.lineno for c in _calls(fl, '_cload.upload_buffer') + _calls(fl, '_cload.write_flash')] or [0])
    X.expect(first_tx > guard[0].lineno, '_internal_flash: a transmission precedes the size guard')
    g.raw('def guardRefuses (len flashPages startPage pageSize : Int) : Bool := ' + _icmp(guard[0].test, env))
    X.expect(isinstance(loop.iter, ast.Call) and ast.unparse(loop.iter.func) == 'range' and len(loop.iter.args) == 2
             and ast.unparse(loop.iter.args[0]) == '0' and ast.unparse(loop.target) == 'i', '_internal_flash: page loop is not `for i in range(0, n)`')
    g.raw('def pageCount (len pageSize : Int) : Int := ' + _iexpr(loop.iter.args[1], env))
    term = [n for n in loop.body if isinstance(n, ast.If) and 'terminate_flashing_cb' in ast.unparse(n.test)]
    X.expect(len(term) == 1 and loop.body[0] is term[0] and isinstance(term[0].body[-1], ast.Raise), '_internal_flash: terminate check is not the first statement of the page loop')
    g.string('terminateTest', ast.unparse(term[0].test))
    ups = _calls(fl, '_cload.upload_buffer')
    X.expect(len(ups) == 2 and all(len(u.args) == 4 for u in ups), '_internal_flash: expected two upload_buffer calls')
    part = [n for n in loop.body if isinstance(n, ast.If) and any(u in list(ast.walk(n)) for u in ups)]
    X.expect(len(part) == 1 and ups[0] in list(ast.walk(part[0].body[0])) and ups[1] in list(ast.walk(part[0].orelse[0])), '_internal_flash: partial/full page upload branches changed')
    g.raw('def lastPartial (i pageSize len : Int) : Bool := ' + _icmp(part[0].test, env))
    g.strings('uploadCallArgs0', [ast.unparse(a) for a in ups[0].args[:3]])
    g.strings('uploadCallArgs1', [ast.unparse(a) for a in ups[1].args[:3]])
    for k, u in enumerate(ups):
        sl = u.args[3]
        X.expect(isinstance(sl, ast.Subscript) and ast.unparse(sl.value) == 'image' and isinstance(sl.slice, ast.Slice) and sl.slice.step is None
                 and sl.slice.lower is not None, '_internal_flash: upload_buffer data is not a slice image[a:b]')
        g.raw('def slice%dLo (i pageSize : Int) : Int := %s' % (k, _iexpr(sl.slice.lower, env)))
        if k == 0:
            X.expect(sl.slice.upper is None, '_internal_flash: the partial-page slice has an upper bound')
        else:
            X.expect(sl.slice.upper is not None, '_internal_flash: the full-page slice has no upper bound')
            g.raw('def slice1Hi (i pageSize : Int) : Int := ' + _iexpr(sl.slice.upper, env))
    g.strings('ctrUpdates', [ast.unparse(n) for n in sorted((m for m in ast.walk(fl) if isinstance(m, (ast.AugAssign, ast.Assign)) and ast.unparse(m.targets[0] if isinstance(m, ast.Assign) else m.target) == 'ctr'), key=lambda m: m.lineno)])
    wfs = _calls(fl, '_cload.write_flash')
    X.expect(len(wfs) == 2 and all(len(w.args) == 4 for w in wfs), '_internal_flash: expected two write_flash calls')
    fl_if = [n for n in loop.body if isinstance(n, ast.If) and wfs[0] in list(ast.walk(n))]
    X.expect(len(fl_if) == 1 and isinstance(fl_if[0].test, ast.Compare), '_internal_flash: in-loop flush condition not found')
    g.raw('def flushDue (ctr bufferPages : Int) : Bool := ' + _icmp(fl_if[0].test, env))
    fin_if = [n for n in fl.body if isinstance(n, ast.If) and wfs[1] in list(ast.walk(n))]
    X.expect(len(fin_if) == 1 and fin_if[0].lineno > loop.end_lineno and isinstance(fin_if[0].test, ast.Compare), '_internal_flash: final flush after the loop not found')
    g.raw('def finalFlushDue (ctr : Int) : Bool := ' + _icmp(fin_if[0].test, env))
    g.strings('flushCallArgs0', [ast.unparse(a) for a in wfs[0].args])
    g.strings('flushCallArgs1', [ast.unparse(a) for a in wfs[1].args])
    g.raw('def flushPage (startPage i ctr : Int) : Int := ' + _iexpr(wfs[0].args[2], env))
    g.raw('def finalFlushPage (startPage len pageSize ctr : Int) : Int := ' + _iexpr(wfs[1].args[2], env))
    # both write_flash calls are the test of `if not <call>: ... raise`
    fails = []
    for w in wfs:
        holder = [n for n in ast.walk(fl) if isinstance(n, ast.If) and isinstance(n.test, ast.UnaryOp) and isinstance(n.test.op, ast.Not) and n.test.operand is w]
        X.expect(len(holder) == 1, '_internal_flash: write_flash result is not tested with `if not ...`')
        fails.append('raise' if isinstance(holder[0].body[-1], ast.Raise) and not holder[0].orelse else 'continue')
    g.strings('flushFailAction', fails)
    return {'C12.lean': g.render()}

"""C13 - numeric wire codecs are exact or within their stated resolution.

Tie A: fp16_to_float is TRANSLATED statement by statement (ints, shifts, masks, if/elif/else, the
normalisation while loop with explicit fuel, every return incl. its type: Python int vs reinterpreted
binary32) into Gen/C13.lean; the RGB565 component / packing expressions, the quaternion bit packing and
unpacking expressions, the trajectory scale factors, and every struct format / argument list of the
anchored functions are re-extracted on every run.
Tie B: the real functions vs the Lean model (Driver/C13.lean).
"""
import ast

from harness.lib import extract as X
from harness.lib.common import ExtractError

PID = 'C13'
LEAN_TARGETS = ['CfVerif.Props.C13']
PROPS_MODULES = ['CfVerif.Props.C13']
DRIVER = 'Driver/C13.lean'
REQUIRED_THEOREMS = ['CfVerif.C13.' + t for t in (
    'fp16_exact', 'fp16_signed_arg', 'fp16_live_counterexample',
    'quat_roundtrip', 'quat_model_is_compressR', 'quat_fields_roundtrip', 'quat_errors',
    'coordinate_error_lt_one', 'yaw_error_lt_one', 'start_packs_or_raises', 'element_packs_or_raises',
    'pack_idempotent', 'upload_idempotent', 'upload_is_concatenation', 'led_write_idempotent', 'led_writes_see_only_sets',
    'timing_write_idempotent', 'timing_write_after_adds', 'incoming_memoryless', 'gen_objects',
    'led_rgb565', 'led_monotone', 'led_black_white', 'led_ring_is_map', 'led_ring_image', 'led_timing_is_map', 'gen_led_loops', 'led_timing_rgb565', 'led_timing_monotone', 'led_timing_black_white',
    'range_report_decodes', 'range_report_distinct', 'range_report_last_wins', 'lh_angle_decodes', 'incoming_malformed',
    'gen_quat_compress', 'gen_quat_decompress', 'gen_trajectory', 'gen_units', 'gen_led', 'gen_incoming', 'gen_lh_angle')]
EXHAUSTIVE = True      # the half-float decoder and the LED mapping are checked on their whole (finite) domains, every run
TRUSTED = ['harness/corr/c13.py: the Python->Lean translator (A3) for fp16_to_float / bit expressions, the extractor, the correspondence',
           'IEEE-754: CPython float * and / are correctly rounded binary64 operations (modelled exactly by truncRn); '
           'struct codes f/I/h/H/B are little-endian on the host (native = little-endian)',
           'numpy binary64 evaluation of compress/decompress_quaternion (norm, division, sqrt) vs. the real-number functions '
           'compressR/decompressR the bound is proved for: compared exactly away from rounding boundaries; the worst observed error is 1.27 steps against the proved bound of 2',
           'math.degrees (libm) is outside the model: encodeYawDeg takes its result',
           'Spec/C13: IEEE-754 value of binary16/binary32 patterns; device-side layouts of RANGE_STREAM_REPORT and LH_ANGLE_STREAM packets']
ASSUMPTIONS = ['quaternion / coordinate inputs are finite floats (NaN/inf inputs are outside the model)',
               'LED intensity is a non-negative integer; colour levels are ints (int() of floats is outside the model)',
               'decompress_quaternion is modelled for comp >= 0 (a negative word indexes q[] from the end)',
               'binary64 subtraction base - offset in _decode_lh_angle is kept symbolic in the model and evaluated by the harness']
RULE = ('cases = ALL 65536 half patterns (+ signed readings, wider ints); quaternions from a sign/axis/diagonal grid with exact ties '
        'for the largest component, negated, unnormalised, near-axis, negative-zero and random directions, sent to the model as exact '
        'integer quaternions; words for decompression incl. every index x sign pattern and words >= 2^32; coordinates/angles across '
        'and beyond the int16 range incl. decimal inputs whose binary64 product rounds onto an integer; ALL 256x101 (level, intensity) '
        'pairs on every LED channel + wrapped / over-range values; WHOLE RINGS with the same colour at different intensities, gradients, '
        'all-equal rings, one differing/dimmed LED, and timing sequences sharing colours; range reports with 0..12 anchors incl. duplicate ids and truncated '
        'packets; angle packets with special half/single patterns; HISTORIES on one object: pack() 2-5 times (incl. raising elements), the '
        'same trajectory list uploaded 2-4 times to several memories/addresses, set/intensity/write histories on one LED ring, add/write '
        'histories on one timing sequence, packet streams through one Localization object. distinct+non-trivial = distinct (operation, input)')

# ======================================================================================================
# A3: a deliberately small Python -> Lean translator for pure integer functions.
# All Python ints become Lean `Int`; the bit operators are the TOTAL two's-complement definitions of the
# prelude below (so the translation is valid for negative operands too: _decode_lh_angle feeds signed
# int16 values to fp16_to_float).  Anything outside the subset raises ExtractError.
# ======================================================================================================
PRELUDE = '''
/-! ### prelude: Python `int` bit operators on `Int` (total, two's complement; `Int.negSucc n` = `~n`) -/

/-- Python `a & b` -/
def pyAnd : Int → Int → Int
  | .ofNat a, .ofNat b => .ofNat (a &&& b)
  | .negSucc a, .ofNat b => .ofNat (b - (b &&& a))
  | .ofNat a, .negSucc b => .ofNat (a - (a &&& b))
  | .negSucc a, .negSucc b => .negSucc (a ||| b)

/-- Python `a | b` -/
def pyOr : Int → Int → Int
  | .ofNat a, .ofNat b => .ofNat (a ||| b)
  | .negSucc a, .ofNat b => .negSucc (a - (a &&& b))
  | .ofNat a, .negSucc b => .negSucc (b - (b &&& a))
  | .negSucc a, .negSucc b => .negSucc (a &&& b)

/-- Python `a ^ b` -/
def pyXor : Int → Int → Int
  | .ofNat a, .ofNat b => .ofNat (a ^^^ b)
  | .negSucc a, .ofNat b => .negSucc (a ^^^ b)
  | .ofNat a, .negSucc b => .negSucc (a ^^^ b)
  | .negSucc a, .negSucc b => .ofNat (a ^^^ b)

/-- Python `~a` -/
def pyNot (a : Int) : Int := -a - 1

/-- Python `a << k` for a literal `k ≥ 0` -/
def shl (a : Int) (k : Nat) : Int := a * ((2 ^ k : Nat) : Int)

/-- Python `a >> k` for a literal `k ≥ 0` (arithmetic shift = floor division by `2^k`) -/
def shr (a : Int) (k : Nat) : Int :=
  match a with
  | .ofNat n => .ofNat (n >>> k)
  | .negSucc n => .negSucc (n >>> k)

/-- what a translated Python function returned -/
inductive Ret
  | int (v : Int)        -- a Python `int` object
  | f32 (bits : Int)     -- `struct.unpack('f', struct.pack('I', bits))[0]`: a float (pack raises unless 0 ≤ bits < 2^32)
  | none                 -- fell off the end
  | fuel                 -- loop fuel exhausted (the translation's bound, never Python behaviour)
  deriving DecidableEq, Repr
'''


def _nonneg_lit(n):
    if isinstance(n, ast.Constant) and isinstance(n.value, int) and not isinstance(n.value, bool) and n.value >= 0:
        return n.value
    raise ExtractError('shift amount must be a non-negative literal: ' + ast.unparse(n))


def E(n, env):
    """integer expression -> Lean `Int` term"""
    if not isinstance(n, ast.Constant) and ast.unparse(n) in env:
        return env[ast.unparse(n)]
    if isinstance(n, ast.Constant) and isinstance(n.value, int) and not isinstance(n.value, bool):
        return '(%d : Int)' % n.value if n.value >= 0 else '(-%d : Int)' % -n.value
    if isinstance(n, (ast.Name, ast.Attribute, ast.Subscript)):
        s = ast.unparse(n)
        if s in env:
            return env[s]
        raise ExtractError('untranslatable name %s' % s)
    if isinstance(n, ast.Call):
        f = ast.unparse(n.func)
        if f in ('int', '(int)') and len(n.args) == 1 and not n.keywords:      # int(<int expr>) is the identity
            return E(n.args[0], env)
        raise ExtractError('untranslatable call %s' % ast.unparse(n))
    if isinstance(n, ast.UnaryOp):
        if isinstance(n.op, ast.Invert):
            return '(pyNot %s)' % E(n.operand, env)
        if isinstance(n.op, ast.USub):
            return '(-%s)' % E(n.operand, env)
        raise ExtractError('untranslatable unary operator in %s' % ast.unparse(n))
    if isinstance(n, ast.BinOp):
        t = type(n.op)
        if t is ast.LShift:
            return '(shl %s %d)' % (E(n.left, env), _nonneg_lit(n.right))
        if t is ast.RShift:
            return '(shr %s %d)' % (E(n.left, env), _nonneg_lit(n.right))
        a, b = E(n.left, env), E(n.right, env)
        if t is ast.Add:
            return '(%s + %s)' % (a, b)
        if t is ast.Sub:
            return '(%s - %s)' % (a, b)
        if t is ast.Mult:
            return '(%s * %s)' % (a, b)
        if t is ast.BitAnd:
            return '(pyAnd %s %s)' % (a, b)
        if t is ast.BitOr:
            return '(pyOr %s %s)' % (a, b)
        if t is ast.BitXor:
            return '(pyXor %s %s)' % (a, b)
        raise ExtractError('untranslatable operator %s in %s' % (t.__name__, ast.unparse(n)))
    raise ExtractError('untranslatable expression %s' % ast.unparse(n))


_CMP = {ast.Eq: '==', ast.NotEq: '!=', ast.Lt: '<', ast.LtE: '<=', ast.Gt: '>', ast.GtE: '>='}


def T(n, env):
    """test expression -> Lean `Bool` term (Python truthiness of ints: non-zero)"""
    if isinstance(n, ast.UnaryOp) and isinstance(n.op, ast.Not):
        return '(!%s)' % T(n.operand, env)
    if isinstance(n, ast.BoolOp):
        op = ' && ' if isinstance(n.op, ast.And) else ' || '
        return '(' + op.join(T(v, env) for v in n.values) + ')'
    if isinstance(n, ast.Compare):
        if len(n.ops) != 1 or type(n.ops[0]) not in _CMP:
            raise ExtractError('untranslatable comparison %s' % ast.unparse(n))
        a, b = E(n.left, env), E(n.comparators[0], env)
        op = _CMP[type(n.ops[0])]
        if op in ('==', '!='):
            return '(%s %s %s)' % (a, op, b)
        return '(decide (%s %s %s))' % (a, {'<': '<', '<=': '≤', '>': '>', '>=': '≥'}[op], b)
    return '(%s != 0)' % E(n, env)


_AUG = {ast.Add: ast.Add, ast.Sub: ast.Sub, ast.Mult: ast.Mult, ast.LShift: ast.LShift, ast.RShift: ast.RShift,
        ast.BitAnd: ast.BitAnd, ast.BitOr: ast.BitOr, ast.BitXor: ast.BitXor}


class FuncTranslator:
    """translate `def f(params): <assign | augassign | if | while | return>*` into Lean defs returning `Ret`"""

    def __init__(self, module_tree, fn, lean_name, fuel=64, params=None, env=None):
        self.params = params
        self.env0 = env
        self.mod = module_tree
        self.fn = fn
        self.name = lean_name
        self.fuel = fuel
        self.aux = []
        self.nloops = 0

    # -- helpers -------------------------------------------------------------------------------
    def _reinterpret_arg(self, v):
        """if `v` is struct.unpack('f', struct.pack('I', X))[0] return X else None"""
        if isinstance(v, ast.Subscript) and isinstance(v.slice, ast.Constant) and v.slice.value == 0 and isinstance(v.value, ast.Call):
            c = v.value
            if ast.unparse(c.func) == 'struct.unpack' and len(c.args) == 2 and isinstance(c.args[0], ast.Constant) and c.args[0].value == 'f':
                p = c.args[1]
                if isinstance(p, ast.Call) and ast.unparse(p.func) == 'struct.pack' and len(p.args) == 2 \
                        and isinstance(p.args[0], ast.Constant) and p.args[0].value == 'I':
                    return p.args[1]
        return None

    def _helper_reinterprets(self, name):
        """is module-level `name` exactly `def name(p): return struct.unpack('f', struct.pack('I', p))[0]` ?"""
        for n in self.mod.body:
            if isinstance(n, ast.FunctionDef) and n.name == name:
                body = [s for s in n.body if not (isinstance(s, ast.Expr) and isinstance(s.value, ast.Constant))]
                if len(n.args.args) == 1 and len(body) == 1 and isinstance(body[0], ast.Return):
                    x = self._reinterpret_arg(body[0].value)
                    return isinstance(x, ast.Name) and x.id == n.args.args[0].arg
        return False

    def ret(self, v, env):
        if v is None:
            return 'Ret.none'
        x = self._reinterpret_arg(v)
        if x is not None:
            return 'Ret.f32 %s' % E(x, env)
        if isinstance(v, ast.Call) and isinstance(v.func, ast.Name) and len(v.args) == 1 and not v.keywords \
                and v.func.id != 'int' and self._helper_reinterprets(v.func.id):
            return 'Ret.f32 %s' % E(v.args[0], env)
        return 'Ret.int %s' % E(v, env)

    @staticmethod
    def _assigned(stmts):
        out = []
        for st in stmts:
            for n in ast.walk(st):
                if isinstance(n, (ast.Assign, ast.AugAssign)):
                    tg = n.targets[0] if isinstance(n, ast.Assign) else n.target
                    if isinstance(tg, ast.Name) and tg.id not in out:
                        out.append(tg.id)
        return out

    def assign(self, st, env):
        if isinstance(st, ast.Assign):
            if len(st.targets) != 1 or not isinstance(st.targets[0], ast.Name):
                raise ExtractError('untranslatable assignment %s' % ast.unparse(st))
            return st.targets[0].id, E(st.value, env)
        if not isinstance(st.target, ast.Name) or type(st.op) not in _AUG:
            raise ExtractError('untranslatable augmented assignment %s' % ast.unparse(st))
        return st.target.id, E(ast.BinOp(left=st.target, op=st.op, right=st.value), env)

    # -- statements ----------------------------------------------------------------------------
    def block(self, stmts, cont, ind, env, defined, in_loop=False):
        if not stmts:
            return cont(ind, env, defined)
        st, rest = stmts[0], stmts[1:]
        pad = ' ' * ind

        def k(i, e, d):
            return self.block(rest, cont, i, e, d, in_loop)
        if isinstance(st, ast.Expr) and isinstance(st.value, ast.Constant):      # docstring
            return k(ind, env, defined)
        if isinstance(st, (ast.Assign, ast.AugAssign)):
            x, rhs = self.assign(st, env)
            env2 = dict(env)
            env2[x] = x
            return '%slet %s : Int := %s\n' % (pad, x, rhs) + k(ind, env2, defined + [x] if x not in defined else defined)
        if isinstance(st, ast.Return):
            if in_loop:
                raise ExtractError('return inside a loop is not supported')
            return pad + self.ret(st.value, env)
        if isinstance(st, ast.If):
            return '%sif %s then\n%s\n%selse\n%s' % (pad, T(st.test, env), self.block(st.body, k, ind + 2, env, defined, in_loop),
                                                    pad, self.block(st.orelse, k, ind + 2, env, defined, in_loop))
        if isinstance(st, ast.While):
            if in_loop or st.orelse:
                raise ExtractError('nested loops / while-else are not supported')
            for n in ast.walk(st):
                if isinstance(n, (ast.Break, ast.Continue, ast.Return)):
                    raise ExtractError('break/continue/return inside a loop is not supported')
            mod = self._assigned(st.body)
            for m in mod:
                if m not in defined:
                    raise ExtractError('loop assigns %s before it is defined' % m)
            lname = '%s_loop%d' % (self.name, self.nloops)
            self.nloops += 1
            tup = mod[0] if len(mod) == 1 else '(' + ', '.join(mod) + ')'
            tty = 'Int' if len(mod) == 1 else ' × '.join(['Int'] * len(mod))

            def back(i, e, d):
                return ' ' * i + '%s fuel %s' % (lname, ' '.join(defined))
            body = self.block(st.body, back, 6, env, defined, True)
            self.aux.append('def %s (fuel : Nat) (%s : Int) : Option (%s) :=\n  match fuel with\n  | 0 => none\n  | fuel + 1 =>\n'
                            '    if %s then\n%s\n    else some %s' % (lname, ' '.join(defined), tty, T(st.test, env), body, tup))
            return '%smatch %s %d %s with\n%s| none => Ret.fuel\n%s| some %s =>\n' % (pad, lname, self.fuel, ' '.join(defined), pad, pad, tup) \
                + k(ind + 2, env, defined)
        raise ExtractError('untranslatable statement %s' % ast.unparse(st).split('\n')[0])

    def render(self):
        params = self.params if self.params is not None else [a.arg for a in self.fn.args.args]
        env = dict(self.env0) if self.env0 is not None else {p: p for p in params}
        body = self.block(self.fn.body, lambda i, e, d: ' ' * i + 'Ret.none', 2, env, list(params))
        return '\n\n'.join(self.aux + ['def %s (%s : Int) : Ret :=\n%s' % (self.name, ' '.join(params), body)])


def _assigns(fn):
    """{target text: value node} for single-target assignments under fn (first occurrence wins), + ordered list"""
    d, order = {}, []
    for n in sorted((m for m in ast.walk(fn) if isinstance(m, ast.Assign) and len(m.targets) == 1), key=lambda m: (m.lineno, m.col_offset)):
        t = ast.unparse(n.targets[0])
        order.append((t, n.value))
        d.setdefault(t, n.value)
    return d, order


def _scale_of_int_call(v, what):
    """`int(<expr> * <number literal>)` -> (source text of <expr>, literal as int)"""
    X.expect(isinstance(v, ast.Call) and ast.unparse(v.func) == 'int' and len(v.args) == 1 and isinstance(v.args[0], ast.BinOp)
             and isinstance(v.args[0].op, ast.Mult) and isinstance(v.args[0].right, ast.Constant)
             and isinstance(v.args[0].right.value, (int, float)) and float(v.args[0].right.value).is_integer() and v.args[0].right.value > 0,
             '%s: expected int(<expr> * <positive integer-valued literal>), got %s' % (what, ast.unparse(v)))
    return ast.unparse(v.args[0].left), int(v.args[0].right.value)


def _ret_value(fn, what):
    rets = [n for n in ast.walk(fn) if isinstance(n, ast.Return)]
    X.expect(len(rets) == 1 and rets[0].value is not None, '%s: expected exactly one return' % what)
    return rets[0].value


def _one_struct(fn, what):
    sc = X.struct_calls(fn)
    X.expect(len(sc) == 1 and sc[0]['fmt'] is not None, '%s: expected one struct call with a literal format' % what)
    return sc[0]


def _ranges(fn):
    res = [(n.lineno, n.col_offset, ast.unparse(n.iter)) for n in ast.walk(fn) if isinstance(n, ast.For)]
    return [t for _, _, t in sorted(res)]


_MUTATORS = ('append', 'extend', 'pop', 'clear', 'remove', 'insert', 'sort', 'reverse', 'update', 'setdefault', 'popitem', 'add', 'discard')


def _self_stores(fn):
    """source text of everything under `fn` that changes the object: assignments / deletions whose target starts with `self.`
    and calls of mutating container methods on `self.<attr>` (in source order)"""
    res = []
    for n in ast.walk(fn):
        tg = []
        if isinstance(n, ast.Assign):
            tg = n.targets
        elif isinstance(n, (ast.AugAssign, ast.AnnAssign)):
            tg = [n.target]
        elif isinstance(n, ast.Delete):
            tg = n.targets
        flat = []
        for t in tg:
            flat += list(t.elts) if isinstance(t, (ast.Tuple, ast.List)) else [t]
        if any(ast.unparse(t).startswith('self.') for t in flat):
            res.append((n.lineno, n.col_offset, ast.unparse(n)))
        if isinstance(n, ast.Call) and isinstance(n.func, ast.Attribute) and n.func.attr in _MUTATORS \
                and ast.unparse(n.func.value).startswith('self.'):
            res.append((n.lineno, n.col_offset, ast.unparse(n)))
        if isinstance(n, ast.Call) and ast.unparse(n.func) in ('setattr', 'delattr'):
            res.append((n.lineno, n.col_offset, ast.unparse(n)))
    return [t for _, _, t in sorted(res)]


def _loop_dependences(fn, iter_text):
    """For the single `for <var> in <iter_text>:` loop of `fn`: what one iteration can see besides its own item.
    Returns (carried, accumulators, self_reads, calls):
      carried       local names READ in the body that are not (a) the loop variable, (b) assigned earlier in the same iteration
                    unconditionally at the top level of the body (or earlier inside the same compound statement), i.e. values that
                    flow in from before the loop or from a previous iteration;
      accumulators  outer names that occur in the body only as `name += ...` targets (the output being built);
      self_reads    `self.<attr>` expressions read in the body;
      calls         names of everything called in the body."""
    loops = [n for n in ast.walk(fn) if isinstance(n, ast.For) and ast.unparse(n.iter) == iter_text]
    X.expect(len(loops) == 1 and isinstance(loops[0].target, ast.Name), '%s: expected exactly one `for <name> in %s` loop' % (fn.name, iter_text))
    loop = loops[0]
    var = loop.target.id
    local_names = {a.arg for a in fn.args.args}
    for n in ast.walk(fn):
        if isinstance(n, ast.Name) and isinstance(n.ctx, (ast.Store, ast.Del)):
            local_names.add(n.id)
    aug_only = {}
    for n in ast.walk(loop):
        if isinstance(n, ast.AugAssign) and isinstance(n.target, ast.Name):
            aug_only.setdefault(n.target.id, True)
    for n in ast.walk(loop):
        if isinstance(n, ast.Name) and isinstance(n.ctx, ast.Load) and n.id in aug_only:
            aug_only[n.id] = False
        if isinstance(n, ast.Assign):
            for t in n.targets:
                for m in ast.walk(t):
                    if isinstance(m, ast.Name) and m.id in aug_only:
                        aug_only[m.id] = False
    accumulators = sorted(k for k, v in aug_only.items() if v)
    carried = []

    def names_stored(node):
        return {m.id for m in ast.walk(node) if isinstance(m, ast.Name) and isinstance(m.ctx, ast.Store)}

    def scan(stmts, defined):
        """walk statements in order; `defined` = names certainly assigned earlier in this iteration on this path"""
        defined = set(defined)
        for st in stmts:
            if isinstance(st, (ast.If, ast.For, ast.While, ast.Try, ast.With)):
                heads = [st.test] if isinstance(st, (ast.If, ast.While)) else [st.iter] if isinstance(st, ast.For) else \
                    [i.context_expr for i in st.items] if isinstance(st, ast.With) else []
                for h in heads:
                    check(h, defined)
                inner = set(defined)
                if isinstance(st, ast.For):
                    inner |= names_stored(st.target)
                for blk in ('body', 'orelse', 'finalbody'):
                    scan(getattr(st, blk, []) or [], inner)
                for hd in getattr(st, 'handlers', []) or []:
                    scan(hd.body, inner)
                # names assigned inside a compound statement are only conditionally defined afterwards
                if isinstance(st, ast.If) and st.orelse:
                    both = names_top(st.body) & names_top(st.orelse)
                    defined |= both
            else:
                if isinstance(st, ast.AugAssign):
                    check(st.value, defined)
                    if isinstance(st.target, ast.Name):
                        if st.target.id not in accumulators and st.target.id not in defined:
                            note(st.target.id)
                    else:
                        check(st.target, defined)
                else:
                    check(st, defined)
                defined |= names_stored(st)

    def names_top(stmts):
        out = set()
        for st in stmts:
            if not isinstance(st, (ast.If, ast.For, ast.While, ast.Try, ast.With)):
                out |= names_stored(st)
        return out

    def note(name):
        if name not in carried:
            carried.append(name)

    def check(node, defined):
        for m in ast.walk(node):
            if isinstance(m, ast.Name) and isinstance(m.ctx, ast.Load) and m.id != var and m.id not in defined and m.id in local_names \
                    and m.id != 'self':
                note(m.id)
    scan(loop.body, set())
    self_reads = sorted({ast.unparse(m) for st in loop.body for m in ast.walk(st)
                         if isinstance(m, ast.Attribute) and isinstance(m.ctx, ast.Load) and ast.unparse(m).startswith('self.')
                         and not any(isinstance(p, ast.Attribute) and p.value is m for p in ast.walk(st))})
    calls = sorted({ast.unparse(m.func) for st in loop.body for m in ast.walk(st) if isinstance(m, ast.Call)})
    return carried, accumulators, self_reads, calls


def _init_assigns(fn):
    """(`self.a = <expr>` texts of an __init__, those whose value is NOT a bare parameter name or a literal)"""
    params = {a.arg for a in fn.args.args}
    texts, odd = [], []
    for n in sorted((m for m in ast.walk(fn) if isinstance(m, (ast.Assign, ast.AugAssign, ast.AnnAssign))), key=lambda m: (m.lineno, m.col_offset)):
        t = ast.unparse(n)
        if not t.startswith('self.'):
            continue
        texts.append(t)
        v = getattr(n, 'value', None)
        if not (isinstance(n, ast.Assign) and ((isinstance(v, ast.Name) and v.id in params) or isinstance(v, ast.Constant))):
            odd.append(t)
    return texts, odd


def extract(ctx):
    files = ['cflib/utils/encoding.py', 'cflib/crazyflie/mem/trajectory_memory.py', 'cflib/crazyflie/mem/led_driver_memory.py',
             'cflib/crazyflie/mem/led_timings_driver_memory.py', 'cflib/crazyflie/localization.py']
    g = X.GenFile(PID, files)
    g.raw(PRELUDE)
    enc = X.parse('cflib/utils/encoding.py')
    g.raw('/-! ### cflib/utils/encoding.py: fp16_to_float (translated) -/\n')
    g.raw(FuncTranslator(enc, X.find(enc, 'fp16_to_float'), 'fp16_to_float').render())

    # ---- quaternion compression ----------------------------------------------------------------
    g.raw('\n/-! ### cflib/utils/encoding.py: compress_quaternion / decompress_quaternion -/\n')
    cq = X.find(enc, 'compress_quaternion')
    ca, corder = _assigns(cq)
    for k in ('quat_n', 'i_largest', 'negate', 'M_SQRT1_2', 'comp', 'negbit', 'mag'):
        X.expect(k in ca, 'compress_quaternion: assignment to %s not found' % k)
    g.string('cqNormalise', ast.unparse(ca['quat_n']))
    g.string('cqNegate', ast.unparse(ca['negate']))
    g.string('cqSqrtHalf', ast.unparse(ca['M_SQRT1_2']))
    g.string('cqNegbit', ast.unparse(ca['negbit']))
    g.strings('cqCompares', X.compares(cq))
    g.strings('cqRanges', _ranges(cq))
    g.strings('cqCompAssigns', [ast.unparse(v) for t, v in corder if t == 'comp'])
    # mag = int(<scale> * (abs(quat_n[i]) / M_SQRT1_2) + 0.5)
    m = ca['mag']
    X.expect(isinstance(m, ast.Call) and ast.unparse(m.func) == 'int' and len(m.args) == 1 and isinstance(m.args[0], ast.BinOp)
             and isinstance(m.args[0].op, ast.Add) and isinstance(m.args[0].left, ast.BinOp) and isinstance(m.args[0].left.op, ast.Mult),
             'compress_quaternion: mag expression has an unexpected shape: ' + ast.unparse(m))
    g.raw('def cqScale : Int := ' + E(m.args[0].left.left, {}))
    g.string('cqMagOperand', ast.unparse(m.args[0].left.right))
    g.string('cqMagRounding', ast.unparse(m.args[0].right))
    push = [v for t, v in corder if t == 'comp'][-1]
    g.raw('def cqPush (comp negbit mag : Int) : Int := ' + E(push, {'comp': 'comp', 'negbit': 'negbit', 'mag': 'mag'}))
    g.string('cqReturn', ast.unparse(_ret_value(cq, 'compress_quaternion')))
    dq = X.find(enc, 'decompress_quaternion')
    da, dorder = _assigns(dq)
    for k in ('mask', 'i_largest', 'mag', 'negbit', 'comp', 'q[i]', 'q[i_largest]', 'sum_squares'):
        X.expect(k in da, 'decompress_quaternion: assignment to %s not found' % k)
    g.raw('def dqMask : Int := ' + E(da['mask'], {}))
    env = {'comp': 'comp', 'mask': 'dqMask'}
    g.raw('def dqLargest (comp : Int) : Int := ' + E(da['i_largest'], env))
    g.raw('def dqMag (comp : Int) : Int := ' + E(da['mag'], env))
    g.raw('def dqNegbit (comp : Int) : Int := ' + E(da['negbit'], env))
    g.raw('def dqNext (comp : Int) : Int := ' + E(da['comp'], env))
    g.strings('dqStmtOrder', [t for t, _ in dorder])
    g.strings('dqCompares', X.compares(dq))
    g.strings('dqRanges', _ranges(dq))
    g.strings('dqComponent', [ast.unparse(v) for t, v in dorder if t == 'q[i]'])
    g.string('dqLargestComponent', ast.unparse(da['q[i_largest]']))
    g.strings('dqAugAssigns', [ast.unparse(n) for n in ast.walk(dq) if isinstance(n, ast.AugAssign)])
    g.string('dqReturn', ast.unparse(_ret_value(dq, 'decompress_quaternion')))

    # ---- compressed trajectories -----------------------------------------------------------------
    g.raw('\n/-! ### cflib/crazyflie/mem/trajectory_memory.py -/\n')
    tm = X.parse('cflib/crazyflie/mem/trajectory_memory.py')
    operand, k = _scale_of_int_call(_ret_value(X.find(tm, '_CompressedBase._encode_spatial'), '_encode_spatial'), '_encode_spatial')
    g.string('spatialOperand', operand)
    g.nat('spatialScale', k)
    operand, k = _scale_of_int_call(_ret_value(X.find(tm, '_CompressedBase._encode_yaw'), '_encode_yaw'), '_encode_yaw')
    g.string('yawOperand', operand)
    g.nat('yawScale', k)
    g.string('spatialElement', ast.unparse(_ret_value(X.find(tm, '_CompressedBase._encode_spatial_element'), '_encode_spatial_element')))
    g.string('yawElement', ast.unparse(_ret_value(X.find(tm, '_CompressedBase._encode_yaw_element'), '_encode_yaw_element')))
    sc = _one_struct(X.find(tm, 'CompressedStart.pack'), 'CompressedStart.pack')
    g.string('startFmt', sc['fmt'])
    g.strings('startArgs', sc['args'])
    seg = X.find(tm, 'CompressedSegment.pack')
    sa, _ = _assigns(seg)
    X.expect('element_types' in sa and 'duration_ms' in sa, 'CompressedSegment.pack: element_types / duration_ms not found')
    tenv = {'self._encode_type(self.x)': 'tx', 'self._encode_type(self.y)': 'ty', 'self._encode_type(self.z)': 'tz',
            'self._encode_type(self.yaw)': 'tyaw'}
    g.raw('def segTypes (tx ty tz tyaw : Int) : Int := ' + E(sa['element_types'], tenv))
    operand, k = _scale_of_int_call(sa['duration_ms'], 'duration_ms')
    g.string('durationOperand', operand)
    g.nat('durationScale', k)
    sc = _one_struct(seg, 'CompressedSegment.pack')
    g.string('segHeadFmt', sc['fmt'])
    g.strings('segHeadArgs', sc['args'])
    g.strings('segElementCalls', [ast.unparse(n.value) for n in sorted((m for m in ast.walk(seg) if isinstance(m, ast.AugAssign)), key=lambda m: m.lineno)])
    sc = _one_struct(X.find(tm, 'CompressedSegment._pack_element'), '_pack_element')
    g.string('segElemFmt', sc['fmt'])
    g.strings('segElemArgs', sc['args'])
    g.raw(FuncTranslator(tm, X.find(tm, 'CompressedSegment._encode_type'), 'segEncodeType', params=['n'], env={'len(element)': 'n'}).render())
    g.strings('segValidateCompares', X.compares(X.find(tm, 'CompressedSegment._validate')))
    g.strings('segInitValidates', [ast.unparse(n.value) for n in X.find(tm, 'CompressedSegment.__init__').body
                                   if isinstance(n, ast.Expr) and isinstance(n.value, ast.Call)])

    # objects: what the constructors keep and what the serialisers change (repeated use of one object)
    texts, odd = _init_assigns(X.find(tm, 'CompressedStart.__init__'))
    g.strings('startInitAssigns', texts)
    g.strings('startInitDerived', odd)
    texts, odd = _init_assigns(X.find(tm, 'CompressedSegment.__init__'))
    g.strings('segInitAssigns', texts)
    g.strings('segInitDerived', odd)
    g.strings('startPackStores', _self_stores(X.find(tm, 'CompressedStart.pack')))
    g.strings('segPackStores', _self_stores(seg) + _self_stores(X.find(tm, 'CompressedSegment._pack_element'))
              + _self_stores(X.find(tm, 'CompressedSegment._encode_type')) + _self_stores(X.find(tm, 'CompressedSegment._validate'))
              + sum((_self_stores(X.find(tm, '_CompressedBase.' + m)) for m in ('_encode_spatial', '_encode_spatial_element', '_encode_yaw', '_encode_yaw_element')), []))
    tw = X.find(tm, 'TrajectoryMemory.write_data')
    g.strings('trajWriteStores', _self_stores(tw))
    g.strings('trajWriteLoops', ['for %s in %s: %s' % (ast.unparse(n.target), ast.unparse(n.iter), '; '.join(ast.unparse(b) for b in n.body))
                                 for n in ast.walk(tw) if isinstance(n, ast.For)])
    g.strings('trajWriteCalls', [ast.unparse(n) for n in ast.walk(tw) if isinstance(n, ast.Call) and ast.unparse(n.func).endswith('mem_handler.write')])

    # ---- LED ring ---------------------------------------------------------------------------------
    g.raw('\n/-! ### cflib/crazyflie/mem/led_driver_memory.py -/\n')
    led = X.find(X.parse('cflib/crazyflie/mem/led_driver_memory.py'), 'LEDDriverMemory.write_data')
    la, _ = _assigns(led)
    for name, attr in (('R5', 'led.r'), ('G6', 'led.g'), ('B5', 'led.b')):
        X.expect(name in la, 'LEDDriverMemory.write_data: %s not found' % name)
        v = la[name]
        # <component expr> * led.intensity / 100
        X.expect(isinstance(v, ast.BinOp) and isinstance(v.op, ast.Div) and isinstance(v.left, ast.BinOp) and isinstance(v.left.op, ast.Mult),
                 'LEDDriverMemory.write_data: %s is not <component> * <intensity> / <const>: %s' % (name, ast.unparse(v)))
        g.raw('def led%s (c : Int) : Int := %s' % (name, E(v.left.left, {attr: 'c'})))
        g.string('led%sIntensity' % name, ast.unparse(v.left.right))
        X.expect(isinstance(v.right, ast.Constant) and isinstance(v.right.value, int) and v.right.value > 0, 'LED intensity divisor is not a positive int literal')
        g.nat('led%sDivisor' % name, v.right.value)
    X.expect('tmp' in la, 'LEDDriverMemory.write_data: tmp not found')
    g.raw('def ledPack (r5 g6 b5 : Int) : Int := ' + E(la['tmp'], {'R5': 'r5', 'G6': 'g6', 'B5': 'b5'}))
    aug = [n for n in ast.walk(led) if isinstance(n, ast.AugAssign)]
    X.expect(len(aug) == 1 and isinstance(aug[0].value, ast.Call) and ast.unparse(aug[0].value.func) == 'bytearray'
             and len(aug[0].value.args) == 1 and isinstance(aug[0].value.args[0], ast.Tuple) and len(aug[0].value.args[0].elts) == 2,
             'LEDDriverMemory.write_data: expected data += bytearray((hi, lo))')
    hi, lo = aug[0].value.args[0].elts
    g.raw('def ledHi (tmp : Int) : Int := ' + E(hi, {'tmp': 'tmp'}))
    g.raw('def ledLo (tmp : Int) : Int := ' + E(lo, {'tmp': 'tmp'}))
    g.strings('ledRanges', _ranges(led))
    ledcls = X.find(X.parse('cflib/crazyflie/mem/led_driver_memory.py'), 'LEDDriverMemory.__init__')
    g.strings('ledInitRanges', _ranges(ledcls))
    ledmod = X.parse('cflib/crazyflie/mem/led_driver_memory.py')
    texts, _ = _init_assigns(X.find(ledmod, 'LED.__init__'))
    g.strings('ledObjInit', texts)
    lset = X.find(ledmod, 'LED.set')
    g.strings('ledSetStores', _self_stores(lset))
    g.strings('ledSetTests', [ast.unparse(n.test) for n in ast.walk(lset) if isinstance(n, ast.If)])
    g.strings('ledWriteStores', _self_stores(led))
    carried, acc, reads, calls = _loop_dependences(led, 'self.leds')
    g.strings('ledLoopCarried', carried)
    g.strings('ledLoopAccumulators', acc)
    g.strings('ledLoopSelfReads', reads)
    g.strings('ledLoopCalls', calls)
    g.strings('ledWriteCalls', [ast.unparse(n) for n in ast.walk(led) if isinstance(n, ast.Call) and ast.unparse(n.func).endswith('mem_handler.write')])

    g.raw('\n/-! ### cflib/crazyflie/mem/led_timings_driver_memory.py -/\n')
    lt = X.find(X.parse('cflib/crazyflie/mem/led_timings_driver_memory.py'), 'LEDTimingsDriverMemory.write_data')
    ta, _ = _assigns(lt)
    for name, key in (('R5', 'r'), ('G6', 'g'), ('B5', 'b')):
        X.expect(name in ta, 'LEDTimingsDriverMemory.write_data: %s not found' % name)
        g.raw('def ledt%s (c : Int) : Int := %s' % (name, E(ta[name], {"timing['rgb']['%s']" % key: 'c'})))
    X.expect('led' in ta and 'extra' in ta, 'LEDTimingsDriverMemory.write_data: led / extra not found')
    g.raw('def ledtPack (r5 g6 b5 : Int) : Int := ' + E(ta['led'], {'R5': 'r5', 'G6': 'g6', 'B5': 'b5'}))
    tenv = {"timing['leds']": 'leds', "timing['fade']": 'fade', "timing['rotate']": 'rotate', "timing['time']": 'time', 'led': 'led', 'extra': 'extra'}
    g.raw('def ledtExtra (leds fade rotate : Int) : Int := ' + E(ta['extra'], tenv))
    ifs = [n for n in ast.walk(lt) if isinstance(n, ast.If) and 'led' in ast.unparse(n.test)]
    X.expect(len(ifs) == 1 and not ifs[0].orelse and len(ifs[0].body) == 1 and isinstance(ifs[0].body[0], ast.AugAssign)
             and isinstance(ifs[0].body[0].value, ast.List), 'LEDTimingsDriverMemory.write_data: expected `if <cond>: data += [..]`')
    g.raw('def ledtKeep (time led extra : Int) : Bool := ' + T(ifs[0].test, tenv))
    els = ifs[0].body[0].value.elts
    g.raw('def ledtEntry (time led extra : Int) : List Int := [' + ', '.join(E(e, tenv) for e in els) + ']')
    term = [n for n in ast.walk(lt) if isinstance(n, ast.AugAssign) and n is not ifs[0].body[0]]
    X.expect(len(term) == 1 and isinstance(term[0].value, ast.List), 'LEDTimingsDriverMemory.write_data: terminator not found')
    g.raw('def ledtTerminator : List Int := [' + ', '.join(E(e, {}) for e in term[0].value.elts) + ']')
    ltmod = X.parse('cflib/crazyflie/mem/led_timings_driver_memory.py')
    g.strings('ledtWriteStores', _self_stores(lt))
    carried, acc, reads, calls = _loop_dependences(lt, 'self.timings')
    g.strings('ledtLoopCarried', carried)
    g.strings('ledtLoopAccumulators', acc)
    g.strings('ledtLoopSelfReads', reads)
    g.strings('ledtLoopCalls', calls)
    g.strings('ledtWriteLoops', [ast.unparse(n.iter) for n in ast.walk(lt) if isinstance(n, ast.For)])
    g.strings('ledtAddStores', _self_stores(X.find(ltmod, 'LEDTimingsDriverMemory.add')))
    g.strings('ledtWriteCalls', [ast.unparse(n) for n in ast.walk(lt) if isinstance(n, ast.Call) and ast.unparse(n.func).endswith('mem_handler.write')])

    # ---- localization --------------------------------------------------------------------------------
    g.raw('\n/-! ### cflib/crazyflie/localization.py -/\n')
    loc = X.parse('cflib/crazyflie/localization.py')
    consts = X.int_assigns(X.find(loc, 'Localization'))
    for k in ('RANGE_STREAM_REPORT', 'LH_ANGLE_STREAM', 'LH_PERSIST_DATA'):
        X.expect(k in consts, 'Localization.%s not found' % k)
    g.nat('locRangeStreamReport', consts['RANGE_STREAM_REPORT'])
    g.nat('locLhAngleStream', consts['LH_ANGLE_STREAM'])
    g.nat('locLhPersistData', consts['LH_PERSIST_DATA'])
    inc = X.find(loc, 'Localization._incoming')
    sc = X.struct_calls(inc)
    g.strings('incFmts', [c['fmt'] or '?' for c in sc])
    g.strings('incArgs', [','.join(c['args']) for c in sc])
    g.strings('incCompares', X.compares(inc))
    ia, iorder = _assigns(inc)
    g.strings('incAssigns', ['%s = %s' % (t, ast.unparse(v)) for t, v in iorder])
    g.strings('incRanges', _ranges(inc))
    lh = X.find(loc, 'Localization._decode_lh_angle')
    sc = _one_struct(lh, '_decode_lh_angle')
    g.string('lhFmt', sc['fmt'])
    g.strings('lhArgs', sc['args'])
    _, lorder = _assigns(lh)
    g.strings('lhAssigns', ['%s = %s' % (t, ast.unparse(v)) for t, v in lorder if t != 'raw_data'])
    g.strings('incStores', _self_stores(inc) + _self_stores(lh))
    g.strings('incCalls', [ast.unparse(n) for n in ast.walk(inc) if isinstance(n, ast.Call) and ast.unparse(n.func).startswith('self.') and 'logger' not in ast.unparse(n.func)])
    imports = [ast.unparse(n) for n in loc.body if isinstance(n, ast.ImportFrom) and any(a.name == 'fp16_to_float' for a in n.names)]
    g.strings('lhFp16Import', imports)
    text = g.render()
    return {'C13.lean': text}


# ======================================================================================================
# Tie B: the real code, canonicalised
# ======================================================================================================
def _quiet():
    import logging
    import warnings
    logging.disable(logging.CRITICAL)
    warnings.filterwarnings('ignore')


def _exc(e):
    from harness.lib.common import exc_enum
    return 'err ' + exc_enum(e)


def canon_num(x):
    """canonical text of a Python number returned by a codec: `int:<v>` or `f32:<binary32 bits>` (`f32:nan` for NaNs:
    CPython does not preserve NaN payloads across the binary32 -> binary64 widening, only NaN-ness is observable)"""
    import math
    import struct
    if isinstance(x, bool) or not isinstance(x, (int, float)):
        return 'other:' + type(x).__name__
    if isinstance(x, int):
        return 'int:%d' % x
    if math.isnan(x):
        return 'f32:nan'
    try:
        b = struct.pack('<f', x)
    except OverflowError:
        return 'f64:%s' % struct.pack('>d', x).hex()
    if struct.unpack('<f', b)[0] != x:
        return 'f64:%s' % struct.pack('>d', x).hex()      # not a binary32 value
    return 'f32:%d' % struct.unpack('<I', b)[0]


def fold_nan32(tok):
    """`f32:<bits>` -> `f32:nan` when the pattern is a NaN (see canon_num)"""
    if tok.startswith('f32:') and tok[4:].isdigit():
        b = int(tok[4:])
        if (b >> 23) & 0xFF == 0xFF and b & 0x7FFFFF:
            return 'f32:nan'
    return tok


def canon_f64(x):
    import math
    import struct
    if isinstance(x, bool) or not isinstance(x, (int, float)):
        return 'other:' + type(x).__name__
    if isinstance(x, int):
        return 'int:%d' % x
    return 'f64:nan' if math.isnan(x) else 'f64:' + struct.pack('>d', x).hex()


def real_fp16(v):
    from cflib.utils.encoding import fp16_to_float
    try:
        return 'ok ' + canon_num(fp16_to_float(v))
    except Exception as e:
        return _exc(e)


# ---- quaternions ----------------------------------------------------------------------------------
def to_int_quat(q):
    """exact integer quaternion proportional to the float quaternion q (scale by the common denominator)"""
    from fractions import Fraction
    from math import lcm
    fr = [Fraction(float(x)) for x in q]
    d = 1
    for f in fr:
        d = lcm(d, f.denominator)
    return [int(f * d) for f in fr]


QS = 511


def quat_fields(comp):
    """(i_largest, [(negbit, mag) for the three stored components in index order])"""
    out = []
    c = comp
    for _ in range(3):
        out.append(((c >> 9) & 1, c & 511))
        c >>= 10
    return c, out[::-1]


def quat_near_tie(v):
    """for an integer quaternion: (largest-selection is numerically ambiguous?, set of stored-component positions
    whose magnitude is within 1e-6 of a rounding boundary of int(511*sqrt2*|x| + 0.5))"""
    import math
    from fractions import Fraction
    n = sum(x * x for x in v)
    ab = [abs(x) for x in v]
    amb = False
    for i in range(4):
        for j in range(i + 1, 4):
            if ab[i] != ab[j] and abs(ab[i] - ab[j]) <= 1e-12 * max(ab[i], ab[j]):
                amb = True
    il = 0
    for i in range(1, 4):
        if ab[i] > ab[il]:
            il = i
    near = set()
    pos = 0
    for i in range(4):
        if i == il:
            continue
        X8 = Fraction(8 * QS * QS * v[i] * v[i], n)
        t = math.sqrt(float(X8))            # = 2*y ; boundaries at odd integers
        k = round((t - 1) / 2) * 2 + 1
        if abs(t - k) < 1e-6:
            near.add(pos)
        pos += 1
    return amb, near


def real_cq(q):
    from cflib.utils.encoding import compress_quaternion
    try:
        r = compress_quaternion(list(q))
        return 'ok %d' % int(r)
    except Exception as e:
        return _exc(e)


def cmp_cq(model, real, v):
    """equal, or differing only in a magnitude that sits on a rounding boundary of the binary64 evaluation"""
    if model == real:
        return True, 'exact'
    if not (model.startswith('ok ') and real.startswith('ok ')):
        return False, 'mismatch'
    amb, near = quat_near_tie(v)
    if amb:
        return True, 'ambiguous-largest'
    (ia, fa), (ib, fb) = quat_fields(int(model[3:])), quat_fields(int(real[3:]))
    if ia != ib:
        return False, 'mismatch'
    for pos, (x, y) in enumerate(zip(fa, fb)):
        if x == y:
            continue
        if pos in near and x[0] == y[0] and abs(x[1] - y[1]) <= 1:
            continue
        return False, 'mismatch'
    return True, 'rounding-boundary'


def dq_expected(model):
    """numeric glue of decompress_quaternion applied to the model's integer parts: q[i] = ±mag/511/sqrt(2) in binary64,
    q[i_largest] = sqrt(1 - sum of squares accumulated in processing order)"""
    import numpy as np
    if not model.startswith('ok '):
        return model
    il, comps = model[3:].split(' ')
    il = int(il)
    q = [0.0] * 4
    ss = 0
    for c in ([] if comps == '-' else comps.split(',')):
        i, neg, mag = (int(t) for t in c.split(':'))
        x = mag / QS / np.sqrt(2)
        if neg == 1:
            x = -x
        q[i] = x
        ss += x * x
    with np.errstate(all='ignore'):
        q[il] = np.sqrt(1.0 - ss)
    return 'ok ' + ' '.join(canon_f64(float(x)) for x in q)


def real_dq(comp):
    import numpy as np
    from cflib.utils.encoding import decompress_quaternion
    try:
        with np.errstate(all='ignore'):
            r = decompress_quaternion(comp)
        return 'ok ' + ' '.join(canon_f64(float(x)) for x in r)
    except Exception as e:
        return _exc(e)


# ---- trajectories ---------------------------------------------------------------------------------
def qtxt(x):
    from fractions import Fraction
    f = Fraction(float(x))
    return '%d/%d' % (f.numerator, f.denominator)


def on_boundary(x, k):
    """binary64 product x*k is an integer although the exact product is not: int(x*k) then legitimately differs from
    the truncation of the exact product (by one unit, still less than one unit away from it)"""
    from fractions import Fraction
    import math
    p = float(x) * k
    return math.isfinite(p) and p == int(p) and Fraction(float(x)) * k != int(p)


def _base():
    from cflib.crazyflie.mem.trajectory_memory import _CompressedBase
    return _CompressedBase()


def real_spatial(x):
    try:
        return 'ok %d' % _base()._encode_spatial(x)
    except Exception as e:
        return _exc(e)


def real_yaw(a):
    try:
        return 'ok %d' % _base()._encode_yaw(a)
    except Exception as e:
        return _exc(e)


def real_start(x, y, z, yaw):
    from cflib.crazyflie.mem.trajectory_memory import CompressedStart
    try:
        return 'ok ' + bytes(CompressedStart(x, y, z, yaw).pack()).hex()
    except Exception as e:
        return _exc(e)


def real_segment(d, x, y, z, yaw):
    from cflib.crazyflie.mem.trajectory_memory import CompressedSegment
    import struct
    try:
        return 'ok ' + bytes(CompressedSegment(d, x, y, z, yaw).pack()).hex()
    except struct.error as e:
        return _exc(e)
    except Exception as e:
        return 'err other' if type(e) is Exception else _exc(e)


# ---- LEDs -----------------------------------------------------------------------------------------
class FakeMemHandler:
    def __init__(self):
        self.writes = []

    def write(self, mem, addr, data, flush_queue=False):
        self.writes.append((addr, bytes(data)))


def real_led(leds):
    """leds: 12 x (r, g, b, intensity)"""
    from cflib.crazyflie.mem.led_driver_memory import LEDDriverMemory
    h = FakeMemHandler()
    m = LEDDriverMemory(id=0, type=0x10, size=24, mem_handler=h)
    assert len(m.leds) == len(leds)
    for led, (r, g, b, i) in zip(m.leds, leds):
        led.set(r, g, b)
        led.intensity = i
    try:
        m.write_data(None)
        assert len(h.writes) == 1 and h.writes[0][0] == 0
        return 'ok ' + (h.writes[0][1].hex() or '-')
    except Exception as e:
        return _exc(e)


def real_ledt(ts):
    from cflib.crazyflie.mem.led_timings_driver_memory import LEDTimingsDriverMemory
    h = FakeMemHandler()
    m = LEDTimingsDriverMemory(id=0, type=0x17, size=2000, mem_handler=h)
    for (t, r, g, b, leds, fade, rot) in ts:
        m.add(t, {'r': r, 'g': g, 'b': b}, leds, bool(fade), rot)
    try:
        m.write_data(None)
        return 'ok ' + (h.writes[0][1].hex() or '-')
    except Exception as e:
        return _exc(e)


# ---- localization ---------------------------------------------------------------------------------
class _Pk:
    def __init__(self, data):
        self.data = bytearray(data)


def real_incoming(raw):
    from cflib.crazyflie.localization import Localization
    from cflib.utils.callbacks import Caller
    loc = Localization.__new__(Localization)
    loc.receivedLocationPacket = Caller()
    got = []
    loc.receivedLocationPacket.add_callback(got.append)
    try:
        loc._incoming(_Pk(raw))
    except Exception as e:
        return _exc(e)
    if not got:
        return 'ok dropped'
    assert len(got) == 1
    pk = got[0]
    d = pk.data
    if d is None:
        dec = 'none'
    elif isinstance(d, bool):
        dec = 'persist %d' % (1 if d else 0)
    elif isinstance(d, dict) and 'basestation' in d:
        dec = 'lh %d %s %s' % (d['basestation'], ';'.join(canon_f64(v) for v in d['x']), ';'.join(canon_f64(v) for v in d['y']))
    elif isinstance(d, dict):
        dec = 'ranges ' + (','.join('%d:%s' % (k, canon_num(d[k])) for k in sorted(d)) or '-')
    else:
        dec = 'other'
    return 'ok %d %s %s' % (pk.type, bytes(pk.raw_data).hex() or '-', dec)


def canon_model_incoming(reply):
    """apply the numeric glue to the model's symbolic angles: base -> the binary32 value widened; sub -> binary64 subtraction"""
    from harness.lib.common import bits_f32
    if not reply.startswith('ok ') or reply == 'ok dropped':
        return reply
    w = reply.split(' ')
    if w[3] == 'ranges' and w[4] != '-':
        w[4] = ','.join(e.split(':')[0] + ':' + fold_nan32('f32:' + e.split(':')[1]) for e in w[4].split(','))
    if w[3] == 'lh':
        def ang(t):
            if t[0] == 'b':
                return canon_f64(bits_f32(int(t[1:])))
            base, kind, val = t[1:].split(':')
            off = bits_f32(int(val)) if kind == 'f32' else int(val)
            return canon_f64(bits_f32(int(base)) - off)
        w[5] = ';'.join(ang(t) for t in w[5].split(';'))
        w[6] = ';'.join(ang(t) for t in w[6].split(';'))
    return ' '.join(w)


# ---- repeated use of one object ------------------------------------------------------------------------
def _res(thunk):
    """one result in the `r1;r2;...` notation of the history ops: hex bytes or E:<exception enum>"""
    import struct
    from harness.lib.common import exc_enum
    try:
        return bytes(thunk()).hex() or '-'
    except struct.error as e:
        return 'E:' + exc_enum(e)
    except Exception as e:
        return 'E:other' if type(e) is Exception else 'E:' + exc_enum(e)


def make_elem(spec):
    """spec: ('S', x, y, z, yaw) | ('G', duration, xs, ys, zs, yaws)  (floats; yaw in radians)"""
    from cflib.crazyflie.mem.trajectory_memory import CompressedSegment, CompressedStart
    if spec[0] == 'S':
        return CompressedStart(*spec[1:])
    return CompressedSegment(*spec[1:])


def elem_txt(spec):
    import math
    if spec[0] == 'S':
        return 'S|%s|%s|%s|%s' % (qtxt(spec[1]), qtxt(spec[2]), qtxt(spec[3]), qtxt(math.degrees(spec[4])))
    return 'G|%s|%s|%s|%s|%s' % (qtxt(spec[1]), ','.join(qtxt(v) for v in spec[2]) or '-', ','.join(qtxt(v) for v in spec[3]) or '-',
                                 ','.join(qtxt(v) for v in spec[4]) or '-', ','.join(qtxt(math.degrees(a)) for a in spec[5]) or '-')


def real_packhist(spec, n):
    """ONE object, n successive pack() calls"""
    try:
        e = make_elem(spec)
    except Exception as ex:
        return 'err other' if type(ex) is Exception else _exc(ex)
    return 'ok ' + (';'.join(_res(e.pack) for _ in range(n)) or '-')


def upload_all(elems, n):
    """the same trajectory LIST (same element objects) uploaded n times: to a fresh TrajectoryMemory each time, except every
    third upload which re-uses the previous memory object at another start address.  Returns the n results: bytes or the exception."""
    from cflib.crazyflie.mem.trajectory_memory import TrajectoryMemory
    out = []
    mem = None
    for k in range(n):
        if mem is None or k % 3 != 2:
            mem = TrajectoryMemory(id=k, type=0x12, size=4096, mem_handler=FakeMemHandler())
            mem.trajectory = elems
        addr = 0 if k % 3 != 2 else 512
        before = len(mem.mem_handler.writes)
        try:
            ln = mem.write_data(None, start_addr=addr)
            w = mem.mem_handler.writes[before:]
            assert len(w) == 1 and w[0][0] == addr and ln == len(w[0][1]), (w, ln)
            out.append(w[0][1])
        except AssertionError:
            raise
        except Exception as e:
            out.append(e)
    return out


def _res_of(v):
    return _res(lambda: (_ for _ in ()).throw(v)) if isinstance(v, Exception) else (bytes(v).hex() or '-')


def real_trajhist(specs, n):
    try:
        elems = [make_elem(sp) for sp in specs]
    except Exception as ex:
        return 'err other' if type(ex) is Exception else _exc(ex)
    return 'ok ' + (';'.join(_res_of(v) for v in upload_all(elems, n)) or '-')


def real_ledhist(ops):
    """ops on ONE LEDDriverMemory: ('s', i, r, g, b, intensity|None) | ('i', i, v) | ('w',)"""
    from cflib.crazyflie.mem.led_driver_memory import LEDDriverMemory
    h = FakeMemHandler()
    m = LEDDriverMemory(id=0, type=0x10, size=24, mem_handler=h)
    out = []
    for op in ops:
        if op[0] == 's':
            m.leds[op[1]].set(op[2], op[3], op[4], op[5])
        elif op[0] == 'i':
            m.leds[op[1]].intensity = op[2]
        else:
            n0 = len(h.writes)
            out.append(_res(lambda: (m.write_data(None), h.writes[n0][1])[1]))
    return 'ok ' + (';'.join(out) or '-')


def ledop_txt(op):
    if op[0] == 's':
        return 's%d:%d:%d:%d:%s' % (op[1], op[2], op[3], op[4], '-' if op[5] is None else str(op[5]))
    return 'i%d:%d' % (op[1], op[2]) if op[0] == 'i' else 'w'


def real_ledthist(ops):
    """ops on ONE LEDTimingsDriverMemory: ('a', time, r, g, b, leds, fade, rotate) | ('w',)"""
    from cflib.crazyflie.mem.led_timings_driver_memory import LEDTimingsDriverMemory
    h = FakeMemHandler()
    m = LEDTimingsDriverMemory(id=0, type=0x17, size=2000, mem_handler=h)
    out = []
    for op in ops:
        if op[0] == 'a':
            m.add(op[1], {'r': op[2], 'g': op[3], 'b': op[4]}, op[5], bool(op[6]), op[7])
        else:
            n0 = len(h.writes)
            out.append(_res(lambda: (m.write_data(None), h.writes[n0][1])[1]))
    return 'ok ' + (';'.join(out) or '-')


class LocStream:
    """ONE Localization object with one callback, fed packet after packet"""

    def __init__(self):
        from cflib.crazyflie.localization import Localization
        from cflib.utils.callbacks import Caller
        self.loc = Localization.__new__(Localization)
        self.loc.receivedLocationPacket = Caller()
        self.got = []
        self.loc.receivedLocationPacket.add_callback(self.got.append)

    def feed(self, raw):
        """the packets delivered to the callback for this one packet (exceptions propagate)"""
        n0 = len(self.got)
        self.loc._incoming(_Pk(raw))
        return self.got[n0:]


def canon_pk(got):
    if not got:
        return 'ok dropped'
    assert len(got) == 1
    pk = got[0]
    d = pk.data
    if d is None:
        dec = 'none'
    elif isinstance(d, bool):
        dec = 'persist %d' % (1 if d else 0)
    elif isinstance(d, dict) and 'basestation' in d:
        dec = 'lh %d %s %s' % (d['basestation'], ';'.join(canon_f64(v) for v in d['x']), ';'.join(canon_f64(v) for v in d['y']))
    elif isinstance(d, dict):
        dec = 'ranges ' + (','.join('%d:%s' % (k, canon_num(d[k])) for k in sorted(d)) or '-')
    else:
        dec = 'other'
    return 'ok %d %s %s' % (pk.type, bytes(pk.raw_data).hex() or '-', dec)


def real_inchist(raws):
    st = LocStream()
    out = []
    for raw in raws:
        try:
            out.append(canon_pk(st.feed(raw)))
        except Exception as e:
            out.append(_exc(e))
    return ' | '.join(out)


def real_bitop(op, a, b):
    import operator
    f = {'and': operator.and_, 'or': operator.or_, 'xor': operator.xor, 'shl': operator.lshift, 'shr': operator.rshift,
         'not': lambda x, _: ~x}[op]
    return 'ok %d' % f(a, b)


# ======================================================================================================
# generators
# ======================================================================================================
SPECIAL_F32 = [0x00000000, 0x80000000, 0x3F800000, 0xBF800000, 0x7F800000, 0xFF800000, 0x7FC00000, 0x00000001, 0x40490FDB,
               0xC0490FDB, 0x3FC90FDB, 0x7F7FFFFF, 0x3DCCCCCD]
SPECIAL_F16 = [0x0000, 0x8000, 0x3C00, 0xBC00, 0x7C00, 0xFC00, 0x7E00, 0xFE00, 0x0001, 0x8001, 0x03FF, 0x0400, 0x7BFF, 0xFBFF,
               0x3555, 0xB555, 0x2E66]


def gen_quats(rng, n_random):
    """float quaternions: axis/diagonal grid with all sign patterns (exact ties for the largest component), negated and
    unnormalised copies, near-equal components, tiny/huge scales, random directions"""
    import itertools
    import math
    out = []
    for pat in itertools.product([-1.0, 0.0, 1.0], repeat=4):
        if any(pat):
            out.append(('grid', list(pat)))
    for pat in itertools.product([-1.0, 1.0], repeat=4):
        out.append(('grid', [pat[0] * 0.5, pat[1] * 0.5, pat[2] * 0.5, pat[3] * 0.5]))
        out.append(('tie', [pat[0] * 3.0, pat[1] * 3.0, pat[2] * 1.0, pat[3] * 2.0]))
        out.append(('tie', [pat[0] * 1.0, pat[1] * 2.0, pat[2] * 2.0, pat[3] * 0.0]))
    for _ in range(80):
        # stored components placed (to within an ulp) ON a rounding boundary of int(511*sqrt2*|x| + 0.5): the binary64 evaluation
        # may legitimately land on either side; the exact model says which side the real number is on
        m1, m2 = rng.randrange(1, 300), rng.randrange(1, 300)
        x, y = (m1 - 0.5) / (511 * math.sqrt(2)), rng.choice([1, -1]) * (m2 - 0.5) / (511 * math.sqrt(2))
        q = [math.sqrt(1 - x * x - y * y), x, y, 0.0]
        rng.shuffle(q)
        out.append(('on-boundary', q))
    for _ in range(n_random):
        kind = rng.choice(['unit', 'unit', 'unnorm', 'small', 'axisish', 'twoeq', 'negzero'])
        q = [rng.gauss(0, 1) for _ in range(4)]
        n = math.sqrt(sum(x * x for x in q))
        q = [x / n for x in q]
        if kind == 'unnorm':
            sc = rng.choice([1e-3, 0.3, 7.0, 1234.5])
            q = [x * sc for x in q]
        elif kind == 'small':
            k = rng.randrange(4)
            q = [x if i == k else x * rng.choice([1e-3, 1e-2, 0.0]) for i, x in enumerate(q)]
        elif kind == 'axisish':
            k = rng.randrange(4)
            q = [(1.0 if i == k else rng.uniform(-0.01, 0.01)) for i in range(4)]
        elif kind == 'twoeq':
            i, j = rng.sample(range(4), 2)
            q[j] = rng.choice([1, -1]) * q[i]
        elif kind == 'negzero':
            q[rng.randrange(4)] = -0.0
        out.append((kind, q))
        if rng.random() < 0.3:
            out.append((kind + '-negated', [-x for x in q]))
    return out


def gen_rings(rng, n):
    """whole ring contents (12 x (r, g, b, intensity)) in which LEDs are NOT independent-looking: the same colour at different
    intensities, brightness gradients, all-equal rings, one differing LED, two alternating colours, repeated blocks"""
    def colour():
        r = rng.random()
        if r < 0.3:
            return rng.choice([(255, 255, 255), (0, 0, 0), (255, 0, 0), (0, 255, 0), (0, 0, 255), (128, 128, 128), (255, 255, 0)])
        if r < 0.5:
            c = rng.randrange(256)
            return (c, c, c)
        return (rng.randrange(256), rng.randrange(256), rng.randrange(256))
    out = []
    for k in range(n):
        kind = ['same-colour-intensities', 'gradient-up', 'gradient-down', 'all-equal', 'one-differs', 'one-dimmed', 'two-colours',
                'dim-first-then-full', 'blocks'][k % 9]
        c = colour()
        if kind == 'same-colour-intensities':
            ring = [c + (rng.randrange(101),) for _ in range(12)]
        elif kind == 'gradient-up':
            ring = [c + (min(100, (100 * j) // 11),) for j in range(12)]
        elif kind == 'gradient-down':
            ring = [c + (100 - (100 * j) // 11,) for j in range(12)]
        elif kind == 'all-equal':
            ring = [c + (rng.choice([100, 100, 50, 0, rng.randrange(101)]),)] * 12
        elif kind == 'one-differs':
            ring = [c + (100,)] * 12
            ring[rng.randrange(12)] = colour() + (rng.randrange(101),)
        elif kind == 'one-dimmed':
            ring = [c + (100,)] * 12
            ring[rng.randrange(12)] = c + (rng.choice([0, 1, 4, 50, 99]),)
        elif kind == 'two-colours':
            d = colour()
            ia, ib = rng.randrange(101), rng.randrange(101)
            ring = [(c + (rng.choice([ia, 100]),)) if j % 2 == 0 else (d + (rng.choice([ib, 100]),)) for j in range(12)]
        elif kind == 'dim-first-then-full':
            ring = [c + (rng.choice([0, 1, 4, 10]),)] + [c + (100,)] * 11
        else:
            blk = [colour() + (rng.randrange(101),) for _ in range(3)]
            ring = [blk[j % 3][:3] + (blk[j % 3][3] if j < 6 else rng.randrange(101),) for j in range(12)]
        out.append((kind, ring))
    return out


def gen_timing_seqs(rng, n):
    """timing sequences whose entries share colours but differ in time / leds / fade / rotate, and vice versa"""
    out = []
    for k in range(n):
        cols = [(rng.randrange(256), rng.randrange(256), rng.randrange(256)) for _ in range(rng.choice([1, 2, 3]))] + [(255, 255, 255), (0, 0, 0)]
        seq = []
        for _ in range(rng.randrange(2, 10)):
            c = rng.choice(cols)
            seq.append((rng.randrange(1, 256), c[0], c[1], c[2], rng.randrange(16), rng.randrange(2), rng.randrange(8)))
        if k % 3 == 0:
            seq = [seq[0]] * len(seq)
        out.append(seq)
    return out


def gen_cases(ctx):
    rng = ctx.rng
    thorough = ctx.tier == 'thorough'
    cases = []          # (kind, lean_line, real_thunk, desc, nontrivial_key, counter, post(model)->canonical, cmp or None)

    def add(kind, line, thunk, desc, key, cnt, post=None, cmp=None):
        cases.append((kind, line, thunk, desc, key, cnt, post, cmp))
    # ---- prelude self-test: the translated bit operators are Python's, for negative operands too
    for _ in range(300):
        op = rng.choice(['and', 'or', 'xor', 'shl', 'shr', 'not'])
        a = rng.choice([1, -1]) * rng.getrandbits(rng.choice([0, 3, 8, 16, 33, 70]))
        b = rng.randrange(0, 40) if op in ('shl', 'shr') else rng.choice([1, -1]) * rng.getrandbits(rng.choice([0, 3, 8, 16, 33, 70]))
        add('bitop', 'bitop %s %d %d' % (op, a, b), lambda op=op, a=a, b=b: real_bitop(op, a, b), {'op': 'bitop', 'f': op, 'a': a, 'b': b},
            ('bitop', op, a, b), 'bitop:' + op + (':neg' if a < 0 or b < 0 else ''))
    # ---- half floats: all 65536 patterns (unsigned reading) + the signed reading of the upper half + wider ints
    for h in range(65536):
        cls = 'zero' if h & 0x7FFF == 0 else 'sub' if (h >> 10) & 31 == 0 else 'inf' if h & 0x7FFF == 0x7C00 else \
            'nan' if (h >> 10) & 31 == 31 else 'normal'
        add('fp16', 'fp16 %d' % h, lambda v=h: real_fp16(v), {'op': 'fp16', 'h': h}, ('fp16', h), 'fp16:' + cls,
            post=lambda m: ' '.join(fold_nan32(t) for t in m.split(' ')))
    signed = range(-32768, 0) if thorough else sorted(set(list(range(-32768, 0, 7)) + [-1, -2, -1024, -1023, -31744, -31745, -32767]))
    for v in signed:
        add('fp16', 'fp16 %d' % v, lambda v=v: real_fp16(v), {'op': 'fp16', 'v': v}, ('fp16s', v), 'fp16:signed',
            post=lambda m: ' '.join(fold_nan32(t) for t in m.split(' ')))
    for _ in range(200):
        v = rng.choice([1, -1]) * rng.getrandbits(rng.choice([17, 20, 33, 70]))
        add('fp16', 'fp16 %d' % v, lambda v=v: real_fp16(v), {'op': 'fp16', 'v': v}, ('fp16w', v), 'fp16:wide',
            post=lambda m: ' '.join(fold_nan32(t) for t in m.split(' ')))
    # ---- quaternion compression
    for kind, q in gen_quats(rng, 6000 if thorough else 1200):
        v = to_int_quat(q)
        add('cq', 'cq %d %d %d %d' % tuple(v), lambda q=q: real_cq(q), {'op': 'compress', 'q': q}, ('cq', tuple(v)), 'cq:' + kind,
            cmp=lambda m, r, v=v: cmp_cq(m, r, v))
    add('cq', 'cq 0 0 0 0', lambda: real_cq([0.0, 0.0, 0.0, 0.0]), {'op': 'compress', 'q': [0, 0, 0, 0]}, ('cq', (0, 0, 0, 0)), 'cq:zero')
    # ---- quaternion decompression: every largest index x sign pattern, boundary magnitudes, random words, out-of-range words
    dq = []
    for il in range(4):
        for bits in range(8):
            for mags in ((0, 0, 0), (511, 511, 511), (361, 361, 361), (1, 510, 255)):
                c = il
                for k in range(3):
                    c = (c << 10) | (((bits >> k) & 1) << 9) | mags[k]
                dq.append(c)
    dq += [rng.getrandbits(32) for _ in range(3000 if thorough else 600)]
    dq += [0, 1, 2 ** 32 - 1, 2 ** 32, 2 ** 32 + 12345, 2 ** 33, 5 << 30, rng.getrandbits(40) | (1 << 39)]
    for c in dq:
        add('dq', 'dq %d' % c, lambda c=c: real_dq(c), {'op': 'decompress', 'comp': c}, ('dq', c), 'dq:' + ('range' if c < 2 ** 32 else 'too-big'),
            post=dq_expected)
    # ---- compressed trajectory coordinates / yaw
    import math
    coords = [0.0, -0.0, 0.001, -0.001, 0.0004, -0.0004, 0.0009999, 1.0, -1.0, 1.001, -1.001, 32.767, -32.768, 32.768, -32.769,
              32.7679, -32.7689, 32.76799999, 40.0, -40.0, 1e6, -1e6, 1e-9, 123.456789, 0.1, 0.2, 0.3, 2.675, 65.535, 65.536,
              5e-324, -5e-324, 2.2250738585072014e-308, 1e-320, 9007199254740.993, 9007199254740.992, 1.8e305, 1.7976931348623157e308,
              -1.7976931348623157e308, 1.7976931348623157e305, 1.797693134862315e305, 4503599627370.4965, 1e300, 123456789012.34567]
    coords += [rng.uniform(-33, 33) for _ in range(3000 if thorough else 500)]
    coords += [rng.uniform(-0.01, 0.01) for _ in range(100)]
    coords += [rng.choice([1, -1]) * (32.768 + rng.uniform(-0.003, 0.003)) for _ in range(200)]
    coords += [rng.randrange(-40000, 40000) / 1000.0 for _ in range(3000 if thorough else 600)]     # decimal millimetres: products near integers
    for x in coords:
        if on_boundary(x, 1000):
            ctx.count('spatial:binary64-product-rounds-to-integer')
        add('spatial', 'spatial ' + qtxt(x), lambda x=x: real_spatial(x), {'op': 'encode_spatial', 'x': x}, ('spatial', x),
            'spatial:' + ('in-range' if abs(x) < 32.767 else 'out-of-range' if abs(x) < 1e300 else 'huge'))
    angles = [0.0, math.pi, -math.pi, math.pi / 2, 2 * math.pi, 1e-4, -1e-4, 57.19, -57.2, 57.188, 3276.7 * math.pi / 180, 0.0174, -0.0174]
    angles += [rng.uniform(-7, 7) for _ in range(2000 if thorough else 400)]
    angles += [math.radians(rng.randrange(-36000, 36000) / 10.0) for _ in range(2000 if thorough else 400)]
    angles += [rng.choice([1, -1]) * math.radians(3276.8 + rng.uniform(-0.3, 0.3)) for _ in range(100)]
    for a in angles:
        deg = math.degrees(a)
        if on_boundary(deg, 10):
            ctx.count('yaw:binary64-product-rounds-to-integer')
        add('yaw', 'yaw ' + qtxt(deg), lambda a=a: real_yaw(a), {'op': 'encode_yaw', 'rad': a}, ('yaw', a),
            'yaw:' + ('in-range' if abs(deg) < 3276.7 else 'out-of-range'))

    def coord():
        r = rng.random()
        if r < 0.7:
            return rng.uniform(-32, 32)
        if r < 0.85:
            return rng.choice([1, -1]) * (32.768 + rng.uniform(-0.002, 0.002))
        if r < 0.95:
            return rng.randrange(-33000, 33000) / 1000.0
        return rng.uniform(-100, 100)

    def angle():
        r = rng.random()
        if r < 0.8:
            return rng.uniform(-7, 7)
        if r < 0.95:
            return rng.choice([1, -1]) * math.radians(3276.8 + rng.uniform(-0.2, 0.2))
        return rng.uniform(-100, 100)

    for _ in range(1500 if thorough else 300):
        x, y, z, w = coord(), coord(), coord(), angle()
        ok = all(abs(int(c * 1000)) <= 32767 for c in (x, y, z)) and abs(int(math.degrees(w) * 10)) <= 32767
        add('start', 'start %s %s %s %s' % (qtxt(x), qtxt(y), qtxt(z), qtxt(math.degrees(w))), lambda x=x, y=y, z=z, w=w: real_start(x, y, z, w),
            {'op': 'CompressedStart.pack', 'x': x, 'y': y, 'z': z, 'yaw': w}, ('start', x, y, z, w), 'start:' + ('ok' if ok else 'overflow'))
    for _ in range(1500 if thorough else 300):
        lens = [rng.choice([0, 1, 3, 7]) if rng.random() < 0.93 else rng.choice([2, 4, 5, 6, 8]) for _ in range(4)]
        small = rng.random() < 0.8
        el = [[(rng.uniform(-3, 3) if small else coord()) for _ in range(n)] for n in lens[:3]] + [[(rng.uniform(-3, 3) if small else angle()) for _ in range(lens[3])]]
        d = rng.choice([0.0, 0.5, 1.0, 2.5, 65.535, 65.536, 70.0, -0.5, rng.uniform(0, 66)])
        line = 'segment %s %s' % (qtxt(d), ' '.join((','.join(qtxt(v) for v in e) or '-') for e in el[:3]))
        line += ' ' + (','.join(qtxt(math.degrees(a)) for a in el[3]) or '-')
        add('segment', line, lambda d=d, el=el: real_segment(d, el[0], el[1], el[2], el[3]),
            {'op': 'CompressedSegment.pack', 'duration': d, 'lens': lens}, ('segment', d, tuple(map(tuple, el))),
            'segment:lens-' + ('valid' if all(n in (0, 1, 3, 7) for n in lens) else 'invalid'))
    # ---- LED ring: EVERY (level, intensity) pair on all three channels, then mixed colours, wrapped and out-of-range values
    pairs = [(c, i) for c in range(256) for i in range(101)]
    for k in range(0, len(pairs), 12):
        chunk = pairs[k:k + 12]
        chunk = chunk + [(0, 0)] * (12 - len(chunk))
        leds = [(c, c, c, i) for c, i in chunk]
        add('led', 'led ' + ','.join('%d:%d:%d:%d' % l for l in leds), lambda leds=leds: real_led(leds),
            {'op': 'LEDDriverMemory.write_data', 'first': leds[0]}, ('led', tuple(leds)), 'led:exhaustive')
    for _ in range(600 if thorough else 150):
        mode = rng.choice(['mixed', 'mixed', 'wrap', 'over'])
        leds = []
        for _ in range(12):
            if mode == 'mixed':
                leds.append((rng.randrange(256), rng.randrange(256), rng.randrange(256), rng.randrange(101)))
            elif mode == 'wrap':
                leds.append((rng.randrange(-300, 600), rng.randrange(-300, 600), rng.randrange(-300, 600), rng.randrange(101)))
            else:
                leds.append((rng.randrange(256), rng.randrange(256), rng.randrange(256), rng.choice([100, 101, 150, 200, 255, 1000, 826])))
        add('led', 'led ' + ','.join('%d:%d:%d:%d' % l for l in leds), lambda leds=leds: real_led(leds),
            {'op': 'LEDDriverMemory.write_data', 'mode': mode, 'first': leds[0]}, ('led', tuple(leds)), 'led:' + mode)
    for kind, leds in gen_rings(rng, 900 if thorough else 180):
        add('led', 'led ' + ','.join('%d:%d:%d:%d' % l for l in leds), lambda leds=leds: real_led(leds),
            {'op': 'LEDDriverMemory.write_data', 'ring': kind, 'first': leds[0]}, ('led', tuple(leds)), 'led:ring:' + kind)
    for ts in gen_timing_seqs(rng, 300 if thorough else 60):
        add('ledt', 'ledt ' + ','.join('%d:%d:%d:%d:%d:%d:%d' % t for t in ts), lambda ts=ts: real_ledt(ts),
            {'op': 'LEDTimingsDriverMemory.write_data', 'n': len(ts), 'shared colours': True}, ('ledt', tuple(ts)), 'ledt:shared-colours')
    for _ in range(500 if thorough else 120):
        ts = []
        for _ in range(rng.randrange(0, 7)):
            if rng.random() < 0.15:
                ts.append((rng.choice([0, 256, 512]), rng.choice([0, 1, 2, 4]), rng.choice([0, 1, 2]), rng.choice([0, 3, 4]), rng.choice([0, 16, 32]), 0, rng.choice([0, 8, 16])))
            else:
                ts.append((rng.randrange(0, 600), rng.randrange(-10, 300), rng.randrange(256), rng.randrange(256), rng.randrange(0, 40), rng.randrange(2), rng.randrange(0, 20)))
        add('ledt', 'ledt ' + (','.join('%d:%d:%d:%d:%d:%d:%d' % t for t in ts) or '-'), lambda ts=ts: real_ledt(ts),
            {'op': 'LEDTimingsDriverMemory.write_data', 'n': len(ts)}, ('ledt', tuple(ts)), 'ledt:n=%d' % min(len(ts), 3))
    # ---- localization packets
    import struct

    def f32():
        r = rng.random()
        if r < 0.25:
            return rng.choice(SPECIAL_F32)
        if r < 0.85:
            return struct.unpack('<I', struct.pack('<f', rng.uniform(-4, 4)))[0]
        return rng.getrandbits(32)

    def f16():
        r = rng.random()
        if r < 0.35:
            return rng.choice(SPECIAL_F16)
        if r < 0.8:
            return int(__import__('numpy').float16(rng.uniform(-0.5, 0.5)).view('uint16'))
        return rng.getrandbits(16)
    pk = []
    for _ in range(2500 if thorough else 500):
        n = rng.choice([0, 1, 2, 3, 5, 6, 8, 12])
        ids = [rng.randrange(256) if rng.random() < 0.8 else rng.choice([0, 1, 1, 255]) for _ in range(n)]
        body = b''.join(bytes([i]) + struct.pack('<I', f32()) for i in ids)
        if rng.random() < 0.1:
            body = body[:rng.randrange(len(body) + 1)] if body else b'\x01'
        pk.append(('range', bytes([0]) + body))
    for _ in range(2500 if thorough else 500):
        body = bytes([rng.randrange(256)]) + struct.pack('<I', f32()) + b''.join(struct.pack('<H', f16()) for _ in range(3)) + \
            struct.pack('<I', f32()) + b''.join(struct.pack('<H', f16()) for _ in range(3))
        if rng.random() < 0.08:
            body = body[:rng.randrange(len(body))] if rng.random() < 0.5 else body + bytes(rng.randrange(1, 4))
        pk.append(('lh', bytes([10]) + body))
    for h in SPECIAL_F16:
        body = bytes([1]) + struct.pack('<I', 0x3F800000) + struct.pack('<HHH', h, 0x3C00, h ^ 0x8000) + struct.pack('<I', 0xBF000000) + struct.pack('<HHH', 0, h, 0x8000)
        pk.append(('lh', bytes([10]) + body))
    for _ in range(200):
        t = rng.choice([11, 11, 1, 2, 3, 6, 9, 255, rng.randrange(256)])
        pk.append(('other', bytes([t]) + bytes(rng.randrange(256) for _ in range(rng.choice([0, 0, 1, 2, 7])))))
    pk.append(('empty', b''))
    for kind, raw in pk:
        add('inc', 'inc ' + (raw.hex() or '-'), lambda raw=raw: real_incoming(raw), {'op': 'Localization._incoming', 'data': raw.hex()},
            ('inc', raw), 'inc:' + kind, post=canon_model_incoming)
    # ---- repeated use of ONE object: every call of a history, not only the first
    def seg_spec(overflow=False, bad_len=False):
        lens = [rng.choice([0, 1, 3, 7]) for _ in range(4)]
        if bad_len:
            lens[rng.randrange(4)] = rng.choice([2, 4, 5, 6, 8])
        el = [[rng.uniform(-3, 3) for _ in range(n)] for n in lens]
        if overflow:
            k = rng.choice([i for i in range(4) if lens[i] and i < 3] or [0])
            if not el[k]:
                el[k] = [0.0]
            el[k][rng.randrange(len(el[k]))] = rng.choice([1, -1]) * rng.uniform(32.8, 60)
        return ('G', rng.choice([0.5, 1.0, 2.5, rng.uniform(0, 60)]), el[0], el[1], el[2], el[3])

    def start_spec(overflow=False):
        return ('S', coord() if not overflow else 40.0, rng.uniform(-3, 3), rng.uniform(-3, 3), rng.uniform(-3, 3))
    for _ in range(400 if thorough else 90):
        r = rng.random()
        spec = start_spec(r < 0.1) if rng.random() < 0.25 else seg_spec(overflow=r < 0.3, bad_len=0.3 <= r < 0.38)
        n = rng.choice([2, 2, 3, 5])
        add('packhist', 'packhist %s %d' % (elem_txt(spec), n), lambda spec=spec, n=n: real_packhist(spec, n),
            {'op': 'pack() x%d on one object' % n, 'elem': spec[0]}, ('packhist', repr(spec), n),
            'packhist:' + spec[0] + (':raises' if r < 0.3 and spec[0] == 'G' else ''))
    for _ in range(250 if thorough else 60):
        r = rng.random()
        specs = [start_spec()] + [seg_spec(overflow=(r < 0.25 and k == 1)) for k in range(rng.choice([1, 2, 4]))]
        n = rng.choice([2, 3, 4])
        add('trajhist', 'trajhist %d %s' % (n, '+'.join(elem_txt(sp) for sp in specs)), lambda specs=specs, n=n: real_trajhist(specs, n),
            {'op': 'same trajectory list uploaded %d times' % n, 'elements': len(specs)}, ('trajhist', repr(specs), n),
            'trajhist:' + ('raises' if r < 0.25 else 'ok'))
    for _ in range(250 if thorough else 60):
        ops = []
        for _ in range(rng.randrange(2, 14)):
            r = rng.random()
            if r < 0.45:
                ops.append(('s', rng.randrange(12), rng.randrange(256), rng.randrange(256), rng.randrange(256),
                            rng.choice([None, None, 0, 100, 50, rng.randrange(101), 1000])))
            elif r < 0.55:
                ops.append(('i', rng.randrange(12), rng.choice([0, 1, 99, 100, rng.randrange(101)])))
            else:
                ops.append(('w',))
        ops += [('w',), ('w',)]
        add('ledhist', 'ledhist ' + ','.join(ledop_txt(o) for o in ops), lambda ops=ops: real_ledhist(ops),
            {'op': 'one LEDDriverMemory: set/intensity/write history', 'n': len(ops)}, ('ledhist', repr(ops)), 'ledhist')
    for _ in range(150 if thorough else 40):
        ops = []
        for _ in range(rng.randrange(1, 9)):
            if rng.random() < 0.6:
                ops.append(('a', rng.randrange(0, 300), rng.randrange(256), rng.randrange(256), rng.randrange(256), rng.randrange(16), rng.randrange(2), rng.randrange(8)))
            else:
                ops.append(('w',))
        ops += [('w',), ('w',)]
        line = 'ledthist ' + ','.join('a%d:%d:%d:%d:%d:%d:%d' % o[1:] if o[0] == 'a' else 'w' for o in ops)
        add('ledthist', line, lambda ops=ops: real_ledthist(ops), {'op': 'one LEDTimingsDriverMemory: add/write history', 'n': len(ops)},
            ('ledthist', repr(ops)), 'ledthist')
    raws = [raw for _, raw in pk if raw]
    for _ in range(200 if thorough else 50):
        seq = [rng.choice(raws) for _ in range(rng.randrange(2, 9))]
        add('inchist', 'inchist ' + ','.join(r.hex() for r in seq), lambda seq=seq: real_inchist(seq),
            {'op': 'one Localization object, packet stream', 'n': len(seq)}, ('inchist', tuple(seq)), 'inchist',
            post=lambda m: ' | '.join(canon_model_incoming(part) for part in m.split(' | ')))
    return cases


def corpus_cases():
    """harness/corpus/c13/*.json: minimised past disagreements / witnesses, run first on every check"""
    import glob
    import json
    import math
    import os
    out = []
    here = os.path.join(os.path.dirname(os.path.dirname(os.path.abspath(__file__))), 'corpus', 'c13')
    for path in sorted(glob.glob(os.path.join(here, '*.json'))):
        for c in json.load(open(path))['cases']:
            op = c['op']
            key = ('corpus', os.path.basename(path), json.dumps(c, sort_keys=True))
            desc = dict(c, corpus=os.path.basename(path))
            if op == 'fp16':
                out.append(('fp16', 'fp16 %d' % c['v'], lambda v=c['v']: real_fp16(v), desc, key, 'corpus:fp16',
                            lambda m: ' '.join(fold_nan32(t) for t in m.split(' ')), None))
            elif op == 'inc':
                raw = bytes.fromhex(c['hex'])
                out.append(('inc', 'inc ' + (raw.hex() or '-'), lambda raw=raw: real_incoming(raw), desc, key, 'corpus:inc', canon_model_incoming, None))
            elif op == 'spatial':
                out.append(('spatial', 'spatial ' + qtxt(c['x']), lambda x=c['x']: real_spatial(x), desc, key, 'corpus:spatial', None, None))
            elif op == 'yaw':
                out.append(('yaw', 'yaw ' + qtxt(math.degrees(c['rad'])), lambda a=c['rad']: real_yaw(a), desc, key, 'corpus:yaw', None, None))
            elif op == 'cq':
                v = to_int_quat(c['q'])
                out.append(('cq', 'cq %d %d %d %d' % tuple(v), lambda q=c['q']: real_cq(q), desc, key, 'corpus:cq', None, lambda m, r, v=v: cmp_cq(m, r, v)))
            elif op == 'dq':
                out.append(('dq', 'dq %d' % c['comp'], lambda w=c['comp']: real_dq(w), desc, key, 'corpus:dq', dq_expected, None))
            elif op == 'led':
                leds = [tuple(l) for l in c['leds']]
                leds = (leds * 12)[:12]
                out.append(('led', 'led ' + ','.join('%d:%d:%d:%d' % l for l in leds), lambda leds=leds: real_led(leds), desc, key, 'corpus:led', None, None))
            elif op == 'packhist':
                spec = tuple(c['elem'])
                out.append(('packhist', 'packhist %s %d' % (elem_txt(spec), c['n']), lambda spec=spec, n=c['n']: real_packhist(spec, n), desc, key,
                            'corpus:packhist', None, None))
            elif op == 'trajhist':
                specs = [tuple(e) for e in c['elems']]
                out.append(('trajhist', 'trajhist %d %s' % (c['n'], '+'.join(elem_txt(sp) for sp in specs)),
                            lambda specs=specs, n=c['n']: real_trajhist(specs, n), desc, key, 'corpus:trajhist', None, None))
            else:
                raise ValueError('unknown corpus op %r in %s' % (op, path))
    return out


def correspond(ctx):
    _quiet()
    cases = corpus_cases() + gen_cases(ctx)
    replies = ctx.lean(DRIVER, [c[1] for c in cases])
    for (kind, line, thunk, desc, key, cnt, post, cmp), model in zip(cases, replies):
        real = thunk()
        if post is not None:
            model = post(model)
        ctx.count(cnt)
        ctx.count('result:' + kind + ':' + (real.split(' ')[1] if real.startswith('err') else 'ok'))
        ctx.case(desc, key)
        if cmp is not None:
            same, how = cmp(model, real)
            ctx.count(kind + ':cmp:' + how)
        else:
            same = real == model
        if not same:
            ctx.disagree(kind, line[:300], model[:300], real[:300])


# ======================================================================================================
# failing-input search: the property itself on the real code
# ======================================================================================================
def spec_half(h):
    """IEEE-754 binary16 value of pattern h as (kind, sign, Fraction) - independent Python twin of Spec.halfValue"""
    from fractions import Fraction
    s, e, m = h >> 15, (h >> 10) & 31, h & 1023
    if e == 31:
        return ('inf', s, None) if m == 0 else ('nan', None, None)
    if e == 0:
        return ('fin', s, Fraction(m, 1 << 24))
    return ('fin', s, Fraction(1024 + m, 1024) * Fraction(2) ** (e - 15))


def value_of(x):
    import math
    from fractions import Fraction
    if isinstance(x, bool) or not isinstance(x, float):
        return ('not-a-float', type(x).__name__, x)
    if math.isnan(x):
        return ('nan', None, None)
    if math.isinf(x):
        return ('inf', 1 if x < 0 else 0, None)
    return ('fin', 1 if math.copysign(1.0, x) < 0 else 0, abs(Fraction(x)))


def search(ctx):
    """The property itself (Python twins of the Lean specs) evaluated on the real code's observable behaviour."""
    _quiet()
    import math
    import struct
    from fractions import Fraction
    import numpy as np
    from cflib.utils.encoding import compress_quaternion, decompress_quaternion, fp16_to_float
    rng = ctx.rng
    thorough = ctx.tier == 'thorough'

    # (1) every half pattern decodes to a float with the binary16 value (spec twin AND numpy.float16); the signed reading too
    ref = np.arange(65536, dtype=np.uint16).view(np.float16).astype(np.float64)
    order = [0x8000, 0x7C00, 0xFC00, 0x7E00, 0x0000] + list(range(65536)) + list(range(-32768, 0))
    nbad = 0
    for h in order:
        try:
            got = value_of(fp16_to_float(h))
        except Exception as e:
            got = ('raised', type(e).__name__, None)
        want = spec_half(h % 65536)
        assert want == value_of(float(ref[h % 65536])), 'spec twin disagrees with numpy.float16 at %d' % h
        if got != want:
            cls = 'zero' if h & 0x7FFF == 0 else 'inf' if h & 0x7FFF == 0x7C00 else 'nan' if (h >> 10) & 31 == 31 else 'finite'
            key = 'D11-fp16-int-return' if got[0] == 'not-a-float' and got[1] == 'int' and cls != 'finite' else 'fp16-wrong-value'
            nbad += 1
            ctx.count('search:fp16:' + key)
            if nbad > 8 and key == 'D11-fp16-int-return':
                continue
            ctx.witness(key, 'fp16_to_float does not return the IEEE binary16 value as a float', {'float16': h}, got=str(got), want=str(want))

    # (2) quaternion round trip: same rotation (common sign), every component within 2 steps, word < 2^32
    step2 = 2.0 / (511 * math.sqrt(2))
    for kind, q in gen_quats(rng, 4000 if thorough else 800):
        try:
            with np.errstate(all='ignore'):
                comp = compress_quaternion(q)
                d = decompress_quaternion(comp)
        except Exception as e:
            ctx.witness('quat-raises', 'compress/decompress of a non-zero quaternion raised', {'q': q}, got=repr(e))
            continue
        n = math.sqrt(sum(x * x for x in q))
        errs = [max(abs(s * x / n - float(y)) for x, y in zip(q, d)) for s in (1.0, -1.0)]
        if not (0 <= comp < 2 ** 32):
            ctx.witness('quat-32bit', 'compressed quaternion does not fit 32 bits', {'q': q}, got=int(comp))
        if not min(errs) <= step2 + 1e-12:
            ctx.witness('quat-resolution', 'decompress(compress(q)) is further than two quantisation steps from +-q/|q|',
                        {'q': q}, got=[float(y) for y in d], error_in_steps=min(errs) / (step2 / 2))

    # (3) compressed trajectory coordinates / yaw: < 1 unit of error; overflow raises rather than wraps
    from cflib.crazyflie.mem.trajectory_memory import CompressedSegment, CompressedStart
    base = _base()
    xs = [0.0, 0.0004, -0.0004, 1.001, -1.001, 32.767, -32.768, 32.7679, 32.768, -32.769, 40.0, -40.0, 65.535, 65.536, -65.537, 100.0]
    xs += [rng.uniform(-34, 34) for _ in range(2000 if thorough else 400)] + [rng.randrange(-34000, 34000) / 1000.0 for _ in range(400)]
    for x in xs:
        e = base._encode_spatial(x)
        if not abs(Fraction(e) - Fraction(x) * 1000) < 1:
            ctx.witness('spatial-error', '_encode_spatial is a millimetre or more away from the coordinate', {'x': x}, got=e)
        try:
            raw = bytes(CompressedStart(x, 0.0, x, 0.0).pack())
            back = struct.unpack('<hhhh', raw)
            if not (-32768 <= e <= 32767) or back[0] != e or back[2] != e:
                ctx.witness('spatial-wrap', 'out-of-range coordinate packed (wrapped) instead of raising', {'x': x}, got=list(back), encoded=e)
        except struct.error:
            if -32768 <= e <= 32767:
                ctx.witness('spatial-raise', 'in-range coordinate raised', {'x': x}, encoded=e)
        try:
            raw = bytes(CompressedSegment(1.0, [x], [], [x, 0.0, x], []).pack())
            back = struct.unpack('<' + 'h' * 4, raw[3:])
            if not (-32768 <= e <= 32767) or list(back) != [e, e, 0, e]:
                ctx.witness('spatial-wrap', 'out-of-range coordinate packed (wrapped) instead of raising', {'x': x, 'in': 'segment'}, got=list(back), encoded=e)
        except struct.error:
            if -32768 <= e <= 32767:
                ctx.witness('spatial-raise', 'in-range coordinate raised', {'x': x, 'in': 'segment'}, encoded=e)
    angs = [0.0, math.pi, -math.pi, 57.19, -57.19, 57.2, 1e-4] + [rng.uniform(-60, 60) for _ in range(1000 if thorough else 300)]
    for a in angs:
        e = base._encode_yaw(a)
        tenths = Fraction(math.degrees(a)) * 10
        if not abs(Fraction(e) - tenths) < 1 or abs(e - a * 1800 / math.pi) >= 1 + 1e-6:
            ctx.witness('yaw-error', '_encode_yaw is a tenth of a degree or more away from the angle', {'rad': a}, got=e)
        try:
            back = struct.unpack('<hhhh', bytes(CompressedStart(0.0, 0.0, 0.0, a).pack()))
            if not (-32768 <= e <= 32767) or back[3] != e:
                ctx.witness('yaw-wrap', 'out-of-range yaw packed (wrapped) instead of raising', {'rad': a}, got=list(back), encoded=e)
        except struct.error:
            if -32768 <= e <= 32767:
                ctx.witness('yaw-raise', 'in-range yaw raised', {'rad': a}, encoded=e)

    # (3b) every serialisation of the same objects, not only the first: one trajectory list uploaded several times (to several
    #      memories / again at another address), decoded the way the firmware reads it and compared with the user's coordinates
    NVAL = {0: 0, 1: 1, 2: 3, 3: 7}

    def fw_decode(data):
        """[('S', [x, y, z, yaw]) | ('G', duration_ms, [xs, ys, zs, yaws])] as the firmware's compressed-trajectory reader sees it"""
        out = [('S', list(struct.unpack_from('<hhhh', data, 0)))]
        pos = 8
        while pos < len(data):
            types, dur = struct.unpack_from('<BH', data, pos)
            pos += 3
            dims = []
            for dim in range(4):
                k = NVAL[(types >> (2 * dim)) & 3]
                dims.append(list(struct.unpack_from('<' + 'h' * k, data, pos)))     # struct.error when the data is missing
                pos += 2 * k
            out.append(('G', dur, dims))
        return out

    def traj_ok(specs, data):
        """does `data` carry the trajectory `specs`: every value present and less than one unit from the coordinate"""
        try:
            dec = fw_decode(data)
        except struct.error:
            return False, 'segment header announces values that are not in the data'
        if len(dec) != len(specs):
            return False, 'element count %d != %d' % (len(dec), len(specs))
        for sp, d in zip(specs, dec):
            if sp[0] == 'S':
                want = [Fraction(sp[1]) * 1000, Fraction(sp[2]) * 1000, Fraction(sp[3]) * 1000, Fraction(math.degrees(sp[4])) * 10]
                if d[0] != 'S' or not all(abs(e - w) < 1 for e, w in zip(d[1], want)):
                    return False, 'start point %s' % (d,)
            else:
                if d[0] != 'G' or abs(d[1] - Fraction(sp[1]) * 1000) >= 1:
                    return False, 'segment duration %s' % (d,)
                for dim in range(4):
                    want = [Fraction(v) * 1000 for v in sp[2 + dim]] if dim < 3 else [Fraction(math.degrees(v)) * 10 for v in sp[5]]
                    if len(d[2][dim]) != len(want) or not all(abs(e - w) < 1 for e, w in zip(d[2][dim], want)):
                        return False, 'segment dimension %d: %s for %d coordinates' % (dim, d[2][dim], len(want))
        return True, ''

    def rnd_seg(bad=None):
        lens = [rng.choice([1, 3, 7]), rng.choice([0, 1, 3, 7]), rng.choice([0, 1, 3, 7]), rng.choice([0, 1, 3])]
        el = [[rng.uniform(-30, 30) for _ in range(k)] for k in lens[:3]] + [[rng.uniform(-3, 3) for _ in range(lens[3])]]
        if bad is not None:
            el[0][rng.randrange(len(el[0]))] = bad
        return ('G', rng.choice([0.25, 1.0, 2.0, rng.uniform(0, 60)]), el[0], el[1], el[2], el[3])
    for trial in range(120 if thorough else 30):
        specs = [('S', rng.uniform(-30, 30), rng.uniform(-30, 30), rng.uniform(0, 3), rng.uniform(-3, 3))] + [rnd_seg() for _ in range(rng.choice([1, 2, 5]))]
        elems = [make_elem(sp) for sp in specs]
        for k, res in enumerate(upload_all(elems, 4)):
            ok, why = (False, 'raised ' + repr(res)) if isinstance(res, Exception) else traj_ok(specs, res)
            if not ok:
                ctx.witness('trajectory-encode' if k == 0 else 'trajectory-reuse',
                            'upload #%d of the same trajectory list does not carry the coordinates (%s)' % (k + 1, why),
                            {'trajectory': [list(sp) for sp in specs], 'upload': k + 1}, got=(res.hex() if not isinstance(res, Exception) else repr(res))[:200])
                break
        # an out-of-range coordinate must raise on EVERY pack() of that object, and keep the upload from happening every time
        bad = rng.choice([1, -1]) * rng.uniform(32.8, 70)
        for spec in (rnd_seg(bad=bad), ('S', bad, 0.0, 0.0, 0.0)):
            obj = make_elem(spec)
            for k in range(3):
                try:
                    raw = bytes(obj.pack())
                    ctx.witness('overflow-raise' if k == 0 else 'overflow-reuse', 'pack() #%d of an object with an out-of-range coordinate did not raise' % (k + 1),
                                {'element': list(spec), 'call': k + 1}, got=raw.hex()[:120])
                    break
                except struct.error:
                    pass
            res = upload_all([make_elem(specs[0]), make_elem(spec)] if spec[0] == 'G' else [make_elem(spec)], 3)
            for k, r in enumerate(res):
                if not isinstance(r, struct.error):
                    ctx.witness('overflow-raise' if k == 0 else 'overflow-reuse', 'upload #%d of a trajectory with an out-of-range coordinate did not raise' % (k + 1),
                                {'element': list(spec), 'upload': k + 1}, got=(r.hex() if isinstance(r, bytes) else repr(r))[:120])
                    break

    # (4) LED RGB565, all 256 x 101 (level, intensity) pairs on all channels
    prev = {}
    table = {}
    pairs = [(c, i) for i in range(101) for c in range(256)]
    from cflib.crazyflie.mem.led_driver_memory import LEDDriverMemory
    ring_h = FakeMemHandler()
    ring = LEDDriverMemory(id=0, type=0x10, size=24, mem_handler=ring_h)      # ONE ring object for all writes

    def ring_write(leds):
        for led, (r_, g_, b_, i_) in zip(ring.leds, leds):
            led.set(r_, g_, b_)
            led.intensity = i_
        n0 = len(ring_h.writes)
        try:
            ring.write_data(None)
            return 'ok ' + ring_h.writes[n0][1].hex()
        except Exception as e:
            return _exc(e)
    for k in range(0, len(pairs), 12):
        chunk = pairs[k:k + 12] + [(0, 0)] * (12 - len(pairs[k:k + 12]))
        r = ring_write([(c, c, c, i) for c, i in chunk])
        if k % 600 == 0:
            n0 = len(ring_h.writes)
            ring.write_data(None)
            if 'ok ' + ring_h.writes[n0][1].hex() != r:
                ctx.witness('led-reuse', 'writing the unchanged LED ring a second time sends different data', {'leds': chunk}, got=ring_h.writes[n0][1].hex(), first=r)
        if not r.startswith('ok '):
            ctx.witness('led-raises', 'LED write_data raised for in-range colours', {'leds': chunk}, got=r)
            continue
        raw = bytes.fromhex(r[3:])
        for n, (c, i) in enumerate(chunk):
            w = (raw[2 * n] << 8) | raw[2 * n + 1]
            table[(c, i)] = (w >> 11, (w >> 5) & 63, w & 31)
    for (c, i), f in sorted(table.items()):
        if c == 0 and f != (0, 0, 0):
            ctx.witness('led-black', 'black does not map to 0', {'level': c, 'intensity': i}, got=f)
        if c == 255 and i == 100 and f != (31, 63, 31):
            ctx.witness('led-white', 'white at full intensity is not full scale', {'level': c, 'intensity': i}, got=f)
        if c > 0 and any(a < b for a, b in zip(f, table[(c - 1, i)])):
            ctx.witness('led-monotone', 'RGB565 channel decreases when the 8-bit level increases', {'level': c, 'intensity': i}, got=f, below=table[(c - 1, i)])
        if i > 0 and any(a < b for a, b in zip(f, table[(c, i - 1)])):
            ctx.witness('led-monotone-intensity', 'RGB565 channel decreases when the intensity increases', {'level': c, 'intensity': i}, got=f)
    for _ in range(100):       # channels are independent: a mixed colour is the combination of the single-channel values
        r8, g8, b8, i = rng.randrange(256), rng.randrange(256), rng.randrange(256), rng.randrange(101)
        raw = bytes.fromhex(ring_write([(r8, g8, b8, i)] * 12)[3:])
        w = (raw[0] << 8) | raw[1]
        want = (table[(r8, i)][0], table[(g8, i)][1], table[(b8, i)][2])
        if (w >> 11, (w >> 5) & 63, w & 31) != want or len(raw) != 24:
            ctx.witness('led-mix', 'mixed colour is not the combination of its channels', {'rgb': [r8, g8, b8], 'intensity': i}, got=w, want=want)
    # (4b) the WHOLE ring: word k of one write is the RGB565 word of LED k alone, whatever the other LEDs are.  Rings with the same
    #      colour at different intensities, gradients, all-equal rings, one differing LED ...; the per-LED reference is what the
    #      same LED gives on a ring of 12 copies of itself
    def fields(w):
        return (w >> 11, (w >> 5) & 63, w & 31)
    uniform = {}

    def ref_word(led):
        if led not in uniform:
            raw = bytes.fromhex(ring_write([led] * 12)[3:])
            ws = {(raw[2 * j] << 8) | raw[2 * j + 1] for j in range(12)}
            uniform[led] = ws.pop() if len(ws) == 1 else None
        return uniform[led]
    for kind, leds in gen_rings(rng, 900 if thorough else 270):
        r = ring_write(leds)
        if not r.startswith('ok ') or len(r) != 3 + 48:
            ctx.witness('led-raises', 'LED write_data raised / wrong size for in-range colours', {'ring': leds}, got=r)
            continue
        raw = bytes.fromhex(r[3:])
        words = [(raw[2 * j] << 8) | raw[2 * j + 1] for j in range(12)]
        bad = None
        for j, (led, w) in enumerate(zip(leds, words)):
            if led[:3] == (255, 255, 255) and led[3] == 100 and w != 0xFFFF:
                bad = ('led-ring-white', 'a white LED at full intensity is not full scale when other LEDs of the ring differ', j)
            elif led[:3] == (0, 0, 0) and w != 0:
                bad = ('led-ring-black', 'a black LED is not 0 when other LEDs of the ring differ', j)
            if bad:
                break
            for j2, (led2, w2) in enumerate(zip(leds, words)):
                if led2[:3] == led[:3] and led2[3] <= led[3] and any(a > b for a, b in zip(fields(w2), fields(w))):
                    bad = ('led-ring-monotone', 'within one ring, the same colour at a higher intensity gets a smaller RGB565 channel', j)
                    break
            if bad:
                break
        if bad is None:
            for j, (led, w) in enumerate(zip(leds, words)):
                if ref_word(led) is None or w != ref_word(led):
                    bad = ('led-ring-cross-dependence', 'word of an LED depends on the other LEDs of the ring (differs from a ring of copies of it)', j)
                    break
        if bad:
            ctx.witness(bad[0], bad[1], {'ring': [list(l) for l in leds], 'kind': kind, 'led_index': bad[2]},
                        got=[list(fields(w)) for w in words], want_at_index=(list(fields(ref_word(leds[bad[2]]))) if ref_word(leds[bad[2]]) is not None else None))
    # timing sequences with shared colours: entry k carries its own time byte and the colour word of timing k alone
    single = {}
    for seq in gen_timing_seqs(rng, 200 if thorough else 60):
        rt = real_ledt(seq)
        raw = bytes.fromhex(rt[3:]) if rt.startswith('ok ') else b''
        if len(raw) != 4 * len(seq) + 4:
            ctx.witness('ledt-raises', 'LED timings write_data did not produce one entry per timing + terminator', {'timings': seq}, got=rt[:200])
            continue
        for k, t in enumerate(seq):
            col = t[1:4]
            if col not in single:
                r1 = bytes.fromhex(real_ledt([(1,) + col + (0, 0, 0)])[3:])
                single[col] = (r1[1] << 8) | r1[2]
            e = raw[4 * k:4 * k + 4]
            if e[0] != t[0] or ((e[1] << 8) | e[2]) != single[col]:
                ctx.witness('ledt-seq-cross-dependence', 'entry of a timing depends on the other timings of the sequence',
                            {'timings': [list(x) for x in seq], 'index': k}, got=e.hex(), want_colour=single[col])
                break

    # the timings driver (no intensity) must satisfy the same clauses on its own
    ttab = {}
    seqops = [('a', 1, c, c, c, 0, 0, 0) for c in range(256)] + [('w',), ('w',)]       # ONE sequence object, written twice
    rt = real_ledthist(seqops)
    writes = rt[3:].split(';') if rt.startswith('ok ') else []
    if len(writes) != 2 or writes[0] != writes[1]:
        ctx.witness('ledt-reuse', 'writing the unchanged LED timing sequence a second time sends different data', {'timings': 256}, got=rt[:200])
    raw_all = bytes.fromhex(writes[0]) if writes and not writes[0].startswith('E:') else b''
    if len(raw_all) != 4 * 256 + 4 or raw_all[-4:] != bytes(4):
        ctx.witness('ledt-raises', 'LED timings write_data did not produce one entry per timing + terminator', {'timings': 256}, got=rt[:200])
        raw_all = b''
    for c in range(256 if raw_all else 0):
        raw = raw_all[4 * c:4 * c + 4]
        if raw[0] != 1:
            ctx.witness('ledt-raises', 'LED timings entry has the wrong time byte', {'level': c}, got=raw.hex())
            continue
        w = (raw[1] << 8) | raw[2]
        ttab[c] = (w >> 11, (w >> 5) & 63, w & 31)
    for c, f in sorted(ttab.items()):
        if c == 0 and f != (0, 0, 0):
            ctx.witness('ledt-black', 'timings driver: black does not map to 0', {'level': c}, got=f)
        if c == 255 and f != (31, 63, 31):
            ctx.witness('ledt-white', 'timings driver: white is not full scale', {'level': c}, got=f)
        if c > 0 and c - 1 in ttab and any(a < b for a, b in zip(f, ttab[c - 1])):
            ctx.witness('ledt-monotone', 'timings driver: RGB565 channel decreases when the 8-bit level increases', {'level': c}, got=f, below=ttab[c - 1])
    for _ in range(60):
        r8, g8, b8 = rng.randrange(256), rng.randrange(256), rng.randrange(256)
        rt = real_ledt([(1, r8, g8, b8, 0, 0, 0)])
        if all(k in ttab for k in (r8, g8, b8)):
            full = (ttab[r8][0] << 11) | (ttab[g8][1] << 5) | ttab[b8][2]
            if rt != 'ok ' + bytes([1, full >> 8, full & 255, 0, 0, 0, 0, 0]).hex():
                ctx.witness('ledt-mix', 'timings driver: mixed colour is not the combination of its channels', {'rgb': [r8, g8, b8]}, got=rt, want=full)

    # (5) range reports / lighthouse angle stream: decode what an (independent) device-side encoder produced
    def f32v(bits):
        return struct.unpack('<f', struct.pack('<I', bits))[0]

    def same(a, b):
        return (math.isnan(a) and math.isnan(b)) if isinstance(a, float) and isinstance(b, float) and (math.isnan(a) or math.isnan(b)) else \
            (type(a) is type(b) and struct.pack('<d', a) == struct.pack('<d', b))
    from cflib.crazyflie.localization import Localization
    from cflib.utils.callbacks import Caller

    stream = LocStream()          # ONE Localization object and callback for the whole packet stream

    def decode(raw):
        return stream.feed(raw)
    for _ in range(1500 if thorough else 300):
        n = rng.choice([0, 1, 2, 3, 5, 6, 12, 40])
        ids = rng.sample(range(256), n)
        dist = [rng.choice(SPECIAL_F32) if rng.random() < 0.3 else rng.getrandbits(32) for _ in range(n)]
        raw = bytes([0]) + b''.join(bytes([i]) + d.to_bytes(4, 'little') for i, d in zip(ids, dist))
        try:
            got = decode(raw)
            ok = len(got) == 1 and got[0].type == 0 and isinstance(got[0].data, dict) and sorted(got[0].data) == sorted(ids) and \
                all(same(got[0].data[i], f32v(d)) for i, d in zip(ids, dist))
        except Exception as e:
            ok, got = False, repr(e)
        if not ok:
            ctx.witness('range-decode', 'range report does not decode to the encoded anchor distances', {'ids': ids, 'dist': dist}, got=str(got)[:300])
    halfs = np.arange(65536, dtype=np.uint16).view(np.float16).astype(np.float64)
    trials = [(rng.choice(SPECIAL_F32), [h, h ^ 0x8000, 0x3C00], rng.choice(SPECIAL_F32), [0, 0x8000, h]) for h in SPECIAL_F16]
    for _ in range(3000 if thorough else 600):
        trials.append((struct.unpack('<I', struct.pack('<f', rng.uniform(-3.2, 3.2)))[0], [rng.choice(SPECIAL_F16) if rng.random() < 0.3 else rng.getrandbits(16) for _ in range(3)],
                       struct.unpack('<I', struct.pack('<f', rng.uniform(-3.2, 3.2)))[0], [rng.choice(SPECIAL_F16) if rng.random() < 0.3 else rng.getrandbits(16) for _ in range(3)]))
    for bx, ox, by, oy in trials:
        bs = rng.randrange(16)
        raw = bytes([10, bs]) + bx.to_bytes(4, 'little') + b''.join(o.to_bytes(2, 'little') for o in ox) + \
            by.to_bytes(4, 'little') + b''.join(o.to_bytes(2, 'little') for o in oy)
        wantx = [f32v(bx)] + [f32v(bx) - float(halfs[o]) for o in ox]
        wanty = [f32v(by)] + [f32v(by) - float(halfs[o]) for o in oy]
        try:
            got = decode(raw)
            d = got[0].data
            ok = len(got) == 1 and d['basestation'] == bs and all(same(a, b) for a, b in zip(d['x'], wantx)) and all(same(a, b) for a, b in zip(d['y'], wanty))
            shown = {'x': d['x'], 'y': d['y']}
        except Exception as e:
            ok, shown = False, repr(e)
        if not ok:
            zero_like = any(o & 0x7FFF == 0 or (o >> 10) & 31 == 31 for o in ox + oy)
            ctx.witness('D11-lh-angle' if zero_like else 'lh-angle-decode', 'lighthouse angle-stream packet does not decode to base - half-float offset',
                        {'base_x': bx, 'offsets_x': ox, 'base_y': by, 'offsets_y': oy}, got=str(shown)[:300], want=str({'x': wantx, 'y': wanty})[:300])

"""C13 - numeric wire codecs are exact or within their stated resolution.

Tie A: fp16_to_float is TRANSLATED statement by statement (ints, shifts, masks, if/elif/else, the
normalisation while loop with explicit fuel, every return incl. its type: Python int vs reinterpreted
binary32) into Gen/C13.lean; the RGB565 component / packing expressions, the quaternion bit packing and
unpacking expressions, the trajectory scale factors, and every struct format / argument list of the
anchored functions are re-extracted on every run.
Tie B: the real functions vs the Lean model (Driver/C13.lean).
"""
import ast

from harness.lib import extract as X
from harness.lib.common import ExtractError

PID = 'C13'
LEAN_TARGETS = ['CfVerif.Props.C13']
PROPS_MODULES = ['CfVerif.Props.C13']
DRIVER = 'Driver/C13.lean'
REQUIRED_THEOREMS = ['CfVerif.C13.fp16_exact']
TRUSTED = ['harness/corr/c13.py translator + correspondence']
ASSUMPTIONS = []
RULE = ''

# ======================================================================================================
# A3: a deliberately small Python -> Lean translator for pure integer functions.
# All Python ints become Lean `Int`; the bit operators are the TOTAL two's-complement definitions of the
# prelude below (so the translation is valid for negative operands too: _decode_lh_angle feeds signed
# int16 values to fp16_to_float).  Anything outside the subset raises ExtractError.
# ======================================================================================================
PRELUDE = '''
/-! ### prelude: Python `int` bit operators on `Int` (total, two's complement; `Int.negSucc n` = `~n`) -/

/-- Python `a & b` -/
def pyAnd : Int → Int → Int
  | .ofNat a, .ofNat b => .ofNat (a &&& b)
  | .negSucc a, .ofNat b => .ofNat (b - (b &&& a))
  | .ofNat a, .negSucc b => .ofNat (a - (a &&& b))
  | .negSucc a, .negSucc b => .negSucc (a ||| b)

/-- Python `a | b` -/
def pyOr : Int → Int → Int
  | .ofNat a, .ofNat b => .ofNat (a ||| b)
  | .negSucc a, .ofNat b => .negSucc (a - (a &&& b))
  | .ofNat a, .negSucc b => .negSucc (b - (b &&& a))
  | .negSucc a, .negSucc b => .negSucc (a &&& b)

/-- Python `a ^ b` -/
def pyXor : Int → Int → Int
  | .ofNat a, .ofNat b => .ofNat (a ^^^ b)
  | .negSucc a, .ofNat b => .negSucc (a ^^^ b)
  | .ofNat a, .negSucc b => .negSucc (a ^^^ b)
  | .negSucc a, .negSucc b => .ofNat (a ^^^ b)

/-- Python `~a` -/
def pyNot (a : Int) : Int := -a - 1

/-- Python `a << k` for a literal `k ≥ 0` -/
def shl (a : Int) (k : Nat) : Int := a * ((2 ^ k : Nat) : Int)

/-- Python `a >> k` for a literal `k ≥ 0` (arithmetic shift = floor division by `2^k`) -/
def shr (a : Int) (k : Nat) : Int :=
  match a with
  | .ofNat n => .ofNat (n >>> k)
  | .negSucc n => .negSucc (n >>> k)

/-- what a translated Python function returned -/
inductive Ret
  | int (v : Int)        -- a Python `int` object
  | f32 (bits : Int)     -- `struct.unpack('f', struct.pack('I', bits))[0]`: a float (pack raises unless 0 ≤ bits < 2^32)
  | none                 -- fell off the end
  | fuel                 -- loop fuel exhausted (the translation's bound, never Python behaviour)
  deriving DecidableEq, Repr
'''


def _nonneg_lit(n):
    if isinstance(n, ast.Constant) and isinstance(n.value, int) and not isinstance(n.value, bool) and n.value >= 0:
        return n.value
    raise ExtractError('shift amount must be a non-negative literal: ' + ast.unparse(n))


def E(n, env):
    """integer expression -> Lean `Int` term"""
    if isinstance(n, ast.Constant) and isinstance(n.value, int) and not isinstance(n.value, bool):
        return '(%d : Int)' % n.value if n.value >= 0 else '(-%d : Int)' % -n.value
    if isinstance(n, (ast.Name, ast.Attribute, ast.Subscript)):
        s = ast.unparse(n)
        if s in env:
            return env[s]
        raise ExtractError('untranslatable name %s' % s)
    if isinstance(n, ast.Call):
        f = ast.unparse(n.func)
        if f in ('int', '(int)') and len(n.args) == 1 and not n.keywords:      # int(<int expr>) is the identity
            return E(n.args[0], env)
        raise ExtractError('untranslatable call %s' % ast.unparse(n))
    if isinstance(n, ast.UnaryOp):
        if isinstance(n.op, ast.Invert):
            return '(pyNot %s)' % E(n.operand, env)
        if isinstance(n.op, ast.USub):
            return '(-%s)' % E(n.operand, env)
        raise ExtractError('untranslatable unary operator in %s' % ast.unparse(n))
    if isinstance(n, ast.BinOp):
        t = type(n.op)
        if t is ast.LShift:
            return '(shl %s %d)' % (E(n.left, env), _nonneg_lit(n.right))
        if t is ast.RShift:
            return '(shr %s %d)' % (E(n.left, env), _nonneg_lit(n.right))
        a, b = E(n.left, env), E(n.right, env)
        if t is ast.Add:
            return '(%s + %s)' % (a, b)
        if t is ast.Sub:
            return '(%s - %s)' % (a, b)
        if t is ast.Mult:
            return '(%s * %s)' % (a, b)
        if t is ast.BitAnd:
            return '(pyAnd %s %s)' % (a, b)
        if t is ast.BitOr:
            return '(pyOr %s %s)' % (a, b)
        if t is ast.BitXor:
            return '(pyXor %s %s)' % (a, b)
        raise ExtractError('untranslatable operator %s in %s' % (t.__name__, ast.unparse(n)))
    raise ExtractError('untranslatable expression %s' % ast.unparse(n))


_CMP = {ast.Eq: '==', ast.NotEq: '!=', ast.Lt: '<', ast.LtE: '<=', ast.Gt: '>', ast.GtE: '>='}


def T(n, env):
    """test expression -> Lean `Bool` term (Python truthiness of ints: non-zero)"""
    if isinstance(n, ast.UnaryOp) and isinstance(n.op, ast.Not):
        return '(!%s)' % T(n.operand, env)
    if isinstance(n, ast.BoolOp):
        op = ' && ' if isinstance(n.op, ast.And) else ' || '
        return '(' + op.join(T(v, env) for v in n.values) + ')'
    if isinstance(n, ast.Compare):
        if len(n.ops) != 1 or type(n.ops[0]) not in _CMP:
            raise ExtractError('untranslatable comparison %s' % ast.unparse(n))
        a, b = E(n.left, env), E(n.comparators[0], env)
        op = _CMP[type(n.ops[0])]
        if op in ('==', '!='):
            return '(%s %s %s)' % (a, op, b)
        return '(decide (%s %s %s))' % (a, {'<': '<', '<=': '≤', '>': '>', '>=': '≥'}[op], b)
    return '(%s != 0)' % E(n, env)


_AUG = {ast.Add: ast.Add, ast.Sub: ast.Sub, ast.Mult: ast.Mult, ast.LShift: ast.LShift, ast.RShift: ast.RShift,
        ast.BitAnd: ast.BitAnd, ast.BitOr: ast.BitOr, ast.BitXor: ast.BitXor}


class FuncTranslator:
    """translate `def f(params): <assign | augassign | if | while | return>*` into Lean defs returning `Ret`"""

    def __init__(self, module_tree, fn, lean_name, fuel=64):
        self.mod = module_tree
        self.fn = fn
        self.name = lean_name
        self.fuel = fuel
        self.aux = []
        self.nloops = 0

    # -- helpers -------------------------------------------------------------------------------
    def _reinterpret_arg(self, v):
        """if `v` is struct.unpack('f', struct.pack('I', X))[0] return X else None"""
        if isinstance(v, ast.Subscript) and isinstance(v.slice, ast.Constant) and v.slice.value == 0 and isinstance(v.value, ast.Call):
            c = v.value
            if ast.unparse(c.func) == 'struct.unpack' and len(c.args) == 2 and isinstance(c.args[0], ast.Constant) and c.args[0].value == 'f':
                p = c.args[1]
                if isinstance(p, ast.Call) and ast.unparse(p.func) == 'struct.pack' and len(p.args) == 2 \
                        and isinstance(p.args[0], ast.Constant) and p.args[0].value == 'I':
                    return p.args[1]
        return None

    def _helper_reinterprets(self, name):
        """is module-level `name` exactly `def name(p): return struct.unpack('f', struct.pack('I', p))[0]` ?"""
        for n in self.mod.body:
            if isinstance(n, ast.FunctionDef) and n.name == name:
                body = [s for s in n.body if not (isinstance(s, ast.Expr) and isinstance(s.value, ast.Constant))]
                if len(n.args.args) == 1 and len(body) == 1 and isinstance(body[0], ast.Return):
                    x = self._reinterpret_arg(body[0].value)
                    return isinstance(x, ast.Name) and x.id == n.args.args[0].arg
        return False

    def ret(self, v, env):
        if v is None:
            return 'Ret.none'
        x = self._reinterpret_arg(v)
        if x is not None:
            return 'Ret.f32 %s' % E(x, env)
        if isinstance(v, ast.Call) and isinstance(v.func, ast.Name) and len(v.args) == 1 and not v.keywords \
                and v.func.id != 'int' and self._helper_reinterprets(v.func.id):
            return 'Ret.f32 %s' % E(v.args[0], env)
        return 'Ret.int %s' % E(v, env)

    @staticmethod
    def _assigned(stmts):
        out = []
        for st in stmts:
            for n in ast.walk(st):
                if isinstance(n, (ast.Assign, ast.AugAssign)):
                    tg = n.targets[0] if isinstance(n, ast.Assign) else n.target
                    if isinstance(tg, ast.Name) and tg.id not in out:
                        out.append(tg.id)
        return out

    def assign(self, st, env):
        if isinstance(st, ast.Assign):
            if len(st.targets) != 1 or not isinstance(st.targets[0], ast.Name):
                raise ExtractError('untranslatable assignment %s' % ast.unparse(st))
            return st.targets[0].id, E(st.value, env)
        if not isinstance(st.target, ast.Name) or type(st.op) not in _AUG:
            raise ExtractError('untranslatable augmented assignment %s' % ast.unparse(st))
        return st.target.id, E(ast.BinOp(left=st.target, op=st.op, right=st.value), env)

    # -- statements ----------------------------------------------------------------------------
    def block(self, stmts, cont, ind, env, defined, in_loop=False):
        if not stmts:
            return cont(ind, env, defined)
        st, rest = stmts[0], stmts[1:]
        pad = ' ' * ind

        def k(i, e, d):
            return self.block(rest, cont, i, e, d, in_loop)
        if isinstance(st, ast.Expr) and isinstance(st.value, ast.Constant):      # docstring
            return k(ind, env, defined)
        if isinstance(st, (ast.Assign, ast.AugAssign)):
            x, rhs = self.assign(st, env)
            env2 = dict(env)
            env2[x] = x
            return '%slet %s : Int := %s\n' % (pad, x, rhs) + k(ind, env2, defined + [x] if x not in defined else defined)
        if isinstance(st, ast.Return):
            if in_loop:
                raise ExtractError('return inside a loop is not supported')
            return pad + self.ret(st.value, env)
        if isinstance(st, ast.If):
            return '%sif %s then\n%s\n%selse\n%s' % (pad, T(st.test, env), self.block(st.body, k, ind + 2, env, defined, in_loop),
                                                    pad, self.block(st.orelse, k, ind + 2, env, defined, in_loop))
        if isinstance(st, ast.While):
            if in_loop or st.orelse:
                raise ExtractError('nested loops / while-else are not supported')
            for n in ast.walk(st):
                if isinstance(n, (ast.Break, ast.Continue, ast.Return)):
                    raise ExtractError('break/continue/return inside a loop is not supported')
            mod = self._assigned(st.body)
            for m in mod:
                if m not in defined:
                    raise ExtractError('loop assigns %s before it is defined' % m)
            lname = '%s_loop%d' % (self.name, self.nloops)
            self.nloops += 1
            tup = mod[0] if len(mod) == 1 else '(' + ', '.join(mod) + ')'
            tty = 'Int' if len(mod) == 1 else ' × '.join(['Int'] * len(mod))

            def back(i, e, d):
                return ' ' * i + '%s fuel %s' % (lname, ' '.join(defined))
            body = self.block(st.body, back, 6, env, defined, True)
            self.aux.append('def %s (fuel : Nat) (%s : Int) : Option (%s) :=\n  match fuel with\n  | 0 => none\n  | fuel + 1 =>\n'
                            '    if %s then\n%s\n    else some %s' % (lname, ' '.join(defined), tty, T(st.test, env), body, tup))
            return '%smatch %s %d %s with\n%s| none => Ret.fuel\n%s| some %s =>\n' % (pad, lname, self.fuel, ' '.join(defined), pad, pad, tup) \
                + k(ind + 2, env, defined)
        raise ExtractError('untranslatable statement %s' % ast.unparse(st).split('\n')[0])

    def render(self):
        params = [a.arg for a in self.fn.args.args]
        env = {p: p for p in params}
        body = self.block(self.fn.body, lambda i, e, d: ' ' * i + 'Ret.none', 2, env, list(params))
        return '\n\n'.join(self.aux + ['def %s (%s : Int) : Ret :=\n%s' % (self.name, ' '.join(params), body)])


def extract(ctx):
    g = X.GenFile(PID, ['cflib/utils/encoding.py'])
    g.raw(PRELUDE)
    enc = X.parse('cflib/utils/encoding.py')
    g.raw('/-! ### cflib/utils/encoding.py: fp16_to_float (translated) -/\n')
    g.raw(FuncTranslator(enc, X.find(enc, 'fp16_to_float'), 'fp16_to_float').render())
    return {'C13.lean': g.render()}


# ======================================================================================================
# Tie B
# ======================================================================================================
def _quiet():
    import logging
    import warnings
    logging.disable(logging.CRITICAL)
    warnings.filterwarnings('ignore')


def canon_num(x):
    """canonical text of a Python number returned by a codec: `int:<v>` or `f32:<binary32 bits>` (`f32:nan` for NaNs:
    CPython does not preserve NaN payloads across the binary32 -> binary64 widening, only NaN-ness is observable)"""
    import math
    import struct
    if isinstance(x, bool) or not isinstance(x, (int, float)):
        return 'other:' + type(x).__name__
    if isinstance(x, int):
        return 'int:%d' % x
    if math.isnan(x):
        return 'f32:nan'
    try:
        b = struct.pack('<f', x)
    except OverflowError:
        return 'f64:%s' % struct.pack('<d', x).hex()
    if struct.unpack('<f', b)[0] != x:
        return 'f64:%s' % struct.pack('<d', x).hex()      # not a binary32 value
    return 'f32:%d' % struct.unpack('<I', b)[0]


def canon_model_num(reply):
    """the model prints the exact binary32 pattern; fold NaN patterns like canon_num does"""
    if reply.startswith('ok f32:'):
        b = int(reply[7:])
        if (b >> 23) & 0xFF == 0xFF and b & 0x7FFFFF:
            return 'ok f32:nan'
    return reply


def real_fp16(v):
    from cflib.utils.encoding import fp16_to_float
    from harness.lib.common import exc_enum
    try:
        return 'ok ' + canon_num(fp16_to_float(v))
    except Exception as e:
        return 'err ' + exc_enum(e)


def gen_cases(ctx):
    rng = ctx.rng
    cases = []
    # half floats: all 65536 patterns (unsigned reading) + the signed reading of the upper half + wider ints
    for h in range(65536):
        cls = 'zero' if h & 0x7FFF == 0 else 'sub' if (h >> 10) & 31 == 0 else 'inf' if h & 0x7FFF == 0x7C00 else \
            'nan' if (h >> 10) & 31 == 31 else 'normal'
        cases.append(('fp16', 'fp16 %d' % h, lambda v=h: real_fp16(v), {'op': 'fp16', 'h': h}, ('fp16', h), 'fp16:' + cls))
    signed = range(-32768, 0) if ctx.tier == 'thorough' else sorted(set(list(range(-32768, 0, 7)) + [-1, -2, -1024, -1023, -31744, -31745, -32767]))
    for v in signed:
        cases.append(('fp16', 'fp16 %d' % v, lambda v=v: real_fp16(v), {'op': 'fp16', 'v': v}, ('fp16s', v), 'fp16:signed'))
    for _ in range(200):
        v = rng.choice([1, -1]) * rng.getrandbits(rng.choice([17, 20, 33, 70]))
        cases.append(('fp16', 'fp16 %d' % v, lambda v=v: real_fp16(v), {'op': 'fp16', 'v': v}, ('fp16w', v), 'fp16:wide'))
    return cases


def correspond(ctx):
    _quiet()
    cases = gen_cases(ctx)
    replies = ctx.lean(DRIVER, [c[1] for c in cases])
    for (kind, line, thunk, desc, key, cnt), model in zip(cases, replies):
        real = thunk()
        model = canon_model_num(model)
        ctx.count(cnt)
        ctx.count('result:' + ' '.join(real.split(' ')[:2]).split(':')[0])
        ctx.case(desc, key)
        if real != model:
            ctx.disagree(kind, line[:300], model[:300], real[:300])


# ======================================================================================================
# failing-input search: the property itself on the real code
# ======================================================================================================
def spec_half(h):
    """IEEE-754 binary16 value of pattern h as (kind, sign, Fraction) - independent Python twin of Spec.halfValue"""
    from fractions import Fraction
    s, e, m = h >> 15, (h >> 10) & 31, h & 1023
    if e == 31:
        return ('inf', s, None) if m == 0 else ('nan', None, None)
    if e == 0:
        return ('fin', s, Fraction(m, 1 << 24))
    return ('fin', s, Fraction(1024 + m, 1024) * Fraction(2) ** (e - 15))


def value_of(x):
    import math
    from fractions import Fraction
    if isinstance(x, bool) or not isinstance(x, float):
        return ('not-a-float', type(x).__name__, x)
    if math.isnan(x):
        return ('nan', None, None)
    if math.isinf(x):
        return ('inf', 1 if x < 0 else 0, None)
    return ('fin', 1 if math.copysign(1.0, x) < 0 else 0, abs(Fraction(x)))


def search(ctx):
    _quiet()
    import numpy as np
    from cflib.utils.encoding import fp16_to_float
    # (1) every half pattern decodes to a float with the binary16 value (spec twin AND numpy.float16)
    ref = np.arange(65536, dtype=np.uint16).view(np.float16).astype(np.float64)
    for h in list(range(65536)) + list(range(-32768, 0)):
        try:
            got = value_of(fp16_to_float(h))
        except Exception as e:
            got = ('raised', type(e).__name__, None)
        want = spec_half(h % 65536)
        assert want == value_of(float(ref[h % 65536])), 'spec twin disagrees with numpy.float16 at %d' % h
        if got != want:
            cls = 'zero' if h & 0x7FFF == 0 else 'inf' if h & 0x7FFF == 0x7C00 else 'nan' if (h >> 10) & 31 == 31 else 'finite'
            key = 'D11-fp16-int-return' if got[0] == 'not-a-float' and got[1] == 'int' and cls != 'finite' else 'fp16-wrong-value'
            ctx.witness(key, 'fp16_to_float does not return the IEEE binary16 value as a float', {'float16': h}, got=str(got), want=str(want))

"""C14 - Stored configuration images round-trip and validity follows the checksum.

Tie A: token, struct formats + argument lists, read addresses/lengths, comparison texts, checksum modulus, bit
expressions and layout constants are re-extracted from cflib/crazyflie/mem/*.py and cflib/localization/*.py into Gen/C14.lean.
Tie B: the real memory-element classes, driven through a fake `mem_handler` backed by a bytearray, and the real YAML file
managers (real PyYAML, temp dir) vs the Lean model (Driver/C14.lean).
"""
import ast
import contextlib
import io
import os
import struct
import tempfile
from binascii import crc32

from harness.lib import extract as X
from harness.lib.common import ExtractError, bits_f32, exc_enum, f32bits, hexs

PID = 'C14'
LEAN_TARGETS = ['CfVerif.Props.C14']
PROPS_MODULES = ['CfVerif.Props.C14']
DRIVER = 'Driver/C14.lean'
REQUIRED_THEOREMS = ['CfVerif.C14.' + t for t in (
    'i2c_roundtrip_v0', 'i2c_roundtrip_v1', 'i2c_image_total', 'i2c_update_is_layout', 'i2c_valid_iff_checksum',
    'i2c_single_corruption_detected_partial', 'i2c_version_corruption_iff', 'i2c_single_corruption_detected_counterexample',
    'ow_image_total', 'ow_roundtrip', 'ow_roundtrip_lookup', 'ow_update_is_layout', 'ow_valid_iff_crc', 'ow_completes_iff', 'ow_roundtrip_live_counterexample',
    'ow_valid_iff_crc_live_counterexample',
    'lh_write_completes_with_layout', 'lh_repeated_upload', 'lh_write_geos_is_layout', 'lh_write_calibs_is_layout', 'lh_read_all_spec',
    'lh_write_then_read_all', 'lh_prepare_pads',
    'lh_geo_container_roundtrip', 'lh_calib_container_roundtrip', 'lh_geo_roundtrip', 'lh_calib_roundtrip', 'lh_config_roundtrip',
    'deck_info_parse', 'deck_flags', 'deck_info_version_rejected',
    'loco_parse', 'loco2_id_list', 'loco2_active_id_list', 'loco2_anchor_data', 'poly4d_layout', 'ledtiming_image', 'ledtiming_layout',
    'i2c_update_history_free', 'i2c_update_all_histories', 'i2c_update_is_single_shot', 'i2c_reupdate_valid_iff_checksum',
    'i2c_pending_blocks_and_disconnect_clears', 'i2c_update_ok_completes', 'i2c_update_always_completes', 'i2c_invalid_then_rewrite_then_update',
    'ow_update_ok_completes', 'ow_update_history_free', 'ow_update_all_histories', 'ow_reupdate_is_single_shot',
    'ow_stale_elements_counterexample',
    'lh_file_roundtrip', 'lh_file_roundtrip_mem', 'param_file_roundtrip', 'lh_file_rejects', 'param_file_rejects')]
TRUSTED = ['harness/corr/c14.py extractor + correspondence (fake mem_handler: a byte array; requests served in order after the caller returned)',
           'binascii.crc32 = the bitwise CRC-32 of Model/C14 (reflected 0xEDB88320, init/xorout 0xFFFFFFFF): cross-checked on random inputs every run',
           'struct double->float32 rounding is not modelled: floats are carried as float32 bit patterns; signalling NaNs are quieted by CPython and compared modulo the quiet bit',
           'PyYAML: safe_load(dump(v)) = v with every dict sorted by key, for plain values (None/bool/int/float/str/list/dict with all-str or all-int keys); NaN sign/payload not preserved; cross-checked every run',
           "native struct formats 'B'/'BB' = single bytes",
           'device-side layouts (Spec/C14: EEPROM block, 1-wire memory, deck info records, anchor pages, struct poly4d, LED timing records) written from firmware knowledge',
           "bytes.decode() of deck names = strict UTF-8 decoder of Model/C14 (cross-checked incl. malformed sequences)"]
ASSUMPTIONS = ['a read returns exactly the requested bytes (the real Memory class completes a read only with the full length); device read failures are outside the model',
               'element dict keys of OWElement are modelled as ids through the element_mapping bijection; non-Latin-1 strings raise as in Python',
               'content types outside the model: numpy arrays / non-plain objects in YAML files, missing dict keys in I2CElement.elements, non-integer EEPROM fields, negative LED timing fields, CompressedStart/CompressedSegment trajectories',
               'dict keys that are equal across types in Python (True == 1 == 1.0) are not identified by the model',
               'the stateful 1-wire theorems are about update() repaired by fixes/D121-c14.patch (elements re-initialised); on a tree without it gen_state_ow fails and the D121 witness is replayed',
               'after an exception escapes new_data the attributes of the object are modelled only through the universally quantified prior state of the history theorems (a modelled history ends at the exception)',
               'LocoMemory/LocoMemory2/DeckMemoryManager re-initialisation is pinned in Gen and exercised by repeated reads on one object; their Lean models are single-shot']
RULE = ('cases = per image kind: write side (boundary + random field values incl. every struct range limit and float32 extremes), parse side (written images inside '
        'larger memories, every single-byte corruption of sampled EEPROM images, CRC/length/id corruptions and CRC-correct malformed TLVs for 1-wire, every 1-wire section '
        'length x first id, all 2^7 x 2^2 deck bit-field combinations, UTF-8/invalid deck names, truncated memories), lighthouse pages for random subsets of base stations, '
        'anchor lists, trajectory/LED images, YAML: PyYAML round trip of random plain values, file round trips, malformed documents of every envelope/shape class; '
        'non-trivial = distinct (operation, input) pairs')


# ======================================================================================================
# Tie A
# ======================================================================================================
class _Subst(ast.NodeTransformer):
    """replace every sub-expression whose source text is a key of `env` by a Name, and `int(x)` by x"""

    def __init__(self, env):
        self.env = env

    def visit(self, node):
        if isinstance(node, ast.expr):
            s = ast.unparse(node)
            if s in self.env:
                return ast.Name(id=self.env[s], ctx=ast.Load())
            if isinstance(node, ast.Call) and ast.unparse(node.func) == 'int' and len(node.args) == 1 and not node.keywords:
                return self.visit(node.args[0])
        return self.generic_visit(node)


def to_lean(e, env):
    """X.expr_to_lean after substituting arbitrary sub-expressions (subscripts, attributes) by variables"""
    import copy
    names = {v: v for v in env.values()}
    e2 = _Subst(env).visit(copy.deepcopy(e))
    return X.expr_to_lean(e2, names)


def assigns(node):
    """{target text: value} of the single-target assignments under node (the LAST one in source order wins)"""
    al = sorted((n for n in ast.walk(node) if isinstance(n, ast.Assign) and len(n.targets) == 1), key=lambda n: (n.lineno, n.col_offset))
    return {ast.unparse(n.targets[0]): n.value for n in al}


def unpack_targets(node):
    """for every `<targets> = struct.unpack(...)` under node, in source order: the list of target texts"""
    res = []
    for n in sorted((m for m in ast.walk(node) if isinstance(m, ast.Assign)), key=lambda m: (m.lineno, m.col_offset)):
        v = n.value
        if isinstance(v, ast.Subscript):
            v = v.value
        if isinstance(v, ast.Call) and ast.unparse(v.func) == 'struct.unpack' and len(n.targets) == 1:
            t = n.targets[0]
            res.append([ast.unparse(e) for e in t.elts] if isinstance(t, (ast.Tuple, ast.List)) else [ast.unparse(t)])
    return res


def calls(node, fname):
    res = [n for n in ast.walk(node) if isinstance(n, ast.Call) and ast.unparse(n.func) == fname]
    return sorted(res, key=lambda n: (n.lineno, n.col_offset))


def call_args(node, fname):
    return [[ast.unparse(a) for a in c.args] for c in calls(node, fname)]


def one_struct(node, what, idx=None, n=None):
    sc = X.struct_calls(node)
    if n is not None:
        X.expect(len(sc) == n, '%s: expected %d struct calls, found %d' % (what, n, len(sc)))
    return sc if idx is None else sc[idx]


def emit_struct(g, name, sc):
    X.expect(sc['fmt'] is not None, 'struct format of %s is not a literal: %s' % (name, sc['fmt_src']))
    g.string(name + 'Fmt', sc['fmt'])
    g.strings(name + 'Args', sc['args'])


def int_args(lst, what):
    try:
        return [int(ast.literal_eval(a)) for a in lst]
    except Exception:
        raise ExtractError('%s: expected integer literals, got %s' % (what, lst))


def extract_i2c(g):
    tree = X.parse('cflib/crazyflie/mem/i2c_element.py')
    tok = None
    for n in tree.body:
        if isinstance(n, ast.Assign) and ast.unparse(n.targets[0]) == 'EEPROM_TOKEN':
            tok = ast.literal_eval(n.value)
    X.expect(isinstance(tok, bytes), 'EEPROM_TOKEN is not a bytes literal')
    g.nats('eepromToken', list(tok))
    cls = X.find(tree, 'I2CElement')
    nd = X.find(cls, 'new_data')
    sc = one_struct(nd, 'I2CElement.new_data', n=2)
    emit_struct(g, 'i2cHdr', sc[0])
    emit_struct(g, 'i2cAddr', sc[1])
    g.strings('i2cNewDataCompares', X.compares(nd))
    ut = unpack_targets(nd)
    X.expect(len(ut) == 2, 'I2CElement.new_data: expected two unpack assignments')
    g.strings('i2cHdrTargets', ut[0])
    g.strings('i2cAddrTargets', ut[1])
    rd = call_args(nd, 'self.mem_handler.read')
    X.expect(len(rd) == 1 and rd[0][0] == 'self', 'I2CElement.new_data: expected one mem_handler.read(self, a, n)')
    g.nats('i2cRead2', int_args(rd[0][1:], 'I2CElement.new_data read'))
    a = assigns(nd)
    X.expect("self.elements['radio_address']" in a, 'I2CElement.new_data: radio_address assignment not found')
    g.string('i2cAddrJoinSrc', ast.unparse(a["self.elements['radio_address']"]))
    g.raw('def i2cAddrJoin (u l : Nat) : Nat := ' + to_lean(a["self.elements['radio_address']"], {'radio_address_upper': 'u', 'radio_address_lower': 'l'}))
    X.expect('data' in a, 'I2CElement.new_data: `data = self.datav0 + data` not found')
    g.string('i2cFullDataSrc', ast.unparse(a['data']))
    up = X.find(cls, 'update')
    rd = call_args(up, 'self.mem_handler.read')
    X.expect(len(rd) == 1 and rd[0][0] == 'self', 'I2CElement.update: expected one mem_handler.read(self, a, n)')
    g.nats('i2cRead1', int_args(rd[0][1:], 'I2CElement.update read'))
    ck = X.find(cls, '_checksum256')
    rets = [n for n in ast.walk(ck) if isinstance(n, ast.Return)]
    X.expect(len(rets) == 1 and isinstance(rets[0].value, ast.BinOp) and isinstance(rets[0].value.op, ast.Mod),
             '_checksum256: expected `return <sum> % <modulus>`')
    g.string('i2cChecksumSumSrc', ast.unparse(rets[0].value.left))
    g.nat('i2cChecksumMod', int(ast.literal_eval(rets[0].value.right)))
    wd = X.find(cls, 'write_data')
    sc = one_struct(wd, 'I2CElement.write_data', n=4)
    emit_struct(g, 'i2cW0', sc[0])
    emit_struct(g, 'i2cW1', sc[1])
    emit_struct(g, 'i2cWck', sc[2])
    g.strings('i2cWriteCompares', X.compares(wd))
    tuples = [n for n in ast.walk(wd) if isinstance(n, ast.Assign) and ast.unparse(n.targets[0]) == 'data' and isinstance(n.value, ast.Tuple)]
    tuples.sort(key=lambda n: n.lineno)
    X.expect(len(tuples) == 2, 'I2CElement.write_data: expected two `data = (...)` tuples')
    g.strings('i2cW0Data', [ast.unparse(e) for e in tuples[0].value.elts])
    g.strings('i2cW1Data', [ast.unparse(e) for e in tuples[1].value.elts])
    X.expect(len(tuples[1].value.elts) == 7, 'I2CElement.write_data: v1 tuple should have 7 entries')
    env = {"self.elements['radio_address']": 'a'}
    g.raw('def i2cAddrHi (a : Nat) : Nat := ' + to_lean(tuples[1].value.elts[5], env))
    g.raw('def i2cAddrLo (a : Nat) : Nat := ' + to_lean(tuples[1].value.elts[6], env))
    a = assigns(wd)
    g.string('i2cImageSrc', ast.unparse(a['image']))     # last assignment: image = EEPROM_TOKEN + image
    aug = [ast.unparse(n) for n in ast.walk(wd) if isinstance(n, ast.AugAssign)]
    g.strings('i2cImageAug', sorted(aug))
    wr = call_args(wd, 'self.mem_handler.write')
    X.expect(len(wr) == 1, 'I2CElement.write_data: expected one mem_handler.write')
    g.strings('i2cWriteCall', wr[0])


def crc_masks(node, what):
    """the `<m>` of every `crc32(...) & <m>` under node, in source order"""
    res = []
    for n in sorted((m for m in ast.walk(node) if isinstance(m, ast.BinOp) and isinstance(m.op, ast.BitAnd)), key=lambda m: (m.lineno, m.col_offset)):
        if isinstance(n.left, ast.Call) and ast.unparse(n.left.func) == 'crc32':
            res.append((ast.unparse(n.left.args[0]), int(ast.literal_eval(n.right))))
    X.expect(res, what + ': no `crc32(...) & mask` found')
    return res


def extract_ow(g):
    tree = X.parse('cflib/crazyflie/mem/ow_element.py')
    cls = X.find(tree, 'OWElement')
    em = None
    for n in cls.body:
        if isinstance(n, ast.Assign) and ast.unparse(n.targets[0]) == 'element_mapping':
            em = ast.literal_eval(n.value)
    X.expect(isinstance(em, dict) and all(isinstance(k, int) and isinstance(v, str) for k, v in em.items()), 'OWElement.element_mapping is not a literal {int: str}')
    X.expect(len(set(em.values())) == len(em), 'OWElement.element_mapping names are not distinct')
    g.nats('owIds', sorted(em))
    g.strings('owNames', [em[k] for k in sorted(em)])
    # write side
    wd = X.find(cls, 'write_data')
    sc = one_struct(wd, 'OWElement.write_data', n=6)
    for name, c in zip(('owWHdr', 'owWHdrCrc', 'owWKeyLen', 'owWArea', 'owWAreaCrc'), sc[:5]):
        emit_struct(g, name, c)
    try:
        g.nat('owWMagic', int(ast.literal_eval(sc[0]['args'][0])))
    except Exception:
        raise ExtractError('OWElement.write_data: first header field is not an integer literal: %s' % sc[0]['args'][:1])
    cm = crc_masks(wd, 'OWElement.write_data')
    g.strings('owWCrcArgs', [a for a, _ in cm])
    g.nats('owWCrcMasks', [m for _, m in cm])
    loops = [n for n in ast.walk(wd) if isinstance(n, ast.For)]
    X.expect(len(loops) == 1, 'OWElement.write_data: expected one for loop')
    g.string('owWLoopIter', ast.unparse(loops[0].iter))
    a = assigns(wd)
    for k in ('elem_string', 'key_encoding', 'data'):
        X.expect(k in a, 'OWElement.write_data: assignment to %s not found' % k)
    g.strings('owWAssigns', [ast.unparse(a['elem_string']), ast.unparse(a['key_encoding']), ast.unparse(a['data'])])
    g.strings('owWAug', sorted(ast.unparse(n) for n in ast.walk(wd) if isinstance(n, ast.AugAssign)))
    wr = call_args(wd, 'self.mem_handler.write')
    X.expect(len(wr) == 1, 'OWElement.write_data: expected one mem_handler.write')
    g.strings('owWriteCall', wr[0])
    # read side
    up = X.find(cls, 'update')
    rd = call_args(up, 'self.mem_handler.read')
    X.expect(len(rd) == 1 and rd[0][0] == 'self', 'OWElement.update: expected one mem_handler.read(self, a, n)')
    g.nats('owRead1', int_args(rd[0][1:], 'OWElement.update read'))
    nd = X.find(cls, 'new_data')
    g.strings('owNewDataCompares', X.compares(nd))
    ifs = sorted((n for n in ast.walk(nd) if isinstance(n, ast.If)), key=lambda n: (n.lineno, n.col_offset))
    g.strings('owNewDataTests', [ast.unparse(n.test) for n in ifs])
    sc = one_struct(nd, 'OWElement.new_data', n=1)
    emit_struct(g, 'owLen', sc[0])
    g.strings('owLenTargets', unpack_targets(nd)[0])
    rd = call_args(nd, 'self.mem_handler.read')
    X.expect(len(rd) == 1 and rd[0][0] == 'self' and len(rd[0]) == 3, 'OWElement.new_data: expected one mem_handler.read(self, a, n)')
    g.nat('owRead2Addr', int_args(rd[0][1:2], 'OWElement.new_data read')[0])
    n2 = ast.parse(rd[0][2], mode='eval').body
    g.string('owRead2LenSrc', rd[0][2])
    g.raw('def owRead2Len (elem_len : Nat) : Nat := ' + to_lean(n2, {'elem_len': 'elem_len'}))
    g.strings('owHdrCallArgs', [x[0] for x in call_args(nd, 'self._parse_and_check_header')])
    g.strings('owElemCallArgs', [x[0] for x in call_args(nd, 'self._parse_and_check_elements')])
    ph = X.find(cls, '_parse_and_check_header')
    sc = one_struct(ph, 'OWElement._parse_and_check_header', n=1)
    emit_struct(g, 'owRHdr', sc[0])
    g.strings('owRHdrTargets', unpack_targets(ph)[0])
    cm = crc_masks(ph, '_parse_and_check_header')
    g.strings('owRHdrCrcArgs', [a for a, _ in cm])
    g.nats('owRHdrCrcMasks', [m for _, m in cm])
    g.strings('owRHdrCompares', X.compares(ph))
    start = [n for n in ast.walk(ph) if isinstance(n, ast.Compare) and ast.unparse(n.left) == 'start']
    X.expect(len(start) == 1 and isinstance(start[0].ops[0], ast.Eq), '_parse_and_check_header: `start == <magic>` not found')
    g.nat('owMagic', int(ast.literal_eval(start[0].comparators[0])))
    pe = X.find(cls, '_parse_and_check_elements')
    sc = one_struct(pe, 'OWElement._parse_and_check_elements', n=1)
    emit_struct(g, 'owRTlv', sc[0])
    g.strings('owRTlvTargets', unpack_targets(pe)[0])
    cm = crc_masks(pe, '_parse_and_check_elements')
    g.strings('owRElemCrcArgs', [a for a, _ in cm])
    g.nats('owRElemCrcMasks', [m for _, m in cm])
    g.strings('owRElemCompares', X.compares(pe))
    a = assigns(pe)
    for k in ('crc', 'elem_data', 'self.elements[self.element_mapping[eid]]'):
        X.expect(k in a, '_parse_and_check_elements: assignment to %s not found' % k)
    first = sorted((n for n in ast.walk(pe) if isinstance(n, ast.Assign) and ast.unparse(n.targets[0]) == 'elem_data'), key=lambda n: n.lineno)
    g.strings('owRElemAssigns', [ast.unparse(a['crc']), ast.unparse(first[0].value), ast.unparse(first[-1].value),
                                 ast.unparse(a['self.elements[self.element_mapping[eid]]'])])
    loops = [n for n in ast.walk(pe) if isinstance(n, ast.While)]
    X.expect(len(loops) == 1, '_parse_and_check_elements: expected one while loop')
    g.string('owRLoopCond', ast.unparse(loops[0].test))


def class_consts_eval(cls, env=None):
    """evaluate the integer class constants of a class body (literals and + - * // << | of earlier constants / env)"""
    vals = dict(env or {})

    def ev(e):
        if isinstance(e, ast.Constant) and isinstance(e.value, int) and not isinstance(e.value, bool):
            return e.value
        if isinstance(e, ast.Name) and e.id in vals:
            return vals[e.id]
        if isinstance(e, ast.Attribute) and ast.unparse(e) in vals:
            return vals[ast.unparse(e)]
        if isinstance(e, ast.BinOp):
            a, b = ev(e.left), ev(e.right)
            ops = {ast.Add: lambda: a + b, ast.Sub: lambda: a - b, ast.Mult: lambda: a * b, ast.FloorDiv: lambda: a // b,
                   ast.LShift: lambda: a << b, ast.BitOr: lambda: a | b}
            if type(e.op) in ops:
                return ops[type(e.op)]()
        raise KeyError(ast.unparse(e))
    out = {}
    for n in cls.body:
        if isinstance(n, ast.Assign) and len(n.targets) == 1 and isinstance(n.targets[0], ast.Name):
            try:
                v = ev(n.value)
            except (KeyError, ZeroDivisionError):
                continue
            vals[n.targets[0].id] = v
            out[n.targets[0].id] = v
    return out


def need(d, keys, what):
    for k in keys:
        X.expect(k in d, '%s: constant %s not found / not an integer expression' % (what, k))
    return [d[k] for k in keys]


def extract_lh(g):
    tree = X.parse('cflib/crazyflie/mem/lighthouse_memory.py')
    geo = X.find(tree, 'LighthouseBsGeometry')
    gc = class_consts_eval(geo)
    sv, sg = need(gc, ['SIZE_VECTOR', 'SIZE_GEOMETRY'], 'LighthouseBsGeometry')
    g.nat('lhSizeVector', sv)
    g.nat('lhSizeGeometry', sg)
    sf = X.find(geo, 'set_from_mem_data')
    g.strings('lhGeoReadVectorArgs', [x[0] for x in call_args(sf, 'self._read_vector')])
    sc = one_struct(sf, 'LighthouseBsGeometry.set_from_mem_data', n=1)
    emit_struct(g, 'lhGeoValidR', sc[0])
    a = assigns(sf)
    g.strings('lhGeoSetTargets', sorted(a))
    am = X.find(geo, 'add_mem_data')
    g.strings('lhGeoAddVectorArgs', [x[1] for x in call_args(am, 'self._add_vector')])
    sc = one_struct(am, 'LighthouseBsGeometry.add_mem_data', n=1)
    emit_struct(g, 'lhGeoValidW', sc[0])
    sc = one_struct(X.find(geo, '_add_vector'), '_add_vector', n=1)
    emit_struct(g, 'lhVecW', sc[0])
    rv = X.find(geo, '_read_vector')
    sc = one_struct(rv, '_read_vector', n=1)
    emit_struct(g, 'lhVecR', sc[0])
    g.strings('lhVecRTargets', unpack_targets(rv)[0])
    rets = [ast.unparse(n.value) for n in ast.walk(rv) if isinstance(n, ast.Return)]
    g.strings('lhVecRReturn', rets)
    cal = X.find(tree, 'LighthouseBsCalibration')
    cc = class_consts_eval(cal)
    ss, scal = need(cc, ['SIZE_SWEEP', 'SIZE_CALIBRATION'], 'LighthouseBsCalibration')
    g.nat('lhSizeSweep', ss)
    g.nat('lhSizeCalibration', scal)
    sf = X.find(cal, 'set_from_mem_data')
    g.strings('lhCalibUnpackSweepArgs', [x[0] for x in call_args(sf, 'self._unpack_sweep_calibration')])
    sc = one_struct(sf, 'LighthouseBsCalibration.set_from_mem_data', n=1)
    emit_struct(g, 'lhCalibTailR', sc[0])
    g.strings('lhCalibTailRTargets', unpack_targets(sf)[0])
    us = X.find(cal, '_unpack_sweep_calibration')
    sc = one_struct(us, '_unpack_sweep_calibration', n=1)
    emit_struct(g, 'lhSweepR', sc[0])
    g.strings('lhSweepRTargets', unpack_targets(us)[0])
    am = X.find(cal, 'add_mem_data')
    g.strings('lhCalibPackSweepArgs', [x[1] for x in call_args(am, 'self._pack_sweep_calib')])
    sc = one_struct(am, 'LighthouseBsCalibration.add_mem_data', n=1)
    emit_struct(g, 'lhCalibTailW', sc[0])
    sc = one_struct(X.find(cal, '_pack_sweep_calib'), '_pack_sweep_calib', n=1)
    emit_struct(g, 'lhSweepW', sc[0])
    mem = X.find(tree, 'LighthouseMemory')
    mc = class_consts_eval(mem, {'LighthouseBsGeometry.SIZE_GEOMETRY': sg})
    gs, cs, ps = need(mc, ['GEO_START_ADDR', 'CALIB_START_ADDR', 'PAGE_SIZE'], 'LighthouseMemory')
    g.nat('lhGeoStart', gs)
    g.nat('lhCalibStart', cs)
    g.nat('lhPageSize', ps)
    g.strings('lhNewDataCompares', X.compares(X.find(mem, 'new_data')))
    env = {'self.GEO_START_ADDR': 'lhGeoStart', 'self.CALIB_START_ADDR': 'lhCalibStart', 'self.PAGE_SIZE': 'lhPageSize', 'bs_id': 'bs'}
    for fn, name in (('read_geo_data', 'lhGeoReadAddr'), ('read_calib_data', 'lhCalibReadAddr')):
        rd = calls(X.find(mem, fn), 'self.mem_handler.read')
        X.expect(len(rd) == 1 and len(rd[0].args) == 3 and ast.unparse(rd[0].args[0]) == 'self', 'LighthouseMemory.%s: expected one mem_handler.read(self, a, n)' % fn)
        g.raw('def %s (bs : Nat) : Nat := %s' % (name, to_lean(rd[0].args[1], env)))
        g.string(name + 'LenSrc', ast.unparse(rd[0].args[2]))
    for fn, name, var in (('write_geo_data', 'lhGeoWriteAddr', 'geo_addr'), ('write_calib_data', 'lhCalibWriteAddr', 'calib_addr')):
        f = X.find(mem, fn)
        a = assigns(f)
        X.expect(var in a, 'LighthouseMemory.%s: %s = ... not found' % (fn, var))
        g.raw('def %s (bs : Nat) : Nat := %s' % (name, to_lean(a[var], env)))
        wr = call_args(f, 'self.mem_handler.write')
        X.expect(len(wr) == 1, 'LighthouseMemory.%s: expected one mem_handler.write' % fn)
        g.strings(name + 'Call', wr[0])
        g.strings(name + 'AddMem', [ast.unparse(c) for c in ast.walk(f) if isinstance(c, ast.Call) and ast.unparse(c.func).endswith('.add_mem_data')])
    helper = X.find(tree, 'LighthouseMemHelper')
    hc = class_consts_eval(helper)
    g.nat('lhNrOfChannels', need(hc, ['NR_OF_CHANNELS'], 'LighthouseMemHelper')[0])


def extract_deck(g):
    tree = X.parse('cflib/crazyflie/mem/deck_memory.py')
    dm = X.find(tree, 'DeckMemory')
    dc = class_consts_eval(dm)
    masks = ['MASK_IS_VALID', 'MASK_IS_STARTED', 'MASK_SUPPORTS_READ', 'MASK_SUPPORTS_WRITE', 'MASK_SUPPORTS_UPGRADE',
             'MASK_UPGRADE_REQUIRED', 'MASK_BOOTLOADER_ACTIVE', 'MASK_SUPPORTS_RESET_TO_FW', 'MASK_SUPPORTS_RESET_TO_BOOTLOADER']
    vals = need(dc, masks, 'DeckMemory')
    for k, v in zip(masks, vals):
        g.nat('deck' + ''.join(w.capitalize() for w in k.split('_')), v)
    # the properties: name -> (bit field, mask)
    props = []
    for n in dm.body:
        if isinstance(n, ast.FunctionDef) and any(ast.unparse(d) == 'property' for d in n.decorator_list):
            rets = [r for r in ast.walk(n) if isinstance(r, ast.Return)]
            X.expect(len(rets) == 1, 'DeckMemory.%s: expected one return' % n.name)
            props.append('%s: %s' % (n.name, ast.unparse(rets[0].value)))
    g.strings('deckProps', props)
    pa = X.find(dm, '_parse')
    sc = one_struct(pa, 'DeckMemory._parse', n=2)
    emit_struct(g, 'deckBits', sc[0])
    emit_struct(g, 'deckRec', sc[1])
    ut = unpack_targets(pa)
    g.strings('deckBitsTargets', ut[0])
    g.strings('deckRecTargets', ut[1])
    a = assigns(pa)
    X.expect('self.name' in a, 'DeckMemory._parse: self.name = ... not found')
    g.string('deckNameSrc', ast.unparse(a['self.name']))
    tries = [n for n in ast.walk(pa) if isinstance(n, ast.Try)]
    X.expect(len(tries) == 1 and len(tries[0].handlers) == 1, 'DeckMemory._parse: expected one try/except')
    g.string('deckParseExcept', ast.unparse(tries[0].handlers[0].type) if tries[0].handlers[0].type else '')
    g.strings('deckParseHandler', sorted(ast.unparse(n) for n in tries[0].handlers[0].body if isinstance(n, ast.Assign)))
    g.strings('deckParseTests', [ast.unparse(n.test) for n in ast.walk(pa) if isinstance(n, ast.If)])
    mgr = X.find(tree, 'DeckMemoryManager')
    mc = class_consts_eval(mgr)
    names = ['MAX_NR_OF_DECK_MEM_INFOS', 'SIZE_OF_DECK_MEM_INFO', 'SIZE_OF_VERSION', 'SIZE_OF_INFO_SECTION', 'INFO_SECTION_ADDRESS',
             'COMMAND_SECTION_ADDRESS', 'SIZE_OF_COMMAND_SECTION', 'SUPPORTED_VERSION']
    for k, v in zip(names, need(mc, names, 'DeckMemoryManager')):
        g.nat('deck' + ''.join(w.capitalize() for w in k.split('_')), v)
    pi = X.find(mgr, '_parse_info_section')
    sc = one_struct(pi, '_parse_info_section', n=1)
    emit_struct(g, 'deckVersion', sc[0])
    g.strings('deckInfoCompares', X.compares(pi))
    loops = [n for n in ast.walk(pi) if isinstance(n, ast.For)]
    X.expect(len(loops) == 1, '_parse_info_section: expected one for loop')
    g.string('deckLoopIter', ast.unparse(loops[0].iter))
    a = assigns(pi)
    env = {'self.SIZE_OF_VERSION': 'deckSizeOfVersion', 'self.SIZE_OF_DECK_MEM_INFO': 'deckSizeOfDeckMemInfo', 'i': 'i', 'start': 'start',
           'self.COMMAND_SECTION_ADDRESS': 'deckCommandSectionAddress', 'self.SIZE_OF_COMMAND_SECTION': 'deckSizeOfCommandSection'}
    X.expect('start' in a and 'end' in a and 'deck_memory' in a, '_parse_info_section: start/end/deck_memory assignments not found')
    g.raw('def deckStart (i : Nat) : Nat := ' + to_lean(a['start'], env))
    g.raw('def deckEnd (start : Nat) : Nat := ' + to_lean(a['end'], env))
    dmc = a['deck_memory']
    X.expect(isinstance(dmc, ast.Call) and ast.unparse(dmc.func) == 'DeckMemory' and len(dmc.args) == 2, '_parse_info_section: DeckMemory(self, <cmd base>) not found')
    g.raw('def deckCmdBase (i : Nat) : Nat := ' + to_lean(dmc.args[1], env))
    g.strings('deckParseCall', [x[0] for x in call_args(pi, 'deck_memory._parse')])
    g.strings('deckInfoTests', [ast.unparse(n.test) for n in sorted((m for m in ast.walk(pi) if isinstance(m, ast.If)), key=lambda m: m.lineno)])
    nd = X.find(mgr, '_new_data')
    g.strings('deckNewDataCompares', X.compares(nd))
    hs = [ast.unparse(h.type) for n in ast.walk(nd) if isinstance(n, ast.Try) for h in n.handlers]
    g.strings('deckNewDataExcept', hs)
    qd = X.find(mgr, 'query_decks')
    rd = call_args(qd, 'self.mem_handler.read')
    X.expect(len(rd) == 1, 'query_decks: expected one mem_handler.read')
    g.strings('deckQueryRead', rd[0])


def page_index_expr(e, base_name, size_name, what):
    """`int((addr - BASE) / SIZE)` -> (BASE text, SIZE text); anything else is a translation failure"""
    ok = (isinstance(e, ast.Call) and ast.unparse(e.func) == 'int' and len(e.args) == 1 and isinstance(e.args[0], ast.BinOp)
          and isinstance(e.args[0].op, ast.Div) and isinstance(e.args[0].left, ast.BinOp) and isinstance(e.args[0].left.op, ast.Sub)
          and ast.unparse(e.args[0].left.left) == 'addr' and ast.unparse(e.args[0].left.right) == base_name
          and ast.unparse(e.args[0].right) == size_name)
    X.expect(ok, '%s: page index expression changed: %s' % (what, ast.unparse(e)))


def extract_loco(g):
    tree = X.parse('cflib/crazyflie/mem/loco_memory.py')
    sc = one_struct(X.find(tree, 'AnchorData.set_from_mem_data'), 'AnchorData.set_from_mem_data', n=1)
    emit_struct(g, 'locoAnchor', sc[0])
    g.strings('locoAnchorTargets', unpack_targets(X.find(tree, 'AnchorData.set_from_mem_data'))[0])
    lm = X.find(tree, 'LocoMemory')
    c = class_consts_eval(lm)
    names = ['MEM_LOCO_INFO', 'MEM_LOCO_INFO_LEN', 'MEM_LOCO_ANCHOR_BASE', 'MEM_LOCO_ANCHOR_PAGE_SIZE', 'MEM_LOCO_PAGE_LEN']
    for k, v in zip(['locoInfo', 'locoInfoLen', 'locoAnchorBase', 'locoPageSize', 'locoPageLen'], need(c, names, 'LocoMemory')):
        g.nat(k, v)
    nd = X.find(lm, 'new_data')
    g.strings('locoNewDataCompares', X.compares(nd))
    a = assigns(nd)
    for k in ('self.nr_of_anchors', 'page', 'next_page', 'self.anchor_data'):
        X.expect(k in a, 'LocoMemory.new_data: assignment to %s not found' % k)
    page_index_expr(a['page'], 'LocoMemory.MEM_LOCO_ANCHOR_BASE', 'LocoMemory.MEM_LOCO_ANCHOR_PAGE_SIZE', 'LocoMemory.new_data')
    g.raw('def locoPageOf (addr : Nat) : Nat := (addr - locoAnchorBase) / locoPageSize')
    g.strings('locoNewDataAssigns', [ast.unparse(a['self.nr_of_anchors']), ast.unparse(a['next_page']), ast.unparse(a['self.anchor_data'])])
    g.strings('locoSetCall', [ast.unparse(c2) for c2 in ast.walk(nd) if isinstance(c2, ast.Call) and ast.unparse(c2.func).endswith('set_from_mem_data')])
    g.strings('locoRequestCalls', [x[0] for x in call_args(nd, 'self._request_page')])
    rp = X.find(lm, '_request_page')
    a = assigns(rp)
    env = {'LocoMemory.MEM_LOCO_ANCHOR_BASE': 'locoAnchorBase', 'LocoMemory.MEM_LOCO_ANCHOR_PAGE_SIZE': 'locoPageSize', 'page': 'page'}
    g.raw('def locoPageAddr (page : Nat) : Nat := ' + to_lean(a['addr'], env))
    g.strings('locoRequestRead', call_args(rp, 'self.mem_handler.read')[0])
    g.strings('locoUpdateRead', call_args(X.find(lm, 'update'), 'self.mem_handler.read')[0])
    # version 2
    tree = X.parse('cflib/crazyflie/mem/loco_memory_2.py')
    sc = one_struct(X.find(tree, 'AnchorData2.set_from_mem_data'), 'AnchorData2.set_from_mem_data', n=1)
    emit_struct(g, 'loco2Anchor', sc[0])
    g.strings('loco2AnchorTargets', unpack_targets(X.find(tree, 'AnchorData2.set_from_mem_data'))[0])
    lm = X.find(tree, 'LocoMemory2')
    c = class_consts_eval(lm)
    names = ['MAX_NR_OF_ANCHORS', 'ID_LIST_LEN', 'ADR_ID_LIST', 'ADR_ACTIVE_ID_LIST', 'ADR_ANCHOR_BASE', 'ANCHOR_PAGE_SIZE', 'PAGE_LEN']
    for k, v in zip(['loco2MaxAnchors', 'loco2IdListLen', 'loco2AdrIdList', 'loco2AdrActiveIdList', 'loco2AnchorBase', 'loco2PageSize', 'loco2PageLen'],
                    need(c, names, 'LocoMemory2')):
        g.nat(k, v)
    nd = X.find(lm, 'new_data')
    g.strings('loco2NewDataCompares', X.compares(nd))
    a = assigns(nd)
    page_index_expr(a['id'], 'LocoMemory2.ADR_ANCHOR_BASE', 'LocoMemory2.ANCHOR_PAGE_SIZE', 'LocoMemory2.new_data')
    g.raw('def loco2IdOf (addr : Nat) : Nat := (addr - loco2AnchorBase) / loco2PageSize')
    for fn, nm in (('_handle_id_list_data', 'loco2IdList'), ('_handle_active_id_list_data', 'loco2ActiveIdList')):
        f = X.find(lm, fn)
        loops = [n for n in ast.walk(f) if isinstance(n, ast.For)]
        X.expect(len(loops) == 1, 'LocoMemory2.%s: expected one for loop' % fn)
        g.strings(nm + 'Src', [ast.unparse(n) for n in f.body if isinstance(n, (ast.Assign, ast.For))])
    ha = X.find(lm, '_handle_anchor_data')
    g.strings('loco2AnchorSrc', [ast.unparse(n) for n in ha.body if isinstance(n, (ast.Assign, ast.AugAssign, ast.Expr))])
    g.strings('loco2AnchorCompares', X.compares(ha))
    g.strings('loco2AnchorRequests', [x[0] for x in call_args(ha, 'self._request_page')])
    ud = X.find(lm, 'update_data')
    g.strings('loco2UpdateDataTests', [ast.unparse(n.test) for n in ast.walk(ud) if isinstance(n, ast.If)])
    g.strings('loco2UpdateDataRequests', [x[0] for x in call_args(ud, 'self._request_page')])
    rp = X.find(lm, '_request_page')
    a = assigns(rp)
    env = {'LocoMemory2.ADR_ANCHOR_BASE': 'loco2AnchorBase', 'LocoMemory2.ANCHOR_PAGE_SIZE': 'loco2PageSize', 'page': 'page'}
    g.raw('def loco2PageAddr (page : Nat) : Nat := ' + to_lean(a['addr'], env))
    g.strings('loco2RequestRead', call_args(rp, 'self.mem_handler.read')[0])
    g.strings('loco2IdListRead', call_args(X.find(lm, 'update_id_list'), 'self.mem_handler.read')[0])
    g.strings('loco2ActiveIdListRead', call_args(X.find(lm, 'update_active_id_list'), 'self.mem_handler.read')[0])


def extract_traj_led(g):
    tree = X.parse('cflib/crazyflie/mem/trajectory_memory.py')
    pk = X.find(tree, 'Poly4D.pack')
    sc = one_struct(pk, 'Poly4D.pack', n=5)
    fm = [c['fmt'] for c in sc]
    X.expect(all(f is not None for f in fm), 'Poly4D.pack: non-literal struct format')
    g.strings('polyFmts', fm)
    g.strings('polyArgs', [','.join(c['args']) for c in sc])
    g.strings('polyAug', [ast.unparse(n) for n in sorted((m for m in ast.walk(pk) if isinstance(m, ast.AugAssign)), key=lambda m: m.lineno)])
    wd = X.find(X.find(tree, 'TrajectoryMemory'), 'write_data')
    g.strings('trajWriteCall', call_args(wd, 'self.mem_handler.write')[0])
    g.strings('trajWriteAug', [ast.unparse(n) for n in ast.walk(wd) if isinstance(n, ast.AugAssign)])
    tree = X.parse('cflib/crazyflie/mem/led_timings_driver_memory.py')
    wd = X.find(tree, 'LEDTimingsDriverMemory.write_data')
    a = assigns(wd)
    for k in ('R5', 'G6', 'B5', 'led', 'extra'):
        X.expect(k in a, 'LEDTimingsDriverMemory.write_data: %s = ... not found' % k)
        g.string('led' + k.capitalize() + 'Src', ast.unparse(a[k]))
    for comp, key in (('R5', 'r'), ('G6', 'g'), ('B5', 'b')):
        g.raw('def led%s (c : Nat) : Nat := %s' % (comp, to_lean(a[comp], {"int(timing['rgb']['%s']) & 255" % key: 'c'})))
    g.raw('def ledWord (R5 G6 B5 : Nat) : Nat := ' + to_lean(a['led'], {'R5': 'R5', 'G6': 'G6', 'B5': 'B5'}))
    g.raw('def ledExtra (leds fade rotate : Nat) : Nat := ' + to_lean(a['extra'], {"timing['leds']": 'leds', "timing['fade']": 'fade', "timing['rotate']": 'rotate'}))
    ifs = [n for n in ast.walk(wd) if isinstance(n, ast.If) and 'led' in ast.unparse(n.test)]
    X.expect(len(ifs) == 1, 'LEDTimingsDriverMemory.write_data: record filter not found')
    g.string('ledFilterSrc', ast.unparse(ifs[0].test))
    g.strings('ledAug', [ast.unparse(n) for n in sorted((m for m in ast.walk(wd) if isinstance(m, ast.AugAssign)), key=lambda m: m.lineno)])
    g.strings('ledWriteCall', call_args(wd, 'self.mem_handler.write')[0])


def str_consts(cls):
    out = {}
    for n in cls.body:
        if isinstance(n, ast.Assign) and len(n.targets) == 1 and isinstance(n.targets[0], ast.Name) \
                and isinstance(n.value, ast.Constant) and isinstance(n.value.value, str):
            out[n.targets[0].id] = n.value.value
    return out


def envelope_checks(fn, what):
    """the `if <test>: raise Exception('<msg>')` sequence of a read(): [(test text, message)]"""
    res = []
    for n in sorted((m for m in ast.walk(fn) if isinstance(m, ast.If)), key=lambda m: m.lineno):
        if len(n.body) == 1 and isinstance(n.body[0], ast.Raise):
            exc = n.body[0].exc
            X.expect(isinstance(exc, ast.Call) and ast.unparse(exc.func) == 'Exception' and len(exc.args) == 1
                     and isinstance(exc.args[0], ast.Constant), '%s: unexpected raise: %s' % (what, ast.unparse(n.body[0])))
            res.append((ast.unparse(n.test), exc.args[0].value))
    return res


def returned_dict(fn, what):
    rets = [n for n in ast.walk(fn) if isinstance(n, ast.Return) and isinstance(n.value, ast.Dict)]
    X.expect(len(rets) == 1, '%s: expected `return {...}`' % what)
    return ['%s: %s' % (ast.unparse(k), ast.unparse(v)) for k, v in zip(rets[0].value.keys, rets[0].value.values)]


def extract_yaml(g):
    tree = X.parse('cflib/localization/lighthouse_config_manager.py')
    fm = X.find(tree, 'LighthouseConfigFileManager')
    sc = str_consts(fm)
    for k in ('TYPE_ID', 'TYPE', 'VERSION_ID', 'VERSION', 'GEOS_ID', 'CALIBS_ID', 'SYSTEM_TYPE_ID'):
        X.expect(k in sc, 'LighthouseConfigFileManager.%s is not a string literal' % k)
        g.string('lhf' + ''.join(w.capitalize() for w in k.split('_')), sc[k])
    ic = class_consts_eval(fm)
    g.nat('lhfSystemTypeV2', need(ic, ['SYSTEM_TYPE_V2'], 'LighthouseConfigFileManager')[0])
    wr = X.find(fm, 'write')
    a = assigns(wr)
    X.expect('data' in a and isinstance(a['data'], ast.Dict), 'LighthouseConfigFileManager.write: data = {...} not found')
    g.strings('lhfWriteData', ['%s: %s' % (ast.unparse(k), ast.unparse(v)) for k, v in zip(a['data'].keys, a['data'].values)])
    g.strings('lhfWriteTests', [ast.unparse(n.test) for n in sorted((m for m in ast.walk(wr) if isinstance(m, ast.If)), key=lambda m: m.lineno)])
    g.strings('lhfWriteLoops', ['%s in %s' % (ast.unparse(n.target), ast.unparse(n.iter)) for n in sorted((m for m in ast.walk(wr) if isinstance(m, ast.For)), key=lambda m: m.lineno)])
    g.strings('lhfWriteAssigns', [ast.unparse(a[k]) for k in ('file_geos[id]', 'file_calibs[id]') if k in a])
    g.strings('lhfDump', [ast.unparse(c) for c in calls(wr, 'yaml.dump')])
    rd = X.find(fm, 'read')
    ch = envelope_checks(rd, 'LighthouseConfigFileManager.read')
    g.strings('lhfReadChecks', [t for t, _ in ch])
    g.strings('lhfReadMessages', [m for _, m in ch])
    g.strings('lhfLoad', [ast.unparse(c) for c in calls(rd, 'yaml.safe_load')])
    g.strings('lhfReadTests', [ast.unparse(n.test) for n in sorted((m for m in ast.walk(rd) if isinstance(m, ast.If)), key=lambda m: m.lineno)])
    g.strings('lhfReadLoops', ['%s in %s' % (ast.unparse(n.target), ast.unparse(n.iter)) for n in sorted((m for m in ast.walk(rd) if isinstance(m, ast.For)), key=lambda m: m.lineno)])
    a = assigns(rd)
    g.strings('lhfReadAssigns', [ast.unparse(a[k]) for k in ('result_system_type', 'result_geos[id]', 'result_calibs[id]') if k in a])
    rets = [ast.unparse(n.value) for n in ast.walk(rd) if isinstance(n, ast.Return)]
    g.strings('lhfReadReturn', rets)
    mem = X.parse('cflib/crazyflie/mem/lighthouse_memory.py')
    geo = X.find(mem, 'LighthouseBsGeometry')
    sc = str_consts(geo)
    g.strings('lhfGeoIds', [sc.get('FILE_ID_ORIGIN', '?'), sc.get('FILE_ID_ROTATION', '?')])
    g.strings('lhfGeoAsFile', returned_dict(X.find(geo, 'as_file_object'), 'LighthouseBsGeometry.as_file_object'))
    ff = X.find(geo, 'from_file_object')
    g.strings('lhfGeoFromFile', [ast.unparse(n) for n in ff.body if isinstance(n, ast.Assign)])
    sw = X.find(mem, 'LighthouseCalibrationSweep')
    sc = str_consts(sw)
    ids = ['FILE_ID_PHASE', 'FILE_ID_TILT', 'FILE_ID_CURVE', 'FILE_ID_GIBMAG', 'FILE_ID_GIBPHASE', 'FILE_ID_OGEEMAG', 'FILE_ID_OGEEPHASE']
    g.strings('lhfSweepIds', [sc.get(k, '?') for k in ids])
    g.strings('lhfSweepAsFile', returned_dict(X.find(sw, 'as_file_object'), 'LighthouseCalibrationSweep.as_file_object'))
    g.strings('lhfSweepFromFile', [ast.unparse(n) for n in X.find(sw, 'from_file_object').body if isinstance(n, ast.Assign)])
    cal = X.find(mem, 'LighthouseBsCalibration')
    sc = str_consts(cal)
    g.strings('lhfCalibIds', [sc.get('FILE_ID_SWEEPS', '?'), sc.get('FILE_ID_UID', '?')])
    g.strings('lhfCalibAsFile', returned_dict(X.find(cal, 'as_file_object'), 'LighthouseBsCalibration.as_file_object'))
    g.strings('lhfCalibFromFile', [ast.unparse(n) for n in X.find(cal, 'from_file_object').body if isinstance(n, ast.Assign)])
    # persistent parameter file
    tree = X.parse('cflib/localization/param_io.py')
    pm = X.find(tree, 'ParamFileManager')
    sc = str_consts(pm)
    for k in ('TYPE_ID', 'TYPE', 'VERSION_ID', 'VERSION', 'PARAMS_ID'):
        X.expect(k in sc, 'ParamFileManager.%s is not a string literal' % k)
        g.string('pf' + ''.join(w.capitalize() for w in k.split('_')), sc[k])
    wr = X.find(pm, 'write')
    a = assigns(wr)
    X.expect('data' in a and isinstance(a['data'], ast.Dict) and 'file_params[id]' in a, 'ParamFileManager.write: data / file_params[id] not found')
    g.strings('pfWriteData', ['%s: %s' % (ast.unparse(k), ast.unparse(v)) for k, v in zip(a['data'].keys, a['data'].values)])
    g.string('pfWriteEntry', ast.unparse(a['file_params[id]']))
    g.strings('pfWriteLoops', ['%s in %s' % (ast.unparse(n.target), ast.unparse(n.iter)) for n in ast.walk(wr) if isinstance(n, ast.For)])
    g.strings('pfDump', [ast.unparse(c) for c in calls(wr, 'yaml.dump')])
    rd = X.find(pm, 'read')
    ch = envelope_checks(rd, 'ParamFileManager.read')
    g.strings('pfReadChecks', [t for t, _ in ch])
    g.strings('pfReadMessages', [m for _, m in ch])
    g.strings('pfLoad', [ast.unparse(c) for c in calls(rd, 'yaml.safe_load')])
    g.strings('pfReadTests', [ast.unparse(n.test) for n in sorted((m for m in ast.walk(rd) if isinstance(m, ast.If)), key=lambda m: m.lineno)])
    gds = [n for n in ast.walk(rd) if isinstance(n, ast.FunctionDef) and n.name == 'get_data']
    X.expect(len(gds) == 1, 'ParamFileManager.read: nested get_data not found')
    gd = gds[0]
    g.strings('pfGetData', [ast.unparse(n) for n in ast.walk(gd) if isinstance(n, ast.Assign)] +
              ['%s in %s' % (ast.unparse(n.target), ast.unparse(n.iter)) for n in ast.walk(gd) if isinstance(n, ast.For)])
    g.strings('pfReadReturn', [ast.unparse(n.value) for n in sorted((m for m in ast.walk(rd) if isinstance(m, ast.Return)), key=lambda m: m.lineno)])
    par = X.parse('cflib/crazyflie/param.py')
    nt = [ast.unparse(n.value) for n in par.body if isinstance(n, ast.Assign) and ast.unparse(n.targets[0]) == 'PersistentParamState']
    g.strings('pfStateType', nt)


def guarded_body(fn, what):
    """a method of the form `if <test>: <stmts>`: (test text, texts of the assignments of the guarded body in order)"""
    ifs = [n for n in fn.body if isinstance(n, ast.If)]
    X.expect(len(ifs) == 1 and not ifs[0].orelse, '%s: expected a single guarded body' % what)
    return ast.unparse(ifs[0].test), [ast.unparse(n) for n in ifs[0].body if isinstance(n, (ast.Assign, ast.AugAssign))]


def plain_assigns(fn):
    return [ast.unparse(n) for n in fn.body if isinstance(n, (ast.Assign, ast.AugAssign))]


def extract_state(g):
    """what a long-lived element object (re)initialises when an update starts / on disconnect, and where `valid` is assigned"""
    i2c = X.find(X.parse('cflib/crazyflie/mem/i2c_element.py'), 'I2CElement')
    t, b = guarded_body(X.find(i2c, 'update'), 'I2CElement.update')
    g.string('i2cUpdateGuard', t)
    g.strings('i2cUpdateInit', b)
    g.strings('i2cDisconnect', plain_assigns(X.find(i2c, 'disconnect')))
    nd = X.find(i2c, 'new_data')
    g.strings('i2cNewDataTests', [ast.unparse(n.test) for n in sorted((m for m in ast.walk(nd) if isinstance(m, ast.If)), key=lambda m: (m.lineno, m.col_offset))])
    g.strings('i2cNewDataStateAssigns', [ast.unparse(n) for n in sorted((m for m in ast.walk(nd) if isinstance(m, ast.Assign)), key=lambda m: (m.lineno, m.col_offset))
                                         if ast.unparse(n.targets[0]) in ('self.valid', 'self.datav0', 'self._update_finished_cb', 'done')])
    g.strings('i2cInit', [x for x in plain_assigns(X.find(i2c, '__init__'))])
    ow = X.find(X.parse('cflib/crazyflie/mem/ow_element.py'), 'OWElement')
    t, b = guarded_body(X.find(ow, 'update'), 'OWElement.update')
    g.string('owUpdateGuard', t)
    g.strings('owUpdateInit', b)
    g.strings('owDisconnect', plain_assigns(X.find(ow, 'disconnect')))
    nd = X.find(ow, 'new_data')
    g.strings('owNewDataStateAssigns', [ast.unparse(n) for n in sorted((m for m in ast.walk(nd) if isinstance(m, ast.Assign)), key=lambda m: (m.lineno, m.col_offset))
                                        if ast.unparse(n.targets[0]) in ('self.valid', 'self._update_finished_cb', 'self.elements')])
    pe = X.find(ow, '_parse_and_check_elements')
    g.strings('owElemStateAssigns', [ast.unparse(n.targets[0]) for n in ast.walk(pe) if isinstance(n, ast.Assign) and ast.unparse(n.targets[0]).startswith('self.')])
    loco = X.find(X.parse('cflib/crazyflie/mem/loco_memory.py'), 'LocoMemory')
    t, b = guarded_body(X.find(loco, 'update'), 'LocoMemory.update')
    g.strings('locoUpdateInit', [t] + b)
    l2 = X.find(X.parse('cflib/crazyflie/mem/loco_memory_2.py'), 'LocoMemory2')
    for fn, nm in (('update_id_list', 'loco2IdListInit'), ('update_active_id_list', 'loco2ActiveIdListInit'), ('update_data', 'loco2DataInit')):
        t, b = guarded_body(X.find(l2, fn), 'LocoMemory2.' + fn)
        g.strings(nm, [t] + b)
    dm = X.find(X.parse('cflib/crazyflie/mem/deck_memory.py'), 'DeckMemoryManager')
    g.strings('deckQueryInit', plain_assigns(X.find(dm, 'query_decks')))


def stmts(fn):
    """source text of the simple statements (assignments, augmented assignments, expression statements) of a function, in order,
    descending into if/else bodies"""
    out = []

    def go(body):
        for n in body:
            if isinstance(n, (ast.Assign, ast.AugAssign)):
                out.append(ast.unparse(n))
            elif isinstance(n, ast.Expr) and not isinstance(n.value, ast.Constant):
                out.append(ast.unparse(n))
            elif isinstance(n, ast.Raise):
                out.append('raise')
            elif isinstance(n, ast.If):
                out.append('if ' + ast.unparse(n.test) + ':')
                go(n.body)
                if n.orelse:
                    out.append('else:')
                    go(n.orelse)
            elif isinstance(n, ast.Try):
                out.append('try:')
                go(n.body)
                for hd in n.handlers:
                    out.append('except %s:' % (ast.unparse(hd.type) if hd.type else ''))
                    go(hd.body)
    go(fn.body)
    return out


def extract_helper(g):
    """LighthouseMemHelper._ObjectWriter / _ObjectReader, the busy guards of LighthouseMemory, LighthouseConfigWriter's copies"""
    tree = X.parse('cflib/crazyflie/mem/lighthouse_memory.py')
    helper = X.find(tree, 'LighthouseMemHelper')
    wr = X.find(helper, '_ObjectWriter')
    w = X.find(wr, 'write')
    a = assigns(w)
    X.expect('self._objects_to_write' in a, '_ObjectWriter.write: assignment to self._objects_to_write not found')
    g.string('lhWriterQueueSrc', ast.unparse(a['self._objects_to_write']))
    g.strings('lhWriterWrite', stmts(w))
    g.strings('lhWriterNext', stmts(X.find(wr, '_write_next_object')))
    g.strings('lhWriterDataWritten', stmts(X.find(wr, '_data_written')))
    g.strings('lhWriterWriteFailed', stmts(X.find(wr, '_write_failed')))
    rd = X.find(helper, '_ObjectReader')
    rc = class_consts_eval(rd)
    g.nat('lhReaderNrOfChannels', need(rc, ['NR_OF_CHANNELS'], '_ObjectReader')[0])
    g.strings('lhReaderReadAll', stmts(X.find(rd, 'read_all')))
    g.strings('lhReaderDataUpdated', stmts(X.find(rd, '_data_updated')))
    g.strings('lhReaderUpdateFailed', stmts(X.find(rd, '_update_failed')))
    g.strings('lhReaderGetObject', stmts(X.find(rd, '_get_object')))
    g.strings('lhHelperInit', [x for x in stmts(X.find(helper, '__init__')) if 'Object' in x])
    g.strings('lhHelperCalls', [ast.unparse(n.value) for fn in ('read_all_geos', 'write_geos', 'read_all_calibs', 'write_calibs')
                                for n in X.find(helper, fn).body if isinstance(n, ast.Expr) and isinstance(n.value, ast.Call)])
    mem = X.find(tree, 'LighthouseMemory')
    for fn, nm in (('write_geo_data', 'lhMemWriteGeo'), ('write_calib_data', 'lhMemWriteCalib'), ('read_geo_data', 'lhMemReadGeo'),
                   ('read_calib_data', 'lhMemReadCalib'), ('new_data', 'lhMemNewData'), ('new_data_failed', 'lhMemNewDataFailed'),
                   ('write_done', 'lhMemWriteDone'), ('write_failed', 'lhMemWriteFailed')):
        g.strings(nm, [x for x in stmts(X.find(mem, fn)) if not x.startswith('logger.')])
    cw = X.find(X.parse('cflib/localization/lighthouse_config_manager.py'), 'LighthouseConfigWriter')
    for fn, nm in (('_prepare_geos', 'lhCfgPrepareGeos'), ('_prepare_calibs', 'lhCfgPrepareCalibs')):
        g.strings(nm, stmts(X.find(cw, fn)))
    nx = X.find(cw, '_next')
    g.strings('lhCfgNextCalls', [ast.unparse(c) for c in sorted((m for m in ast.walk(nx) if isinstance(m, ast.Call) and 'self._helper' in ast.unparse(m.func)), key=lambda m: m.lineno)])


def cb_sites(fn, attr):
    """where `self.<attr>(...)` is called and where `self.<attr> = None` is assigned inside fn, each labelled by the chain of the
    enclosing `if` tests (`/else` for the else branch): (call labels, clear labels), in source order"""
    calls_, clears = [], []

    def go(body, label):
        for n in body:
            if isinstance(n, ast.If):
                t = ast.unparse(n.test)
                go(n.body, label + [t])
                go(n.orelse, label + [t + '/else'])
            elif isinstance(n, ast.Expr) and isinstance(n.value, ast.Call) and ast.unparse(n.value.func) == 'self.' + attr:
                calls_.append(' > '.join(label))
            elif isinstance(n, ast.Assign) and ast.unparse(n.targets[0]) == 'self.' + attr and ast.unparse(n.value) == 'None':
                clears.append(' > '.join(label))
    go(fn.body, [])
    return calls_, clears


def extract_lifecycle(g):
    """every path of a reply handler that reports a result also clears the pending record"""
    i2c = X.find(X.parse('cflib/crazyflie/mem/i2c_element.py'), 'I2CElement')
    c, k = cb_sites(X.find(i2c, 'new_data'), '_update_finished_cb')
    g.strings('i2cCbCalls', c)
    g.strings('i2cCbClears', k)
    ow = X.find(X.parse('cflib/crazyflie/mem/ow_element.py'), 'OWElement')
    c, k = cb_sites(X.find(ow, 'new_data'), '_update_finished_cb')
    g.strings('owCbCalls', c)
    g.strings('owCbClears', k)
    loco = X.find(X.parse('cflib/crazyflie/mem/loco_memory.py'), 'LocoMemory')
    c, k = cb_sites(X.find(loco, 'new_data'), '_update_finished_cb')
    g.strings('locoCbCalls', c)
    g.strings('locoCbClears', k)
    l2 = X.find(X.parse('cflib/crazyflie/mem/loco_memory_2.py'), 'LocoMemory2')
    for fn, attr, nm in (('_handle_id_list_data', '_update_ids_finished_cb', 'loco2Ids'), ('_handle_active_id_list_data', '_update_active_ids_finished_cb', 'loco2Active'),
                         ('_handle_anchor_data', '_update_data_finished_cb', 'loco2Data')):
        c, k = cb_sites(X.find(l2, fn), attr)
        g.strings(nm + 'CbCalls', c)
        g.strings(nm + 'CbClears', k)
    dm = X.find(X.parse('cflib/crazyflie/mem/deck_memory.py'), 'DeckMemoryManager')
    g.strings('deckNewDataStmts', [x for x in stmts(X.find(dm, '_new_data')) if not x.startswith('logger.')])
    g.strings('deckNewDataFailedStmts', [x for x in stmts(X.find(dm, '_new_data_failed')) if not x.startswith('logger.')])
    g.strings('deckClearQuery', stmts(X.find(dm, '_clear_query_cb')))


def extract(ctx):
    g = X.GenFile(PID, ['cflib/crazyflie/mem/i2c_element.py', 'cflib/crazyflie/mem/ow_element.py', 'cflib/crazyflie/mem/lighthouse_memory.py',
                          'cflib/crazyflie/mem/deck_memory.py', 'cflib/crazyflie/mem/loco_memory.py', 'cflib/crazyflie/mem/loco_memory_2.py',
                          'cflib/crazyflie/mem/trajectory_memory.py', 'cflib/crazyflie/mem/led_timings_driver_memory.py',
                          'cflib/localization/lighthouse_config_manager.py', 'cflib/localization/param_io.py'])
    extract_i2c(g)
    extract_ow(g)
    extract_lh(g)
    extract_deck(g)
    extract_loco(g)
    extract_traj_led(g)
    extract_yaml(g)
    extract_state(g)
    extract_helper(g)
    extract_lifecycle(g)
    return {'C14.lean': g.render()}


# ======================================================================================================
# the real code behind a fake memory handler
# ======================================================================================================
def _quiet():
    import logging
    import warnings
    logging.disable(logging.CRITICAL)
    warnings.filterwarnings('ignore')


class FakeMemHandler:
    """`mem_handler` of a memory element: a byte array; requests are queued and served after the caller returned
    (as the real `Memory` does: replies arrive later, on another thread), one at a time, in order."""

    def __init__(self, mem=b''):
        self.mem = bytearray(mem)
        self.q = []
        self.writes = []
        self.reads = []
        self.next_mems = []       # memory contents that replace the current one after each served read
        self.write_acks = []      # per served write: True = stored + write_done, False = refused (write_failed); default accepted
        self.read_fails = set()   # addresses whose read is refused by the device (new_data_failed)

    def read(self, memory, addr, length):
        self.q.append(('r', memory, addr, length))
        self.reads.append((addr, length))
        return True

    def write(self, memory, addr, data, flush_queue=False, progress_cb=None):
        data = bytes(bytearray(data))
        self.q.append(('w', memory, addr, data))
        self.writes.append((addr, data))
        return True

    def run(self, new_data='new_data', write_done='write_done', limit=10000):
        n = 0
        while self.q:
            n += 1
            if n > limit:
                raise RuntimeError('fake memory handler: request limit exceeded')
            op = self.q.pop(0)
            if op[0] == 'r':
                _, m, a, ln = op
                if a in self.read_fails:
                    getattr(m, new_data + '_failed')(m, a, bytearray())
                    continue
                data = bytearray(self.mem[a:a + ln])
                if self.next_mems:
                    self.mem = bytearray(self.next_mems.pop(0))
                getattr(m, new_data)(m, a, data)
            else:
                _, m, a, d = op
                if self.write_acks and not self.write_acks.pop(0):
                    m.write_failed(m, a)
                    continue
                if len(self.mem) < a:
                    self.mem += bytes(a - len(self.mem))
                self.mem[a:a + len(d)] = d
                getattr(m, write_done)(m, a)


def qnan32(b):
    """float32 bit pattern with signalling NaNs quieted (CPython's float<->double conversion does this)"""
    if (b & 0x7F800000) == 0x7F800000 and (b & 0x007FFFFF):
        return b | 0x00400000
    return b


# ---- EEPROM ---------------------------------------------------------------------------------------------
def real_i2c_write(v, ch, sp, p, r, addr):
    _quiet()
    from cflib.crazyflie.mem.i2c_element import I2CElement
    h = FakeMemHandler()
    el = I2CElement(0, 0, 0x2000, h)
    el.elements = {'version': v, 'radio_channel': ch, 'radio_speed': sp, 'pitch_trim': bits_f32(p), 'roll_trim': bits_f32(r)}
    if addr is not None:
        el.elements['radio_address'] = addr
    try:
        el.write_data(lambda *a: None)
    except Exception as e:
        return 'err ' + exc_enum(e)
    if len(h.writes) != 1 or h.writes[0][0] != 0:
        return 'other writes=%r' % (h.writes,)
    return 'ok ' + hexs(h.writes[0][1])


def real_i2c_parse(mem):
    _quiet()
    from cflib.crazyflie.mem.i2c_element import I2CElement
    h = FakeMemHandler(mem)
    el = I2CElement(0, 0, 0x2000, h)
    called = []
    try:
        el.update(lambda m: called.append(m.valid))
        h.run()
    except Exception as e:
        return 'err ' + exc_enum(e)
    d = el.elements
    if 'version' in d:
        f = '%d,%d,%d,%d,%d' % (d['version'], d['radio_channel'], d['radio_speed'], f32bits(d['pitch_trim']), f32bits(d['roll_trim']))
    else:
        f = '-'
    a = str(d['radio_address']) if 'radio_address' in d else '-'
    return 'ok f=%s a=%s V=%d C=%d' % (f, a, 1 if el.valid else 0, len(called))


F32_EDGE = [0, 0x80000000, 1, 0x007FFFFF, 0x00800000, 0x3F800000, 0xBF800000, 0x7F7FFFFF, 0xFF7FFFFF, 0x7F800000, 0xFF800000,
            0x7FC00000, 0xFFC00001, 0x40490FDB, 0x3DCCCCCD]


def rnd_f32(rng):
    k = rng.random()
    if k < 0.35:
        return rng.choice(F32_EDGE)
    b = rng.getrandbits(32)
    return qnan32(b)


def canon_i2c_parse(s):
    """quiet NaNs in the model's trims (the real side went through a double)"""
    if not s.startswith('ok f=') or s.startswith('ok f=-'):
        return s
    head, rest = s[5:].split(' ', 1)
    v = head.split(',')
    v[3] = str(qnan32(int(v[3])))
    v[4] = str(qnan32(int(v[4])))
    return 'ok f=' + ','.join(v) + ' ' + rest


def gen_i2c(ctx, cases):
    rng = ctx.rng
    thorough = ctx.tier == 'thorough'
    images = []
    # write side: versions, boundary channels/speeds, addresses around every limit
    chans = [0, 1, 80, 125, 255, 256, -1, 1000]
    addrs = [0, 1, 0xE7E7E7E7E7, 0xFFFFFFFF, 0x100000000, 0xFFFFFFFFFF, 0x10000000000, -1, -(1 << 33), None]
    for _ in range(1500 if thorough else 300):
        v = rng.choice([0, 0, 1, 1, 1, 2, 3, -1, 255])
        ch = rng.choice(chans) if rng.random() < 0.4 else rng.randrange(256)
        sp = rng.choice([0, 1, 2, 3, 255, 256, -1]) if rng.random() < 0.5 else rng.randrange(256)
        p, r = rnd_f32(rng), rnd_f32(rng)
        a = rng.choice(addrs) if rng.random() < 0.5 else rng.getrandbits(40)
        line = 'i2c_write %d %d %d %d %d %s' % (v, ch, sp, p, r, 'none' if a is None else a)
        cases.append(('i2c_write', line, (lambda v=v, ch=ch, sp=sp, p=p, r=r, a=a: real_i2c_write(v, ch, sp, p, r, a)), None,
                      {'op': 'i2c_write', 'version': v, 'channel': ch, 'speed': sp, 'pitch': p, 'roll': r, 'address': a},
                      ('i2c_write', v, ch, sp, p, r, a)))
        if v in (0, 1) and 0 <= ch < 256 and 0 <= sp < 256 and (v == 0 or (a is not None and 0 <= a < (1 << 40))):
            tok = bytes([0x30, 0x78, 0x42, 0x43])
            body = struct.pack('<BBBff', v, ch, sp, bits_f32(p), bits_f32(r))
            if v == 1:
                body += struct.pack('<BI', a >> 32, a & 0xFFFFFFFF)
            im = tok + body
            images.append(im + bytes([sum(im) % 256]))
    # parse side: written images inside a larger EEPROM, every single-byte corruption of some, random memories
    def add_parse(mem, why):
        line = 'i2c_parse ' + hexs(mem)
        cases.append(('i2c_parse', line, (lambda m=mem: real_i2c_parse(m)), canon_i2c_parse,
                      {'op': 'i2c_parse', 'why': why, 'mem': bytes(mem).hex()}, ('i2c_parse', bytes(mem))))
    for k, im in enumerate(images):
        tail = bytes(rng.randrange(256) for _ in range(rng.choice([5, 6, 16, 40])))
        mem = im + tail[:max(0, 21 - len(im))] + tail
        add_parse(mem, 'written')
        if k < (40 if thorough else 8):
            for i in range(len(im)):
                for nb in ({0, 1, 2, 0xFF, mem[i] ^ 1, mem[i] ^ 0x80, (mem[i] + 1) % 256} | ({rng.randrange(256)} if not thorough else set(range(256)))) - {mem[i]}:
                    m2 = bytearray(mem)
                    m2[i] = nb
                    add_parse(bytes(m2), 'corrupt@%d' % i)
    for _ in range(400 if thorough else 100):
        n = rng.choice([0, 1, 3, 4, 5, 14, 15, 16, 17, 19, 20, 21, 22, 30])
        mem = bytearray(rng.randrange(256) for _ in range(n))
        if rng.random() < 0.8:
            mem[0:4] = bytes([0x30, 0x78, 0x42, 0x43])[:max(0, min(4, n))]
        if n > 4 and rng.random() < 0.8:
            mem[4] = rng.choice([0, 1, 1, 2])
        if n > 15 and rng.random() < 0.5:      # make the checksum right for the version it claims
            if mem[4] == 0:
                mem[15] = sum(mem[:15]) % 256
            elif n > 20:
                mem[20] = sum(mem[:20]) % 256
        add_parse(bytes(mem), 'random')


# ---- 1-wire ---------------------------------------------------------------------------------------------
def _ow_names():
    from cflib.crazyflie.mem.ow_element import OWElement
    return dict(OWElement.element_mapping)


def real_ow_write(pins, vid, pid, elems):
    """elems: list of (id, [code points]) in dict insertion order; id 0 = a name that is not in the mapping"""
    _quiet()
    from cflib.crazyflie.mem.ow_element import OWElement
    names = _ow_names()
    h = FakeMemHandler()
    el = OWElement(1, 1, 112, 0, h)
    el.pins, el.vid, el.pid = pins, vid, pid
    el.elements = {}
    for k, cps in elems:
        el.elements[names.get(k, 'No such element %d' % k)] = ''.join(chr(c) for c in cps)
    try:
        el.write_data(lambda *a: None)
    except Exception as e:
        return 'err ' + exc_enum(e)
    if len(h.writes) != 1 or h.writes[0][0] != 0:
        return 'other writes=%r' % (h.writes,)
    return 'ok ' + hexs(h.writes[0][1])


def real_ow_parse(mem):
    _quiet()
    from cflib.crazyflie.mem.ow_element import OWElement
    rev = {v: k for k, v in _ow_names().items()}
    h = FakeMemHandler(mem)
    el = OWElement(1, 1, 112, 0, h)
    called = []
    try:
        el.update(lambda m: called.append(m.valid))
        h.run()
    except Exception as e:
        return 'err ' + exc_enum(e)
    es = ','.join('%d:%s' % (rev[k], hexs(v.encode('ISO-8859-1'))) for k, v in el.elements.items()) or '-'
    return 'ok p=%d v=%d i=%d e=%s V=%d C=%d' % (el.pins, el.vid, el.pid, es, 1 if el.valid else 0, len(called))


def ow_image(pins, vid, pid, elems):
    """independent construction of a correctly formed image (spec twin; elems in WRITE order: (id, bytes))"""
    hdr = struct.pack('<BIBB', 0xEB, pins, vid, pid)
    hdr += bytes([crc32(hdr) & 0xFF])
    body = b''.join(bytes([k, len(v)]) + v for k, v in elems)
    area = bytes([0, len(body)]) + body
    return hdr + area + bytes([crc32(area) & 0xFF])


def fmt_ow_elems(elems):
    return ','.join('%d:%s' % (k, '.'.join(str(c) for c in cps)) for k, cps in elems) or '-'


def rnd_ow_elems(rng, malformed=False):
    ids = [1, 2, 3]
    rng.shuffle(ids)
    ids = ids[:rng.choice([0, 1, 1, 2, 2, 3])]
    if malformed and rng.random() < 0.3:
        ids.insert(rng.randrange(len(ids) + 1), 0)
    elems = []
    for k in ids:
        n = rng.choice([0, 1, 2, 3, 5, 8, 20, 72, 100, 174, 253]) if rng.random() < 0.8 else rng.randrange(0, 254)
        if malformed and rng.random() < 0.1:
            n = rng.choice([254, 255, 256, 300])
        cps = [rng.choice([65, 97, 48, 32, 0, 255, 0xE9]) if rng.random() < 0.3 else rng.randrange(256) for _ in range(n)]
        if malformed and cps and rng.random() < 0.15:
            cps[rng.randrange(len(cps))] = rng.choice([256, 0x20AC, 0x1F600])
        elems.append((k, cps))
    return elems


def ow_collision_elems(rng):
    """element dicts whose section length / first id hit the `data[9:11]` shortcut of the unrepaired code (D12)"""
    tot, first = rng.choice([(5, 2), (74, 3), (176, 1)])
    others = [i for i in (1, 2, 3) if i != first]
    rng.shuffle(others)
    k = rng.choice([0, 1]) if tot > 5 else 0
    rest = others[:k]
    budget = tot - 2 * (1 + len(rest))
    lens = []
    for _ in rest:
        x = rng.randrange(0, budget + 1)
        lens.append(x)
        budget -= x
    elems_w = [(first, budget)] + list(zip(rest, lens))        # write order
    elems = [(i, [rng.randrange(256) for _ in range(n)]) for i, n in elems_w]
    return list(reversed(elems))                                # dict order = reversed write order


def gen_ow(ctx, cases):
    rng = ctx.rng
    thorough = ctx.tier == 'thorough'
    for _ in range(60 if thorough else 20):
        d = bytes(rng.randrange(256) for _ in range(rng.choice([0, 1, 2, 7, 8, 33, 100])))
        cases.append(('crc32', 'crc32 ' + hexs(d), (lambda d=d: 'ok %d' % crc32(d)), None, {'op': 'crc32', 'len': len(d)}, ('crc32', d)))
    images = []

    def add_write(pins, vid, pid, elems, why):
        line = 'ow_write %d %d %d %s' % (pins, vid, pid, fmt_ow_elems(elems))
        cases.append(('ow_write', line, (lambda: real_ow_write(pins, vid, pid, elems)), None,
                      {'op': 'ow_write', 'why': why, 'pins': pins, 'vid': vid, 'pid': pid, 'elems': [(k, len(c)) for k, c in elems]},
                      ('ow_write', pins, vid, pid, fmt_ow_elems(elems))))
    for t in range(1200 if thorough else 260):
        pins = rng.choice([0, 0x0C, 0xFFFFFFFF, 1 << 32, -1]) if rng.random() < 0.3 else rng.getrandbits(32)
        vid = rng.choice([0, 0xBC, 255, 256, -1]) if rng.random() < 0.4 else rng.randrange(256)
        pid = rng.choice([0, 1, 255, 256]) if rng.random() < 0.4 else rng.randrange(256)
        k = rng.random()
        elems = ow_collision_elems(rng) if k < 0.15 else rnd_ow_elems(rng, malformed=k > 0.7)
        add_write(pins, vid, pid, elems, 'collision' if k < 0.15 else 'random')
        if 0 <= pins < (1 << 32) and 0 <= vid < 256 and 0 <= pid < 256 and all(i in (1, 2, 3) and len(c) < 256 and all(x < 256 for x in c) for i, c in elems) \
                and sum(2 + len(c) for _, c in elems) < 256:
            images.append(ow_image(pins, vid, pid, [(i, bytes(c)) for i, c in reversed(elems)]))
    # every section length 0..255 with every first id (one element, padded by a second one when it does not fit)
    for tot in (range(0, 256) if thorough else list(range(0, 12)) + [37, 38, 39, 73, 74, 75, 104, 105, 106, 146, 147, 148, 175, 176, 177, 254, 255]):
        for first in (1, 2, 3):
            if tot == 0:
                elems = []
            elif tot == 1:
                continue
            else:
                elems = [(first, [rng.randrange(256) for _ in range(tot - 2)])]
            add_write(0x0C, 0xBC, first, elems, 'len=%d' % tot)
            images.append(ow_image(0x0C, 0xBC, first, [(i, bytes(c)) for i, c in reversed(elems)]))

    def add_parse(mem, why):
        line = 'ow_parse ' + hexs(mem)
        cases.append(('ow_parse', line, (lambda m=mem: real_ow_parse(m)), None,
                      {'op': 'ow_parse', 'why': why, 'mem': bytes(mem).hex()[:80], 'len': len(mem)}, ('ow_parse', bytes(mem))))
    for k, im in enumerate(images):
        tail = bytes(rng.choice([0xFF, rng.randrange(256)]) for _ in range(rng.choice([0, 3, 20, 112])))
        add_parse(im + tail, 'written')
        if k % (3 if thorough else 12) == 0:
            for _ in range(30 if thorough else 10):        # corruptions (also of the CRC bytes and the length byte)
                m2 = bytearray(im + tail)
                i = rng.choice([0, 7, 8, 9, 10, len(im) - 1, rng.randrange(len(im))])
                m2[i] ^= rng.choice([1, 0x80, 0xFF, rng.randrange(1, 256)])
                add_parse(bytes(m2), 'corrupt@%d' % i)
    # malformed but CRC-correct TLV areas: unknown ids, lengths running past the end, a dangling byte, duplicate ids
    for _ in range(300 if thorough else 80):
        body = bytearray()
        for _ in range(rng.randrange(0, 4)):
            eid = rng.choice([1, 2, 3, 1, 2, 3, 0, 4, 255])
            n = rng.choice([0, 1, 3, 10])
            body += bytes([eid, n if rng.random() < 0.8 else n + rng.randrange(1, 5)]) + bytes(rng.randrange(256) for _ in range(n))
        if rng.random() < 0.2:
            body += bytes([rng.choice([1, 2, 3])])
        hdr = struct.pack('<BIBB', rng.choice([0xEB] * 9 + [0xEA]), rng.getrandbits(32), rng.randrange(256), rng.randrange(256))
        hdr += bytes([crc32(hdr) & 0xFF])
        ln = len(body) if rng.random() < 0.85 else rng.randrange(256)
        area = bytes([rng.choice([0, 0, 1]), ln]) + body
        mem = hdr + area + bytes([crc32(area) & 0xFF]) + bytes(rng.randrange(256) for _ in range(rng.choice([0, 4, 30])))
        add_parse(mem, 'malformed-tlv')
    for _ in range(200 if thorough else 50):
        n = rng.choice([0, 1, 7, 8, 9, 10, 11, 12, 20, 40])
        add_parse(bytes(rng.randrange(256) for _ in range(n)), 'random')


# ---- lighthouse memory ------------------------------------------------------------------------------------
def mk_geo(f, v):
    from cflib.crazyflie.mem.lighthouse_memory import LighthouseBsGeometry
    g = LighthouseBsGeometry()
    x = [bits_f32(b) for b in f]
    g.origin = x[0:3]
    g.rotation_matrix = [x[3:6], x[6:9], x[9:12]]
    g.valid = bool(v)
    return g


def mk_calib(f, uid, v):
    from cflib.crazyflie.mem.lighthouse_memory import LighthouseBsCalibration
    c = LighthouseBsCalibration()
    x = [bits_f32(b) for b in f]
    for k in range(2):
        sw = c.sweeps[k]
        sw.phase, sw.tilt, sw.curve, sw.gibmag, sw.gibphase, sw.ogeemag, sw.ogeephase = x[7 * k:7 * k + 7]
    c.uid = uid
    c.valid = bool(v)
    return c


def show_geo(g):
    f = list(g.origin) + [x for row in g.rotation_matrix for x in row]
    return '%s/%d' % ('.'.join(str(f32bits(x)) for x in f), 1 if g.valid else 0)


def show_calib(c):
    f = []
    for sw in c.sweeps:
        f += [sw.phase, sw.tilt, sw.curve, sw.gibmag, sw.gibphase, sw.ogeemag, sw.ogeephase]
    return '%s/%d/%d' % ('.'.join(str(f32bits(x)) for x in f), c.uid, 1 if c.valid else 0)


def show_lh(o):
    from cflib.crazyflie.mem.lighthouse_memory import LighthouseBsGeometry
    return ('geo ' + show_geo(o)) if isinstance(o, LighthouseBsGeometry) else ('calib ' + show_calib(o))


def real_geo_image(f, v):
    _quiet()
    try:
        data = bytearray()
        mk_geo(f, v).add_mem_data(data)
        return 'ok ' + hexs(data)
    except Exception as e:
        return 'err ' + exc_enum(e)


def real_calib_image(f, uid, v):
    _quiet()
    try:
        data = bytearray()
        mk_calib(f, uid, v).add_mem_data(data)
        return 'ok ' + hexs(data)
    except Exception as e:
        return 'err ' + exc_enum(e)


def real_lh_new_data(addr, data):
    _quiet()
    from cflib.crazyflie.mem.lighthouse_memory import LighthouseMemory
    h = FakeMemHandler()
    lh = LighthouseMemory(3, 0x14, 0x2000, h)
    got = []
    lh._update_finished_cb = lambda m, o: got.append(o)
    try:
        lh.new_data(lh, addr, bytearray(data))
    except Exception as e:
        return 'err ' + exc_enum(e)
    return 'ok ' + show_lh(got[0])


class _FakeCfMem:
    def __init__(self, mems):
        self._mems = mems

    def get_mems(self, t):
        return [m for m in self._mems if m.type == t]


class _FakeCf:
    def __init__(self, mems):
        self.mem = _FakeCfMem(mems)


def real_lh_cfg(size, geos, calibs):
    """LighthouseMemHelper.write_geos / write_calibs on a zeroed memory, then read_all_geos / read_all_calibs"""
    _quiet()
    from cflib.crazyflie.mem.lighthouse_memory import LighthouseMemHelper, LighthouseMemory
    h = FakeMemHandler(bytes(size))
    lh = LighthouseMemory(3, 0x14, 0x2000, h)
    helper = LighthouseMemHelper(_FakeCf([lh]))
    done = []
    try:
        helper.write_geos({bs: mk_geo(f, v) for bs, f, v in geos}, done.append)
        h.run()
        helper.write_calibs({bs: mk_calib(f, uid, v) for bs, f, uid, v in calibs}, done.append)
        h.run()
    except Exception as e:
        return 'err ' + exc_enum(e)
    if done != [True, True]:
        return 'other done=%r' % (done,)
    out = []
    for reader in (lh.read_geo_data, lh.read_calib_data):
        for bs in range(16):
            got = []
            try:
                reader(bs, lambda m, o: got.append(o))
                h.run()
                out.append(show_lh(got[0]))
            except Exception as e:
                lh._clear_update_cb()
                h.q.clear()
                out.append('E:' + exc_enum(e))
    # the helper's read_all_* must deliver the same objects when every page can be read
    if not any(o.startswith('E:') for o in out):
        res = []
        helper.read_all_geos(res.append)
        h.run()
        helper.read_all_calibs(res.append)
        h.run()
        alt = [show_lh(res[0][bs]) for bs in range(16)] + [show_lh(res[1][bs]) for bs in range(16)]
        if alt != out:
            return 'other read_all differs: %r' % (alt,)
    return 'ok ' + ';'.join(out)


def canon_f32_fields(s):
    """quiet signalling NaNs inside dotted float32 lists of a reply"""
    import re
    return re.sub(r'\d+(?:\.\d+)+', lambda m: '.'.join(str(qnan32(int(x))) for x in m.group(0).split('.')), s)


def gen_lh(ctx, cases):
    rng = ctx.rng
    thorough = ctx.tier == 'thorough'

    def fl(n):
        return [rnd_f32(rng) for _ in range(n)]
    dots = lambda l: '.'.join(str(x) for x in l)
    geo_imgs, cal_imgs = [], []
    for _ in range(400 if thorough else 80):
        f, v = fl(12), rng.randrange(2)
        cases.append(('geo_image', 'geo_image %s %d' % (dots(f), v), (lambda f=f, v=v: real_geo_image(f, v)), None,
                      {'op': 'geo_image', 'f': f, 'valid': v}, ('geo_image', tuple(f), v)))
        geo_imgs.append(b''.join(struct.pack('<I', x) for x in f) + bytes([v]))
        f, v = fl(14), rng.randrange(2)
        uid = rng.choice([0, 1, 0xFFFFFFFF, 1 << 32, -1, 0x12345678]) if rng.random() < 0.5 else rng.getrandbits(32)
        cases.append(('calib_image', 'calib_image %s %d %d' % (dots(f), uid, v), (lambda f=f, u=uid, v=v: real_calib_image(f, u, v)), None,
                      {'op': 'calib_image', 'f': f, 'uid': uid, 'valid': v}, ('calib_image', tuple(f), uid, v)))
        if 0 <= uid < (1 << 32):
            cal_imgs.append(b''.join(struct.pack('<I', x) for x in f) + struct.pack('<I', uid) + bytes([v]))

    def add_nd(addr, data, why):
        cases.append(('lh_new_data', 'lh_new_data %d %s' % (addr, hexs(data)), (lambda a=addr, d=data: real_lh_new_data(a, d)), canon_f32_fields,
                      {'op': 'lh_new_data', 'addr': addr, 'len': len(data), 'why': why}, ('lh_new_data', addr, bytes(data))))
    for im in geo_imgs[:60 if thorough else 25]:
        bs = rng.randrange(16)
        add_nd(bs * 0x100, im, 'geo')
        m2 = bytearray(im)
        m2[48] = rng.choice([0, 1, 2, 0x80, 0xFF])        # any non-zero byte is True
        add_nd(bs * 0x100, bytes(m2), 'geo-valid-byte')
    for im in cal_imgs[:60 if thorough else 25]:
        bs = rng.randrange(16)
        add_nd(0x1000 + bs * 0x100, im, 'calib')
        m2 = bytearray(im)
        m2[60] = rng.choice([0, 1, 2, 0x80, 0xFF])
        add_nd(0x1000 + bs * 0x100, bytes(m2), 'calib-valid-byte')
    for _ in range(60 if thorough else 25):               # wrong lengths, boundary addresses, wrong container for the address
        addr = rng.choice([0, 0xF00, 0xFFF, 0x1000, 0x1001, 0x1F00, 0x2000])
        n = rng.choice([0, 1, 12, 48, 49, 50, 56, 60, 61, 62, 100])
        add_nd(addr, bytes(rng.randrange(256) for _ in range(n)), 'malformed')
    for _ in range(60 if thorough else 12):
        gb = rng.sample(range(16), rng.choice([0, 1, 2, 5, 16]))
        cb = rng.sample(range(16), rng.choice([0, 1, 2, 5, 16]))
        if rng.random() < 0.15:
            gb.append(rng.choice([16, 17, 31]))              # a geometry page that lands in the calibration area
        geos = [(bs, fl(12), rng.randrange(2)) for bs in gb]
        calibs = [(bs, fl(14), rng.choice([rng.getrandbits(32)] * 9 + [1 << 32]), rng.randrange(2)) for bs in cb]
        size = rng.choice([0x2000, 0x2000, 0x2000, 0, 0x1100])
        line = 'lh_cfg %d %s %s' % (size, ','.join('%d/%s/%d' % (b, dots(f), v) for b, f, v in geos) or '-',
                                    ','.join('%d/%s/%d/%d' % (b, dots(f), u, v) for b, f, u, v in calibs) or '-')
        cases.append(('lh_cfg', line, (lambda s=size, g=geos, c=calibs: real_lh_cfg(s, g, c)), canon_f32_fields,
                      {'op': 'lh_cfg', 'size': size, 'geo_bs': gb, 'calib_bs': cb}, ('lh_cfg', size, tuple(gb), tuple(cb), line[:200])))


# ---- deck memory ------------------------------------------------------------------------------------------
DECK_PROPS = ['is_valid', 'is_started', 'supports_read', 'supports_write', 'supports_fw_upgrade', 'is_fw_upgrade_required',
              'is_bootloader_active', 'supports_reset_to_fw', 'supports_reset_to_bootloader']


def real_deck_info(mem, holder=None):
    _quiet()
    from cflib.crazyflie.mem.deck_memory import DeckMemoryManager

    def make():
        h = FakeMemHandler()
        return h, DeckMemoryManager(5, 0x19, 0x2000, h)
    h, mgr = _long_lived(holder, 'deck', make)
    h.mem = bytearray(mem)
    h.q.clear()
    ok, failed = [], []
    try:
        mgr.query_decks(ok.append, failed.append)
        h.run(new_data='_new_data', write_done='_write_done')
    except Exception as e:
        return 'err ' + exc_enum(e)
    if failed:
        import re
        mm = re.match(r'Deck memory version (\d+) not supported$', failed[0])
        return 'ok unsupported %s' % (mm.group(1) if mm else failed[0])
    out = []
    for i, d in ok[0].items():
        out.append('%d:%d:%d:%d:%d:%d:%d:%s:%s' % (i, d._bit_field1, d._bit_field2, d.required_hash, d.required_length, d._base_address,
                                                   d._command_base_address, '.'.join(str(ord(c)) for c in d.name),
                                                   ''.join('1' if getattr(d, p) else '0' for p in DECK_PROPS)))
    return 'ok decks ' + (';'.join(out) or '-')


def deck_record(rng, kind):
    bf1 = rng.randrange(256) if rng.random() < 0.2 else (rng.randrange(128) | (1 if rng.random() < 0.7 else 0))
    bf2 = rng.randrange(4) if rng.random() < 0.8 else rng.randrange(256)
    u32 = lambda: rng.choice([0, 1, 0xFFFFFFFF, 0x10000000, rng.getrandbits(32)])
    if kind == 'ascii':
        n = rng.choice([0, 1, 5, 17, 18])
        name = bytes(rng.choice(b'abcdefghijklmnopqrstuvwxyzABCDEFGHIJ0123456789_-. ') for _ in range(n))
    elif kind == 'utf8':
        name = rng.choice(['é', 'ü', '€', '😀', 'aé€', 'ÿ', '\u07ff', '\u0800', '\ud7ff', '\ue000', '\uffff', '\U00010000', '\U0010ffff']).encode() * rng.choice([1, 1, 2])
        name = name[:18]
    else:
        name = bytes(rng.choice([0, 0x41, 0x80, 0xBF, 0xC0, 0xC1, 0xC2, 0xE0, 0xED, 0xA0, 0x9F, 0xF0, 0xF4, 0xF5, 0x90, 0x8F, 0xFF, rng.randrange(256)])
                     for _ in range(rng.choice([1, 2, 3, 4, 18])))
    return bytes([bf1, bf2]) + struct.pack('<LLL', u32(), u32(), u32()) + name.ljust(18, b'\x00')[:18]


def gen_deck(ctx, cases):
    rng = ctx.rng
    thorough = ctx.tier == 'thorough'

    def add(mem, why):
        cases.append(('deck_info', 'deck_info ' + hexs(mem), (lambda m=mem: real_deck_info(m)), None,
                      {'op': 'deck_info', 'why': why, 'len': len(mem), 'head': bytes(mem[:34]).hex()}, ('deck_info', bytes(mem))))
    # all 2^7 x 2^2 bit-field combinations (four records per image)
    combos = [(a, b) for a in range(128) for b in range(4)]
    for k in range(0, len(combos), 8):
        recs = b''
        for a, b in combos[k:k + 8]:
            recs += bytes([a, b]) + struct.pack('<LLL', rng.getrandbits(32), rng.getrandbits(32), rng.getrandbits(32)) + b'bcDeck'.ljust(18, b'\x00')
        add(bytes([3]) + recs, 'bitfields')
    for _ in range(400 if thorough else 100):
        kind = rng.choice(['ascii', 'ascii', 'utf8', 'bytes'])
        recs = b''.join(deck_record(rng, kind if rng.random() < 0.7 else 'ascii') for _ in range(8))
        ver = 3 if rng.random() < 0.85 else rng.choice([0, 1, 2, 4, 255])
        mem = bytes([ver]) + recs + bytes(rng.randrange(256) for _ in range(rng.choice([0, 0, 10])))
        if rng.random() < 0.15:
            mem = mem[:rng.choice([0, 1, 2, 3, 32, 33, 34, 35, 100, 225, 226, 227, 256])]     # short memory: truncated records
        add(mem, kind)


# ---- loco, trajectory, LED timings -------------------------------------------------------------------------
def show_anchor(a):
    return '%d.%d.%d.%d' % (f32bits(a.position[0]), f32bits(a.position[1]), f32bits(a.position[2]), 1 if a.is_valid else 0)


def _long_lived(holder, key, make):
    """a fresh (handler, object) pair, or the one kept in `holder` (repeated reads on ONE object)"""
    if holder is None:
        return make()
    if key not in holder:
        holder[key] = make()
    return holder[key]


def real_loco(mem, holder=None):
    _quiet()
    from cflib.crazyflie.mem.loco_memory import LocoMemory

    def make():
        h = FakeMemHandler()
        return h, LocoMemory(6, 0x11, 0x10000, h)
    h, lm = _long_lived(holder, 'loco', make)
    h.mem = bytearray(mem)
    h.q.clear()
    called = []
    try:
        lm.update(called.append)
        h.run()
    except Exception as e:
        return 'err ' + exc_enum(e)
    if len(called) != 1:
        return 'other called=%d' % len(called)
    return 'ok n=%d a=%s V=%d' % (lm.nr_of_anchors, ';'.join(show_anchor(a) for a in lm.anchor_data) or '-', 1 if lm.valid else 0)


def real_loco2(mem, holder=None):
    _quiet()
    from cflib.crazyflie.mem.loco_memory_2 import LocoMemory2

    def make():
        h = FakeMemHandler()
        return h, LocoMemory2(7, 0x13, 0x10000, h)
    h, lm = _long_lived(holder, 'loco2', make)
    h.mem = bytearray(mem)
    h.q.clear()
    called = []
    try:
        lm.update_id_list(lambda m: called.append('ids'))
        h.run()
        lm.update_active_id_list(lambda m: called.append('act'))
        h.run()
        lm.update_data(lambda m: called.append('data'))
        h.run()
    except Exception as e:
        return 'err ' + exc_enum(e)
    want = ['ids', 'act'] + (['data'] if lm.nr_of_anchors > 0 else [])       # update_data does nothing without anchors
    if called != want or not lm.ids_valid or not lm.active_ids_valid or (lm.nr_of_anchors > 0 and not lm.data_valid):
        return 'other called=%r' % (called,)
    nl = lambda l: ','.join(str(x) for x in l) or '-'
    return 'ok ids=%s act=%s data=%s' % (nl(lm.anchor_ids), nl(lm.active_anchor_ids),
                                         ';'.join('%d:%s' % (k, show_anchor(a)) for k, a in lm.anchor_data.items()) or '-')


def real_traj(polys):
    _quiet()
    from cflib.crazyflie.mem.trajectory_memory import Poly4D, TrajectoryMemory
    h = FakeMemHandler()
    tm = TrajectoryMemory(8, 0x12, 0x1000, h)
    try:
        tr = []
        for x, y, z, yaw, d in polys:
            p = Poly4D(bits_f32(d))
            p.x, p.y, p.z, p.yaw = (Poly4D.Poly([bits_f32(v) for v in c]) for c in (x, y, z, yaw))
            tr.append(p)
        tm.trajectory = tr
        n = tm.write_data(lambda *a: None)
    except Exception as e:
        return 'err ' + exc_enum(e)
    if len(h.writes) != 1 or h.writes[0][0] != 0 or n != len(h.writes[0][1]):
        return 'other writes=%r' % (h.writes,)
    return 'ok ' + hexs(h.writes[0][1])


def real_led(ts):
    _quiet()
    from cflib.crazyflie.mem.led_timings_driver_memory import LEDTimingsDriverMemory
    h = FakeMemHandler()
    lt = LEDTimingsDriverMemory(9, 0x17, 0x1000, h)
    try:
        for (t, r, g, b, leds, fade, rot) in ts:
            lt.add(time=t, rgb={'r': r, 'g': g, 'b': b}, leds=leds, fade=(bool(fade) if fade in (0, 1) else fade), rotate=rot)
        lt.write_data(None)
    except Exception as e:
        return 'err ' + exc_enum(e)
    if len(h.writes) != 1 or h.writes[0][0] != 0:
        return 'other writes=%r' % (h.writes,)
    return 'ok ' + hexs(h.writes[0][1])


def anchor_bytes(rng):
    return b''.join(struct.pack('<I', rnd_f32(rng)) for _ in range(3)) + bytes([rng.choice([0, 1, 1, 2, 0xFF])])


def gen_loco(ctx, cases):
    rng = ctx.rng
    thorough = ctx.tier == 'thorough'
    for t in range(60 if thorough else 18):
        n = rng.choice([0, 1, 2, 3, 8, 16]) if t > 2 else [255, 17, 1][t]
        mem = bytearray(0x1000 + 0x100 * max(n, 1))
        mem[0] = n
        for i in range(n):
            mem[0x1000 + 0x100 * i:0x1000 + 0x100 * i + 13] = anchor_bytes(rng)
        if rng.random() < 0.15 and n:
            mem = mem[:0x1000 + 0x100 * (n - 1) + rng.choice([0, 5, 12])]       # the last page cannot be read completely
        if t == 5:
            mem = bytearray()
        cases.append(('loco', 'loco ' + hexs(mem), (lambda m=bytes(mem): real_loco(m)), canon_f32_fields,
                      {'op': 'loco', 'n': n, 'len': len(mem)}, ('loco', bytes(mem))))
    for t in range(60 if thorough else 18):
        n = rng.choice([0, 1, 2, 5, 16, 16, 17, 40])
        ids = [rng.randrange(32) for _ in range(16)]
        if rng.random() < 0.6:
            ids = rng.sample(range(32), 16)
        act = [rng.randrange(32) for _ in range(16)]
        mem = bytearray(0x2000 + 0x100 * 32)
        mem[0:17] = bytes([n] + ids)
        mem[0x1000:0x1011] = bytes([rng.choice([0, 3, 16, 17])] + act)
        for i in range(32):
            mem[0x2000 + 0x100 * i:0x2000 + 0x100 * i + 13] = anchor_bytes(rng)
        if rng.random() < 0.1:
            mem = mem[:0x2000 + 0x100 * rng.randrange(32) + 7]
        cases.append(('loco2', 'loco2 ' + hexs(mem), (lambda m=bytes(mem): real_loco2(m)), canon_f32_fields,
                      {'op': 'loco2', 'n': n, 'ids': ids[:min(n, 16)], 'len': len(mem)}, ('loco2', bytes(mem))))
    dots = lambda l: '.'.join(str(x) for x in l) or '-'
    for t in range(150 if thorough else 40):
        polys = []
        for _ in range(rng.choice([0, 1, 1, 2, 5])):
            ln = lambda: 8 if rng.random() < 0.93 else rng.choice([0, 7, 9])
            polys.append(tuple([rnd_f32(rng) for _ in range(ln())] for _ in range(4)) + (rnd_f32(rng),))
        line = 'traj ' + (';'.join('/'.join([dots(c) for c in p[:4]] + [str(p[4])]) for p in polys) or '-')
        cases.append(('traj', line, (lambda p=polys: real_traj(p)), None, {'op': 'traj', 'pieces': len(polys), 'lens': [[len(c) for c in p[:4]] for p in polys]},
                      ('traj', line)))
    for t in range(300 if thorough else 80):
        ts = []
        for _ in range(rng.choice([0, 1, 2, 4, 10])):
            z = rng.random() < 0.15
            pick = lambda hi, big: 0 if z else (rng.choice(big) if rng.random() < 0.15 else rng.randrange(hi))
            ts.append((pick(256, [256, 511, 1000]), pick(256, [256, 300, 1023]), pick(256, [256, 300]), pick(256, [256, 65535]),
                       pick(16, [16, 255]), pick(2, [2, 3]), pick(8, [8, 255])))
        line = 'led ' + (';'.join('.'.join(str(x) for x in t) for t in ts) or '-')
        cases.append(('led', line, (lambda ts=ts: real_led(ts)), None, {'op': 'led', 'timings': ts[:4], 'n': len(ts)}, ('led', line)))
    # the colour components: every value once
    for c in range(0, 256, 1 if thorough else 5):
        ts = [(1, c, c, c, 0, 0, 0)]
        line = 'led ' + ';'.join('.'.join(str(x) for x in t) for t in ts)
        cases.append(('led', line, (lambda ts=ts: real_led(ts)), None, {'op': 'led', 'colour': c}, ('led', line)))


# ---- YAML files ---------------------------------------------------------------------------------------------
def y_enc(v):
    """plain Python value -> wire form (floats as binary64 bit patterns, strings as UTF-8 hex)"""
    if v is None:
        return 'n'
    if v is True:
        return 't'
    if v is False:
        return 'f'
    if isinstance(v, int):
        return 'i%d;' % v
    if isinstance(v, float):
        return 'd%d;' % struct.unpack('<Q', struct.pack('<d', v))[0]
    if isinstance(v, str):
        return 's%s;' % v.encode('utf-8').hex()
    if isinstance(v, (list, tuple)):
        return 'L%d;' % len(v) + ''.join(y_enc(x) for x in v)
    if isinstance(v, dict):
        return 'D%d;' % len(v) + ''.join(y_enc(k) + y_enc(x) for k, x in v.items())
    raise TypeError('not a plain value: %r' % (v,))


def file_exc(e):
    if type(e) is Exception:
        return 'err msg:' + str(e).replace(' ', '_')
    return 'err ' + exc_enum(e)


def _tmpfile(ctx_dir, name):
    return os.path.join(ctx_dir, name)


_TMP = []


def tmpdir():
    if not _TMP:
        _TMP.append(tempfile.mkdtemp(prefix='c14-'))
    return _TMP[0]


def real_yaml_canon(v):
    import yaml
    try:
        return 'ok ' + y_enc(yaml.safe_load(yaml.dump(v)))
    except Exception as e:
        return 'err ' + exc_enum(e)


def show_lh_file(res):
    geos, calibs, st = res
    g = [[{k: None}, o.origin, o.rotation_matrix, o.valid] for k, o in geos.items()]
    sw = lambda s: [s.phase, s.tilt, s.curve, s.gibmag, s.gibphase, s.ogeemag, s.ogeephase]
    c = [[{k: None}, sw(o.sweeps[0]), sw(o.sweeps[1]), o.uid, o.valid] for k, o in calibs.items()]
    return y_enc([g, c, st])


def mk_fgeo(o, r, v):
    from cflib.crazyflie.mem.lighthouse_memory import LighthouseBsGeometry
    g = LighthouseBsGeometry()
    g.origin, g.rotation_matrix, g.valid = o, r, v
    return g


def mk_fcalib(a, b, uid, v):
    from cflib.crazyflie.mem.lighthouse_memory import LighthouseBsCalibration
    c = LighthouseBsCalibration()
    for sw, vals in ((c.sweeps[0], a), (c.sweeps[1], b)):
        sw.phase, sw.tilt, sw.curve, sw.gibmag, sw.gibphase, sw.ogeemag, sw.ogeephase = vals
    c.uid, c.valid = uid, v
    return c


def real_lh_file_rt(geos, calibs, st):
    _quiet()
    from cflib.localization.lighthouse_config_manager import LighthouseConfigFileManager as FM
    fn = os.path.join(tmpdir(), 'lh.yaml')
    try:
        with contextlib.redirect_stdout(io.StringIO()):
            FM.write(fn, {i: mk_fgeo(o, r, v) for i, o, r, v in geos}, {i: mk_fcalib(a, b, u, v) for i, a, b, u, v in calibs}, st)
            return 'ok ' + show_lh_file(FM.read(fn))
    except Exception as e:
        return file_exc(e)


def real_lh_file_read(doc):
    _quiet()
    import yaml
    from cflib.localization.lighthouse_config_manager import LighthouseConfigFileManager as FM
    fn = os.path.join(tmpdir(), 'lh-in.yaml')
    with open(fn, 'w') as f:
        yaml.dump(doc, f)
    try:
        with contextlib.redirect_stdout(io.StringIO()):
            return 'ok ' + show_lh_file(FM.read(fn))
    except Exception as e:
        return file_exc(e)


def show_params(res):
    return y_enc([[{k: None}, p.is_stored, p.default_value, p.stored_value] for k, p in res.items()])


def real_pf_rt(params):
    _quiet()
    from cflib.crazyflie.param import PersistentParamState
    from cflib.localization.param_io import ParamFileManager as PM
    fn = os.path.join(tmpdir(), 'params.yaml')
    try:
        with contextlib.redirect_stdout(io.StringIO()):
            PM.write(fn, {n: PersistentParamState(a, b, c) for n, a, b, c in params})
            return 'ok ' + show_params(PM.read(fn))
    except Exception as e:
        return file_exc(e)


def real_pf_read(doc):
    _quiet()
    import yaml
    from cflib.localization.param_io import ParamFileManager as PM
    fn = os.path.join(tmpdir(), 'params-in.yaml')
    with open(fn, 'w') as f:
        yaml.dump(doc, f)
    try:
        with contextlib.redirect_stdout(io.StringIO()):
            return 'ok ' + show_params(PM.read(fn))
    except Exception as e:
        return file_exc(e)


def canon_y_nan(s):
    """YAML has one `.nan`: sign and payload of a NaN do not survive dump/load (PyYAML builds -inf/inf); compare NaNs as equal"""
    import re

    def fix(m):
        b = int(m.group(1))
        if (b & 0x7FF0000000000000) == 0x7FF0000000000000 and (b & 0x000FFFFFFFFFFFFF):
            b = 0x7FF8000000000000
        return 'd%d;' % b
    return re.sub(r'd(\d+);', fix, s)


Y_FLOATS = [0.0, -0.0, 1.0, -1.5, 0.1, 1e17, 1e-7, 3.4028234663852886e+38, float('inf'), float('-inf'), float('nan'), 2.5e-320, 123456.789]


def rnd_float(rng):
    return rng.choice(Y_FLOATS) if rng.random() < 0.5 else bits_f32(qnan32(rng.getrandbits(32))) if rng.random() < 0.7 else rng.uniform(-10, 10)


def rnd_plain(rng, depth=0):
    k = rng.random()
    if depth > 2 or k < 0.45:
        return rng.choice([None, True, False, 0, 1, -7, 1 << 40, 'a', '', 'type', '1', 'é€', 'with space', 'yes', '0x10', '1e3', 'null', '~',
                           rng.choice(Y_FLOATS)])
    if k < 0.7:
        return [rnd_plain(rng, depth + 1) for _ in range(rng.randrange(0, 4))]
    if rng.random() < 0.5:
        keys = rng.sample(['b', 'a', 'type', 'version', 'Z', 'geos', '10', '9', 'é'], rng.randrange(0, 5))
    else:
        keys = rng.sample([3, 1, 2, 10, -1, 0, 15], rng.randrange(0, 5))
    return {kk: rnd_plain(rng, depth + 1) for kk in keys}


def rnd_vec(rng, n=3):
    return [rnd_float(rng) for _ in range(n)]


def gen_yaml(ctx, cases):
    rng = ctx.rng
    thorough = ctx.tier == 'thorough'
    # the trusted assumption itself: safe_load(dump(v)) = v with dict keys sorted
    for _ in range(600 if thorough else 150):
        v = rnd_plain(rng)
        cases.append(('yaml_canon', 'yaml_canon ' + y_enc(v), (lambda v=v: real_yaml_canon(v)), canon_y_nan, {'op': 'yaml_canon', 'value': repr(v)[:80]}, ('yaml_canon', y_enc(v))))
    for _ in range(300 if thorough else 70):
        gb = rng.sample(range(16), rng.choice([0, 1, 2, 4, 16]))
        cb = rng.sample(range(16), rng.choice([0, 1, 2, 4, 16]))
        geos = [(i, rnd_vec(rng), [rnd_vec(rng) for _ in range(3)], rng.random() < 0.8) for i in gb]
        calibs = [(i, rnd_vec(rng, 7), rnd_vec(rng, 7), rng.choice([0, 1, 0xFFFFFFFF, rng.getrandbits(32)]), rng.random() < 0.8) for i in cb]
        st = rng.choice([1, 2, 2, 3, None])
        line = 'lh_file_rt %s %s %s' % (y_enc([[i, o, r, v] for i, o, r, v in geos]), y_enc([[i, a, b, u, v] for i, a, b, u, v in calibs]), y_enc(st))
        cases.append(('lh_file_rt', line, (lambda g=geos, c=calibs, s=st: real_lh_file_rt(g, c, s)), canon_y_nan,
                      {'op': 'lh_file_rt', 'geo_bs': gb, 'calib_bs': cb, 'system_type': st}, ('lh_file_rt', line[:300])))

    def lh_doc():
        sweep = lambda: dict(zip(['phase', 'tilt', 'curve', 'gibmag', 'gibphase', 'ogeemag', 'ogeephase'], rnd_vec(rng, 7)))
        geo = lambda: {'origin': rnd_vec(rng), 'rotation': [rnd_vec(rng) for _ in range(3)]}
        cal = lambda: {'sweeps': [sweep(), sweep()], 'uid': rng.getrandbits(32)}
        d = {'type': 'lighthouse_system_configuration', 'version': '1', 'systemType': 2,
             'geos': {i: geo() for i in rng.sample(range(16), rng.randrange(0, 3))}, 'calibs': {i: cal() for i in rng.sample(range(16), rng.randrange(0, 3))}}
        m = rng.random()
        if m < 0.5:
            mut = rng.choice(['notype', 'badtype', 'typeint', 'noversion', 'intversion', 'badversion', 'nost', 'nogeos', 'nocalibs', 'geoslist', 'geosnone',
                              'geonokey', 'geonone', 'geolist', 'sweepsdict', 'sweepsshort', 'sweepsstr', 'sweepnokey', 'nouid', 'calibint', 'extra'])
            if mut == 'notype':
                del d['type']
            elif mut == 'badtype':
                d['type'] = rng.choice(['persistent_param_state', 'Lighthouse_system_configuration', ''])
            elif mut == 'typeint':
                d['type'] = rng.choice([1, None, ['lighthouse_system_configuration'], True])
            elif mut == 'noversion':
                del d['version']
            elif mut == 'intversion':
                d['version'] = rng.choice([1, 1.0, True])
            elif mut == 'badversion':
                d['version'] = rng.choice(['2', '1.0', ' 1', ''])
            elif mut == 'nost':
                del d['systemType']
            elif mut == 'nogeos':
                del d['geos']
            elif mut == 'nocalibs':
                del d['calibs']
            elif mut == 'geoslist':
                d['geos'] = [geo()]
            elif mut == 'geosnone':
                d['geos'] = rng.choice([None, 3, 'x'])
            elif mut == 'geonokey':
                d['geos'] = {0: {'origin': [1.0]}, 1: geo()}
            elif mut == 'geonone':
                d['geos'] = {0: rng.choice([None, 5, 'origin'])}
            elif mut == 'geolist':
                d['geos'] = {0: [1, 2]}
            elif mut == 'sweepsdict':
                d['calibs'] = {0: {'sweeps': {0: sweep(), 1: sweep()}, 'uid': 1}}
            elif mut == 'sweepsshort':
                d['calibs'] = {0: {'sweeps': [sweep()][:rng.randrange(2)], 'uid': 1}}
            elif mut == 'sweepsstr':
                d['calibs'] = {0: {'sweeps': rng.choice(['ab', '', None, 7]), 'uid': 1}}
            elif mut == 'sweepnokey':
                s1 = sweep()
                del s1[rng.choice(list(s1))]
                d['calibs'] = {0: {'sweeps': [sweep(), s1], 'uid': 1}}
            elif mut == 'nouid':
                d['calibs'] = {0: {'sweeps': [sweep(), sweep()]}}
            elif mut == 'calibint':
                d['calibs'] = {0: rng.choice([1, None, [], 'sweeps'])}
            else:
                d['more'] = [1, 2]
        elif m < 0.6:
            d = rng.choice([None, 7, 1.5, True, 'a type of file', 'nothing', ['type', 'version'], ['x'], [], {}])
        return d
    for _ in range(500 if thorough else 140):
        d = lh_doc()
        cases.append(('lh_file_read', 'lh_file_read ' + y_enc(d), (lambda d=d: real_lh_file_read(d)), canon_y_nan,
                      {'op': 'lh_file_read', 'doc': repr(d)[:100]}, ('lh_file_read', y_enc(d))))
    names = ['ring.effect', 'stabilizer.controller', 'sound.freq', 'a.b', 'z', 'activeMarker.mode']
    for _ in range(300 if thorough else 70):
        params = [(n, rng.random() < 0.5, rng.choice([0, 1, 255, -3, rnd_float(rng)]), rng.choice([None, 0, 7, rnd_float(rng)])) for n in rng.sample(names, rng.randrange(0, 6))]
        line = 'pf_rt ' + y_enc([[n, a, b, c] for n, a, b, c in params])
        cases.append(('pf_rt', line, (lambda p=params: real_pf_rt(p)), canon_y_nan, {'op': 'pf_rt', 'params': [p[0] for p in params]}, ('pf_rt', line[:300])))

    def pf_doc():
        ent = lambda: {'is_stored': rng.random() < 0.5, 'default_value': rng.choice([0, 1.5]), 'stored_value': rng.choice([None, 3])}
        d = {'type': 'persistent_param_state', 'version': '1', 'params': {n: ent() for n in rng.sample(names, rng.randrange(0, 4))}}
        m = rng.random()
        if m < 0.5:
            mut = rng.choice(['notype', 'badtype', 'noversion', 'intversion', 'noparams', 'paramslist', 'entnokey', 'entnone', 'paramsnone'])
            if mut == 'notype':
                del d['type']
            elif mut == 'badtype':
                d['type'] = rng.choice(['lighthouse_system_configuration', 3, None])
            elif mut == 'noversion':
                del d['version']
            elif mut == 'intversion':
                d['version'] = rng.choice([1, '2'])
            elif mut == 'noparams':
                del d['params']
            elif mut == 'paramslist':
                d['params'] = [ent()]
            elif mut == 'entnokey':
                e = ent()
                del e[rng.choice(list(e))]
                d['params'] = {'a.b': e}
            elif mut == 'entnone':
                d['params'] = {'a.b': rng.choice([None, 1, 'is_stored', []])}
            else:
                d['params'] = rng.choice([None, 0])
        elif m < 0.6:
            d = rng.choice([None, 7, 'mytype', ['type'], [], {}])
        return d
    for _ in range(300 if thorough else 80):
        d = pf_doc()
        cases.append(('pf_read', 'pf_read ' + y_enc(d), (lambda d=d: real_pf_read(d)), canon_y_nan, {'op': 'pf_read', 'doc': repr(d)[:100]}, ('pf_read', y_enc(d))))


# ---- histories on ONE long-lived element object ----------------------------------------------------------------
def show_i2c_obj(el, called):
    d = el.elements
    f = ('%d,%d,%d,%d,%d' % (d['version'], d['radio_channel'], d['radio_speed'], f32bits(d['pitch_trim']), f32bits(d['roll_trim']))) if 'version' in d else '-'
    a = str(d['radio_address']) if 'radio_address' in d else '-'
    return 'f=%s|a=%s|V=%d|C=%d|P=%d' % (f, a, 1 if el.valid else 0, called, 1 if el._update_finished_cb else 0)


def show_ow_obj(el, called, rev):
    o = lambda x: '-' if x is None else str(x)
    es = ','.join('%d=%s' % (rev[k], hexs(v.encode('ISO-8859-1'))) for k, v in el.elements.items()) or '-'
    return 'p=%s|v=%s|i=%s|e=%s|V=%d|C=%d|P=%d' % (o(el.pins), o(el.vid), o(el.pid), es, 1 if el.valid else 0, called, 1 if el._update_finished_cb else 0)


def real_hist(kind, steps):
    """the steps of Driver/C14 `i2c_hist` / `ow_hist` on one real object; an exception ends the history"""
    _quiet()
    h = FakeMemHandler()
    if kind == 'i2c':
        from cflib.crazyflie.mem.i2c_element import I2CElement
        el = I2CElement(0, 0, 0x2000, h)
        show = show_i2c_obj
    else:
        from cflib.crazyflie.mem.ow_element import OWElement
        el = OWElement(1, 1, 112, 0, h)
        rev = {v: k for k, v in _ow_names().items()}
        show = lambda e, c: show_ow_obj(e, c, rev)
    out = []
    for st in steps:
        w = st.split(':')
        called = []
        unhex = lambda x: b'' if x == '-' else bytes.fromhex(x)
        try:
            if w[0] in ('u', 'x', 'U'):
                if w[0] != 'U':
                    h.mem = bytearray(unhex(w[1]))
                h.next_mems = [unhex(w[2])] if w[0] == 'x' else []
                h.q.clear()
                el.update(lambda m, c=called: c.append(1))
                h.run()
                h.next_mems = []
                out.append(show(el, len(called)))
            elif w[0] == 'n':
                cb = el._update_finished_cb
                if cb is not None:
                    el._update_finished_cb = lambda m, cb=cb, c=called: (c.append(1), cb(m))
                nreq = len(h.q)
                el.new_data(el, int(w[1]), bytearray(unhex(w[2])))
                r = len(h.q) - nreq
                h.q.clear()
                out.append(show(el, len(called)) + '|R=%d' % (r + len(called)))
            elif w[0] == 's' and kind == 'i2c':
                el.elements = {'version': int(w[1]), 'radio_channel': int(w[2]), 'radio_speed': int(w[3]),
                               'pitch_trim': bits_f32(int(w[4])), 'roll_trim': bits_f32(int(w[5]))}
                if w[6] != 'none':
                    el.elements['radio_address'] = int(w[6])
                out.append('s')
            elif w[0] == 's':
                names = _ow_names()
                el.pins, el.vid, el.pid = int(w[1]), int(w[2]), int(w[3])
                el.elements = {}
                for e_ in ([] if w[4] == '-' else w[4].split('.')):
                    k_, v_ = e_.split('=')
                    el.elements[names[int(k_)]] = unhex(v_ or '-').decode('ISO-8859-1')
                out.append('s')
            elif w[0] == 'w':
                h.writes = []
                h.q.clear()
                el.write_data(lambda *a: None)
                h.run()                       # the image goes into the memory, write_done is delivered
                out.append('w=' + hexs(h.writes[0][1]))
            elif w[0] == 'd':
                el.disconnect()
                out.append(show(el, 0))
        except Exception as e:
            out.append('E:' + exc_enum(e))
            break
    return 'ok ' + ';'.join(out)


def canon_i2c_hist(s):
    import re
    return re.sub(r'f=(-?\d+),(-?\d+),(-?\d+),(\d+),(\d+)', lambda m: 'f=%s,%s,%s,%d,%d' % (m.group(1), m.group(2), m.group(3), qnan32(int(m.group(4))), qnan32(int(m.group(5)))), s)


def i2c_mem(rng, v=None, tail=11):
    v = rng.choice([0, 1]) if v is None else v
    tok = bytes([0x30, 0x78, 0x42, 0x43])
    body = struct.pack('<BBBII', v, rng.randrange(256), rng.randrange(256), rnd_f32(rng), rnd_f32(rng))
    if v == 1:
        body += struct.pack('<BI', rng.randrange(256), rng.getrandbits(32))
    im = tok + body
    im += bytes([sum(im) % 256])
    return bytearray(im + bytes(rng.randrange(256) for _ in range(tail + (21 - len(im)))))


def mutate_i2c(rng, mem):
    """the kinds of change an EEPROM can undergo between two reads"""
    m = bytearray(mem)
    if len(m) < 21:
        return i2c_mem(rng), 'rewritten'
    n = 16 if m[4] == 0 else 21
    k = rng.choice(['payload', 'checksum', 'token', 'version', 'other-image', 'other-version', 'same', 'unknown-version', 'short'])
    if k == 'payload':
        m[rng.randrange(5, n - 1)] ^= rng.randrange(1, 256)
    elif k == 'checksum':
        m[n - 1] ^= rng.randrange(1, 256)
    elif k == 'token':
        m[rng.randrange(4)] ^= rng.randrange(1, 256)
    elif k == 'version':
        m[4] = rng.choice([0, 1, 2, 255])
    elif k == 'other-image':
        m = i2c_mem(rng, m[4] if m[4] in (0, 1) else None)
    elif k == 'other-version':
        m = i2c_mem(rng, 1 - m[4] if m[4] in (0, 1) else None)
    elif k == 'unknown-version':
        m[4] = rng.choice([2, 3, 200])
    elif k == 'short':
        m = m[:rng.choice([0, 3, 10, 15, 17, 20])]
    return m, k


def ow_mem(rng):
    elems = rnd_ow_elems(rng)
    while sum(2 + len(c) for _, c in elems) > 255:
        elems = rnd_ow_elems(rng)
    elems = [(k, c[:rng.choice([0, 1, 4, 9])]) for k, c in elems]
    im = ow_image(rng.getrandbits(32), rng.randrange(256), rng.randrange(256), [(k, bytes(c)) for k, c in reversed(elems)])
    return bytearray(im + bytes(rng.choice([0xFF, rng.randrange(256)]) for _ in range(rng.choice([0, 4, 20]))))


def mutate_ow(rng, mem):
    m = bytearray(mem)
    k = rng.choice(['elements', 'elements', 'payload', 'section-crc', 'header', 'header-crc', 'length', 'same', 'bad-id', 'short'])
    n = 8 + m[9] + 3 if len(m) > 9 else len(m)
    if k == 'elements' or len(m) < 11 or n > len(m):
        m, k = ow_mem(rng), 'elements'

    elif k == 'payload' and m[9] > 0:
        m[rng.randrange(10, 10 + m[9])] ^= rng.randrange(1, 256)
    elif k == 'section-crc':
        m[min(n, len(m)) - 1] ^= rng.randrange(1, 256)
    elif k == 'header':
        m[rng.randrange(7)] ^= rng.randrange(1, 256)
    elif k == 'header-crc':
        m[7] ^= rng.randrange(1, 256)
    elif k == 'length':
        m[9] = rng.choice([0, 1, m[9] + 1 & 0xFF, 255])
    elif k == 'bad-id' and m[9] > 0:
        m[10] = rng.choice([0, 4, 200])
        sect = bytes(m[8:10 + m[9]])
        if 10 + m[9] < len(m):
            m[10 + m[9]] = crc32(sect) & 0xFF
    elif k == 'short':
        m = m[:rng.choice([0, 5, 8, 10, 11, 12])]
    return m, k


def gen_hist(ctx, cases):
    rng = ctx.rng
    thorough = ctx.tier == 'thorough'
    for kind, mk, mut, canon in (('i2c', i2c_mem, mutate_i2c, canon_i2c_hist), ('ow', ow_mem, mutate_ow, None)):
        for t in range(1200 if thorough else 260):
            mem = mk(rng)
            steps, kinds = [], []
            for _ in range(rng.choice([2, 3, 3, 4, 6])):
                k = rng.random()
                if k < 0.70 or not steps:
                    steps.append('u:' + hexs(mem))
                elif k < 0.78:
                    m2, kk = mut(rng, mem)
                    steps.append('x:%s:%s' % (hexs(mem), hexs(m2)))        # the memory changes between the two reads of one update
                    kinds.append('mid:' + kk)
                elif k < 0.86:
                    steps.append('d')
                elif k < 0.93 and kind == 'i2c':
                    steps.append('w')
                else:
                    a = rng.choice([0, 8, 16, 16, 5])
                    steps.append('n:%d:%s' % (a, hexs(bytes(mem[a:a + rng.choice([5, 11, 16, 40])]))))
                mem, kk = mut(rng, mem)
                kinds.append(kk)
            line = '%s_hist %s' % (kind, ','.join(steps))
            cases.append((kind + '_hist', line, (lambda k=kind, s=steps: real_hist(k, s)), canon,
                          {'op': kind + '_hist', 'steps': [s[:40] for s in steps], 'changes': kinds}, (kind + '_hist', line)))
            for kk in kinds:
                ctx.count('hist:%s:change:%s' % (kind, kk))
    # an update that reads an invalid image of every kind, then write_data() of a correct content, then update() again:
    # the second update must run and report the written content (the pending record of the first one is gone)
    good = i2c_mem(rng, 1)
    blank, zero = bytes([0xFF] * 32), bytes(32)
    bad_tok, bad_ck, bad_pay, bad_ver, ver0 = bytearray(good), bytearray(good), bytearray(good), bytearray(good), bytearray(good)
    bad_tok[2] ^= 0x40
    bad_ck[20] ^= 1
    bad_pay[9] ^= 0x10
    bad_ver[4] = 7
    ver0[4] = 0
    for nm, inv in (('blank', blank), ('zero', zero), ('bad-token', bad_tok), ('bad-checksum', bad_ck), ('bad-payload', bad_pay),
                    ('unknown-version', bad_ver), ('version-flip', ver0), ('short', bytes(good[:12])), ('empty', b'')):
        for v in (0, 1):
            st_ = ['u:' + hexs(inv), 's:%d:%d:%d:%d:%d:%s' % (v, rng.randrange(256), rng.randrange(256), rnd_f32(rng), rnd_f32(rng), rng.getrandbits(40)), 'w', 'U',
                   'u:' + hexs(inv), 'U']
            if nm in ('short', 'empty'):
                st_ = ['u:' + hexs(good)] + st_         # the exception of the short read ends the history: put a good read first
            line = 'i2c_hist ' + ','.join(st_)
            cases.append(('i2c_hist', line, (lambda s=st_: real_hist('i2c', s)), canon_i2c_hist, {'op': 'i2c_hist', 'invalid-then-rewrite': nm, 'version': v},
                          ('i2c_hist-rewrite', nm, v, line)))
            ctx.count('hist:i2c:invalid-then-rewrite:' + nm)
    okm = bytes(ow_image(0x0C, 0xBC, 1, [(1, b'Name'), (2, b'B')])) + bytes([0xFF] * 8)
    hdr_bad, hcrc_bad, sect_bad, len_bad, magic_bad, unk_id = (bytearray(okm) for _ in range(6))
    hdr_bad[3] ^= 1
    hcrc_bad[7] ^= 0x80
    sect_bad[12] ^= 4
    len_bad[9] += 1
    magic_bad[0] = 0xEA
    unk_id[10] = 9
    unk_id[8 + unk_id[9] + 2] = crc32(bytes(unk_id[8:10 + unk_id[9]])) & 0xFF
    for nm, inv in (('blank', bytes([0xFF] * 40)), ('zero', bytes(40)), ('bad-header', hdr_bad), ('bad-header-crc', hcrc_bad), ('bad-section', sect_bad),
                    ('bad-length', len_bad), ('bad-magic', magic_bad), ('unknown-element-id', unk_id), ('short', bytes(okm[:9]))):
        els = rng.choice(['1=4e616d65.2=42', '2=5265763a43', '-', '3=00ff.1=41'])
        st_ = ['u:' + hexs(inv), 's:%d:%d:%d:%s' % (rng.getrandbits(32), rng.randrange(256), rng.randrange(256), els), 'w', 'U', 'u:' + hexs(inv), 'U']
        line = 'ow_hist ' + ','.join(st_)
        cases.append(('ow_hist', line, (lambda s=st_: real_hist('ow', s)), None, {'op': 'ow_hist', 'invalid-then-rewrite': nm}, ('ow_hist-rewrite', nm, line)))
        ctx.count('hist:ow:invalid-then-rewrite:' + nm)


# ---- histories on the helper objects (LighthouseMemHelper, LighthouseConfigWriter) -------------------------------------
def show_obj_dict(d):
    out = []
    for bs, o in d.items():
        out.append('%d/%s' % (bs, show_lh(o)[4:] if show_lh(o).startswith('geo ') else show_lh(o)[6:]))
    return ','.join(out) or '-'


def mem_sig(mem):
    return '%d:%d' % (len(mem), crc32(bytes(mem)))


def real_lh_hist(size, defs, steps):
    """defs: {name: [(bs, f, v)] | [(bs, f, uid, v)]} - each becomes ONE dict object that the steps hand to the helper again and again"""
    _quiet()
    from cflib.crazyflie.mem.lighthouse_memory import LighthouseMemHelper, LighthouseMemory

    def new_helper(sz):
        h = FakeMemHandler(bytes(sz))
        lh = LighthouseMemory(3, 0x14, 0x2000, h)
        return h, lh, LighthouseMemHelper(_FakeCf([lh]))
    env = {}
    for name, ents in defs.items():
        env[name] = {e[0]: (mk_geo(e[1], e[2]) if name.startswith('G') else mk_calib(e[1], e[2], e[3])) for e in ents}
    h, lh, helper = new_helper(size)
    out = []
    for st in steps:
        w = st.split(':')
        try:
            if w[0] in ('wg', 'wc'):
                d = env[w[1]]
                h.write_acks = [] if w[2] == '-' else [c == '1' for c in w[2]]
                done = []
                (helper.write_geos if w[0] == 'wg' else helper.write_calibs)(d, done.append)
                h.run()
                h.write_acks = []
                out.append('W=%s|d=%s|m=%s' % ('?' if not done else ('1' if done[0] else '0'), show_obj_dict(d), mem_sig(h.mem)))
            elif w[0] in ('rg', 'rc'):
                fails = [] if w[1] == '-' else [int(x) for x in w[1].split('.')]
                base = 0 if w[0] == 'rg' else 0x1000
                h.read_fails = {base + 0x100 * b for b in fails}
                res = []
                (helper.read_all_geos if w[0] == 'rg' else helper.read_all_calibs)(res.append)
                h.run()
                h.read_fails = set()
                out.append('R=%s' % ('?' if not res else show_obj_dict(res[0])))
            elif w[0] == 'h':
                h, lh, helper = new_helper(int(w[1]))
                out.append('H')
        except Exception as e:
            out.append('E:' + exc_enum(e))
            break
    return 'ok ' + ';'.join(out)


class _FakeLoc:
    LH_PERSIST_DATA = 2

    def __init__(self):
        from cflib.utils.callbacks import Caller
        self.receivedLocationPacket = Caller()
        self.persisted = []
        self.pending = 0

    def send_lh_persist_data_packet(self, geo_list, calib_list):
        self.persisted.append((list(geo_list), list(calib_list)))
        self.pending += 1          # the reply arrives later, on the incoming-packet thread

    def deliver(self):
        class P:
            type = _FakeLoc.LH_PERSIST_DATA
        while self.pending:
            self.pending -= 1
            self.receivedLocationPacket.call(P())


def real_lh_cfgw(size, geos, calibs):
    _quiet()
    from cflib.crazyflie.mem.lighthouse_memory import LighthouseMemory
    from cflib.localization.lighthouse_config_manager import LighthouseConfigWriter
    h = FakeMemHandler(bytes(size))
    lh = LighthouseMemory(3, 0x14, 0x2000, h)
    cf = _FakeCf([lh])
    cf.loc = _FakeLoc()
    gd = None if geos is None else {bs: mk_geo(f, v) for bs, f, v in geos}
    cd = None if calibs is None else {bs: mk_calib(f, uid, v) for bs, f, uid, v in calibs}
    done = []
    try:
        w = LighthouseConfigWriter(cf)
        w.write_and_store_config(done.append, geos=gd, calibs=cd)
        for _ in range(10):
            if not h.q and not cf.loc.pending:
                break
            h.run()
            cf.loc.deliver()
    except Exception as e:
        return 'err ' + exc_enum(e)
    sd = lambda d: 'none' if d is None else show_obj_dict(d)
    pl = cf.loc.persisted[0] if cf.loc.persisted else ([], [])
    return 'ok S=%s|g=%s|c=%s|m=%s|p=%d.%d' % ('?' if not done else ('1' if done[0] else '0'), sd(gd), sd(cd), mem_sig(h.mem), len(pl[0]), len(pl[1]))


def gen_helper(ctx, cases):
    rng = ctx.rng
    thorough = ctx.tier == 'thorough'
    dots = lambda l: '.'.join(str(x) for x in l)

    def fl(n):
        return [rnd_f32(rng) for _ in range(n)]

    def rnd_geos(k=None):
        return [(bs, fl(12), rng.randrange(2)) for bs in rng.sample(range(16), rng.choice([0, 1, 2, 5, 16]) if k is None else k)]

    def rnd_calibs(k=None, bad=False):
        return [(bs, fl(14), (1 << 32) if bad and i == 1 else rng.getrandbits(32), rng.randrange(2))
                for i, bs in enumerate(rng.sample(range(16), rng.choice([0, 1, 2, 5, 16]) if k is None else k))]
    enc_g = lambda l: ','.join('%d/%s/%d' % (b, dots(f), v) for b, f, v in l) or '-'
    enc_c = lambda l: ','.join('%d/%s/%d/%d' % (b, dots(f), u, v) for b, f, u, v in l) or '-'
    for t in range(120 if thorough else 30):
        defs = {'G0': rnd_geos(), 'G1': rnd_geos(), 'C0': rnd_calibs(bad=rng.random() < 0.08)}
        steps = []
        for _ in range(rng.choice([2, 3, 4, 6])):
            k = rng.random()
            if k < 0.35:
                name = rng.choice(['G0', 'G0', 'G1'])
                n = len(defs[name])
                acks = '-' if rng.random() < 0.7 or n == 0 else ''.join(rng.choice('1110') for _ in range(n))
                steps.append('wg:%s:%s' % (name, acks))
            elif k < 0.5:
                n = len(defs['C0'])
                steps.append('wc:C0:%s' % ('-' if rng.random() < 0.7 or n == 0 else ''.join(rng.choice('1110') for _ in range(n))))
            elif k < 0.72:
                steps.append('rg:%s' % ('-' if rng.random() < 0.6 else dots(sorted(rng.sample(range(16), rng.choice([1, 3, 15]))))))
            elif k < 0.85:
                steps.append('rc:%s' % ('-' if rng.random() < 0.6 else dots(sorted(rng.sample(range(16), rng.choice([1, 3]))))))
            else:
                steps.append('h:%d' % 0x2000)               # the next Crazyflie: another helper, another memory, the SAME dict objects
        if t % 3 == 0:                                      # the canonical uses: upload twice / to two Crazyflies / write then read back
            steps = ['wg:G0:-', 'wg:G0:-', 'rg:-', 'h:8192', 'wg:G0:-', 'wc:C0:-', 'rg:-', 'rc:-']
        line = 'lh_hist %d %s %s' % (0x2000, '|'.join(['G0=' + enc_g(defs['G0']), 'G1=' + enc_g(defs['G1']), 'C0=' + enc_c(defs['C0'])]), ';'.join(steps))
        cases.append(('lh_hist', line, (lambda d=defs, s=steps: real_lh_hist(0x2000, d, s)), canon_f32_fields,
                      {'op': 'lh_hist', 'steps': steps, 'sizes': {k: len(v) for k, v in defs.items()}}, ('lh_hist', t, line[:200])))
        for st in steps:
            ctx.count('helper:step:' + st.split(':')[0])
    for t in range(40 if thorough else 10):
        geos = None if rng.random() < 0.2 else rnd_geos(rng.choice([0, 1, 3, 16]))
        calibs = None if rng.random() < 0.3 else rnd_calibs(rng.choice([0, 1, 3, 16]))
        line = 'lh_cfgw %d %s %s' % (0x2000, 'none' if geos is None else enc_g(geos), 'none' if calibs is None else enc_c(calibs))
        cases.append(('lh_cfgw', line, (lambda g=geos, c=calibs: real_lh_cfgw(0x2000, g, c)), canon_f32_fields,
                      {'op': 'lh_cfgw', 'geos': None if geos is None else len(geos), 'calibs': None if calibs is None else len(calibs)}, ('lh_cfgw', t, line[:200])))


def gen_corpus(ctx, cases):
    """harness/corpus/c14/*.json: committed witnesses / past disagreements, replayed first"""
    import glob
    import json
    here = os.path.dirname(os.path.dirname(os.path.abspath(__file__)))
    for fn in sorted(glob.glob(os.path.join(here, 'corpus', 'c14', '*.json'))):
        doc = json.load(open(fn))
        for line in doc.get('lines', []):
            w = line.split(' ')
            cps = lambda t: [int(x) for x in t.split('.')] if t else []
            if w[0] == 'ow_write':
                elems = [] if w[4] == '-' else [(int(e.split(':')[0]), cps(e.split(':')[1])) for e in w[4].split(',')]
                thunk = (lambda w=w, e=elems: real_ow_write(int(w[1]), int(w[2]), int(w[3]), e))
            elif w[0] == 'ow_parse':
                thunk = (lambda w=w: real_ow_parse(bytes.fromhex(w[1])))
            elif w[0] == 'i2c_write':
                thunk = (lambda w=w: real_i2c_write(int(w[1]), int(w[2]), int(w[3]), int(w[4]), int(w[5]), None if w[6] == 'none' else int(w[6])))
            elif w[0] == 'i2c_parse':
                thunk = (lambda w=w: real_i2c_parse(bytes.fromhex(w[1])))
            elif w[0] in ('i2c_hist', 'ow_hist'):
                thunk = (lambda w=w: real_hist(w[0][:-5], w[1].split(',')))
            elif w[0] == 'lh_hist':
                defs = {}
                for dd in w[2].split('|'):
                    nm, val = dd.split('=')
                    ents = []
                    for e in ([] if val == '-' else val.split(',')):
                        x = e.split('/')
                        fl_ = [int(v) for v in x[1].split('.')]
                        ents.append((int(x[0]), fl_, int(x[2])) if nm.startswith('G') else (int(x[0]), fl_, int(x[2]), int(x[3])))
                    defs[nm] = ents
                thunk = (lambda w=w, d=defs: real_lh_hist(int(w[1]), d, w[3].split(';')))
            else:
                raise RuntimeError('corpus %s: unknown op %s' % (fn, w[0]))
            cases.append((w[0], line, thunk, canon_i2c_parse if w[0] == 'i2c_parse' else canon_i2c_hist if w[0] == 'i2c_hist' else canon_f32_fields if w[0] == 'lh_hist' else None,
                          {'op': w[0], 'corpus': os.path.basename(fn)}, ('corpus', line)))


def gen_rereads(ctx, cases):
    """LocoMemory / LocoMemory2 / DeckMemoryManager: several reads on ONE object while the memory changes; the model parses
    each memory on its own, so any result carried over from an earlier read is a disagreement"""
    rng = ctx.rng
    for g in range(40 if ctx.tier == 'thorough' else 10):
        holder = {}
        for step in range(3):
            n = rng.choice([0, 1, 2, 5])
            mem = bytearray(0x1000 + 0x100 * max(n, 1))
            mem[0] = n
            for i in range(n):
                mem[0x1000 + 0x100 * i:0x1000 + 0x100 * i + 13] = anchor_bytes(rng)
            cases.append(('loco', 'loco ' + hexs(mem), (lambda m=bytes(mem), hd=holder: real_loco(m, hd)), canon_f32_fields,
                          {'op': 'loco', 'reread': step, 'n': n}, ('loco-reread', g, step, bytes(mem))))
            n = rng.choice([0, 1, 3, 8])
            mem = bytearray(0x2000 + 0x100 * 32)
            mem[0:17] = bytes([n] + rng.sample(range(32), 16))
            mem[0x1000:0x1011] = bytes([rng.choice([0, 2, 16])] + [rng.randrange(32) for _ in range(16)])
            for i in range(32):
                mem[0x2000 + 0x100 * i:0x2000 + 0x100 * i + 13] = anchor_bytes(rng)
            cases.append(('loco2', 'loco2 ' + hexs(mem), (lambda m=bytes(mem), hd=holder: real_loco2(m, hd)), canon_f32_fields,
                          {'op': 'loco2', 'reread': step, 'n': n}, ('loco2-reread', g, step, bytes(mem))))
            recs = b''.join(deck_record(rng, 'ascii') for _ in range(8))
            mem = bytes([rng.choice([3, 3, 3, 2])]) + recs
            cases.append(('deck_info', 'deck_info ' + hexs(mem), (lambda m=mem, hd=holder: real_deck_info(m, hd)), None,
                          {'op': 'deck_info', 'reread': step}, ('deck-reread', g, step, mem)))


GENERATORS = [gen_corpus, gen_i2c, gen_ow, gen_hist, gen_rereads, gen_lh, gen_helper, gen_deck, gen_loco, gen_yaml]


def correspond(ctx):
    cases = []
    for g in GENERATORS:
        g(ctx, cases)
    replies = ctx.lean(DRIVER, [c[1] for c in cases])
    for (kind, line, thunk, canon, desc, key), model in zip(cases, replies):
        real = thunk()
        if canon is not None:
            model = canon(model)
            real = canon(real)
        ctx.count('op:' + kind)
        w = real.split(' ')
        ctx.count('result:' + kind + ':' + w[0] + (':' + w[1] if w[0] == 'err' and len(w) > 1 else ''))
        if kind.endswith('_parse') and real.startswith('ok'):
            ctx.count('parse:' + kind + ':' + ' '.join(x for x in w if x.startswith(('V=', 'C='))))
        ctx.case(desc, key)
        if real != model:
            ctx.disagree(kind, line[:400], model[:400], real[:400])


# ======================================================================================================
# failing-input search: the property itself on the real code
# ======================================================================================================
def search(ctx):
    rng = ctx.rng
    n = 300 if ctx.tier == 'quick' else 3000
    # EEPROM: round trip for every representable content, validity, single corrupted byte
    for t in range(n):
        v = rng.choice([0, 1])
        ch, sp = rng.randrange(256), rng.randrange(256)
        p, r = rnd_f32(rng), rnd_f32(rng)
        a = rng.choice([0, 0xE7E7E7E7E7, (1 << 40) - 1, rng.getrandbits(40)])
        w = real_i2c_write(v, ch, sp, p, r, a)
        inp = {'version': v, 'channel': ch, 'speed': sp, 'pitch': p, 'roll': r, 'address': a}
        if not w.startswith('ok '):
            ctx.witness('i2c-write-rejected', 'representable EEPROM content cannot be written', inp, got=w)
            continue
        im = bytes.fromhex(w[3:])
        old = bytes(rng.randrange(256) for _ in range(32))
        mem = im + old[len(im):]
        want = 'ok f=%d,%d,%d,%d,%d a=%s V=1 C=1' % (v, ch, sp, p, r, a if v == 1 else '-')
        got = real_i2c_parse(mem)
        if got != want:
            ctx.witness('i2c-roundtrip', 'EEPROM image does not parse back to the written content', inp, got=got, want=want)

        # every single corrupted byte of the image must be detected (D13: except a colliding version byte)
        if t % 10 == 0:
            for i in range(len(im)):
                for nb in (range(256) if (i == 4 or ctx.tier == 'thorough') else {0, 1, 0xFF, im[i] ^ 1, im[i] ^ 0x80, rng.randrange(256)}):
                    if nb == im[i]:
                        continue
                    m2 = bytearray(mem)
                    m2[i] = nb
                    got = real_i2c_parse(bytes(m2))
                    if ' V=1' in got:
                        key = 'D13-eeprom-version-byte' if i == 4 else 'i2c-corruption-undetected'
                        ctx.witness(key, 'EEPROM image with one corrupted byte is reported valid', dict(inp, image=im.hex(), index=i, new_byte=nb, memory=bytes(m2).hex()), got=got)
    # D13, the committed witness (Props/C14 d13Image): version byte 1 -> 0 of the image of channel 80, speed 2, address 0x7FE7E7E7E7
    w = real_i2c_write(1, 80, 2, 0, 0, 0x7FE7E7E7E7)
    if w.startswith('ok '):
        m2 = bytearray(bytes.fromhex(w[3:]) + bytes(11))
        m2[4] = 0
        got = real_i2c_parse(bytes(m2))
        if ' V=1' in got:
            ctx.witness('D13-eeprom-version-byte', 'EEPROM image with one corrupted byte is reported valid',
                        {'version': 1, 'channel': 80, 'speed': 2, 'pitch': 0, 'roll': 0, 'address': 0x7FE7E7E7E7, 'image': w[3:], 'index': 4, 'new_byte': 0}, got=got)

    # 1-wire: round trip for every representable content (every section length, every first element id), validity
    def ow_roundtrip(pins, vid, pid, elems, why):
        inp = {'pins': pins, 'vid': vid, 'pid': pid, 'elements': [(k, bytes(c).hex()) for k, c in elems], 'why': why}
        w = real_ow_write(pins, vid, pid, elems)
        if not w.startswith('ok '):
            ctx.witness('ow-write-rejected', 'representable 1-wire content cannot be written', inp, got=w)
            return
        im = bytes.fromhex(w[3:])
        want_im = ow_image(pins, vid, pid, [(k, bytes(c)) for k, c in reversed(elems)])
        if im != want_im:
            ctx.witness('ow-layout', '1-wire image differs from the layout the firmware reads', inp, got=im.hex(), want=want_im.hex())
        mem = im + bytes(0xFF for _ in range(max(0, 112 - len(im))))
        got = real_ow_parse(mem)
        # dict equality: same key -> value map (order is not part of the content)
        want = {k: bytes(c) for k, c in elems}
        ok = False
        if got.startswith('ok '):
            f = dict(x.split('=') for x in got[3:].split(' '))
            gd = {} if f['e'] == '-' else {int(x.split(':')[0]): (b'' if x.split(':')[1] == '-' else bytes.fromhex(x.split(':')[1])) for x in f['e'].split(',')}
            ok = (int(f['p']), int(f['v']), int(f['i'])) == (pins, vid, pid) and gd == want and f['V'] == '1' and f['C'] == '1'
        if not ok:
            sec = sum(2 + len(c) for _, c in elems)
            first = elems[-1][0] if elems else None
            key = 'D12-ow-shortcut' if (sec, first) in ((5, 2), (74, 3), (176, 1)) else 'ow-roundtrip'
            ctx.witness(key, '1-wire image written by the library does not parse back to the written content',
                        dict(inp, image=im.hex(), section_length=sec, first_id=first), got=got)
    ow_roundtrip(0x0C, 0xBC, 1, [(2, [97, 98, 99])], 'D12 witness of Props/C14')
    for tot in range(0, 256):
        for first in (1, 2, 3):
            if tot == 1:
                continue
            elems = [] if tot == 0 else [(first, [rng.randrange(256) for _ in range(tot - 2)])]
            ow_roundtrip(rng.getrandbits(32), rng.randrange(256), rng.randrange(256), elems, 'every length')
    for t in range(n):
        elems = ow_collision_elems(rng) if rng.random() < 0.1 else rnd_ow_elems(rng)
        if sum(2 + len(c) for _, c in elems) > 255:
            continue
        ow_roundtrip(rng.getrandbits(32), rng.randrange(256), rng.randrange(256), elems, 'random')
    # validity follows the CRC: corrupt one byte of the header or element section of a written image
    for t in range(n):
        elems = rnd_ow_elems(rng)
        if sum(2 + len(c) for _, c in elems) > 255:
            continue
        im = bytearray(ow_image(rng.getrandbits(32), rng.randrange(256), rng.randrange(256), [(k, bytes(c)) for k, c in reversed(elems)]))
        i = rng.randrange(len(im))
        im[i] ^= rng.randrange(1, 256)
        hdr_ok = im[0] == 0xEB and (crc32(bytes(im[:7])) & 0xFF) == im[7]
        ln = im[9]
        sect = bytes(im[8:8 + ln + 3])
        sec_ok = len(sect) == ln + 3 and (crc32(sect[:-1]) & 0xFF) == sect[-1]
        got = real_ow_parse(bytes(im) + bytes(300))
        if got.startswith('ok ') and (' V=1' in got) != (hdr_ok and sec_ok):
            ctx.witness('ow-valid-vs-crc', '1-wire validity verdict differs from the recomputed CRCs',
                        {'memory': bytes(im).hex(), 'corrupted_index': i, 'header_crc_ok': hdr_ok, 'section_crc_ok': sec_ok}, got=got)

    # lighthouse memory: any subset of base stations, geometry then calibration, read back through LighthouseMemory
    for t in range(max(10, n // 10)):
        gb = rng.sample(range(16), rng.choice([1, 2, 5, 16]))
        cb = rng.sample(range(16), rng.choice([1, 2, 5, 16]))
        geos = [(bs, [rnd_f32(rng) for _ in range(12)], rng.randrange(2)) for bs in gb]
        calibs = [(bs, [rnd_f32(rng) for _ in range(14)], rng.getrandbits(32), rng.randrange(2)) for bs in cb]
        got = real_lh_cfg(0x2000, geos, calibs)
        ok = got.startswith('ok ')
        if ok:
            parts = canon_f32_fields(got[3:]).split(';')
            for bs, f, v in geos:
                ok = ok and parts[bs] == canon_f32_fields('geo %s/%d' % ('.'.join(map(str, f)), v))
            for bs, f, uid, v in calibs:
                ok = ok and parts[16 + bs] == canon_f32_fields('calib %s/%d/%d' % ('.'.join(map(str, f)), uid, v))
        if not ok:
            ctx.witness('lh-memory-roundtrip', 'lighthouse geometry/calibration written to memory does not read back',
                        {'geos': geos, 'calibs': calibs}, got=got[:400])
    # deck info section: what the device encodes is what is listed (all bit-field combinations over the run)
    for t in range(max(20, n // 5)):
        recs, want = [], []
        for i in range(8):
            bf1, bf2 = rng.randrange(128), rng.randrange(4)
            h_, l_, b_ = rng.getrandbits(32), rng.getrandbits(32), rng.getrandbits(32)
            name = bytes(rng.choice(b'abcdefghijklmnopqrstuvwxyzABCDEF0123456789') for _ in range(rng.choice([0, 1, 6, 17, 18])))
            recs.append(bytes([bf1, bf2]) + struct.pack('<LLL', h_, l_, b_) + name.ljust(18, b'\x00'))
            if bf1 & 1:
                flags = ''.join('1' if x else '0' for x in [bf1 & 1, bf1 & 2, bf1 & 4, bf1 & 8, bf1 & 16, bf1 & 32, bf1 & 64, bf2 & 1, bf2 & 2])
                want.append('%d:%d:%d:%d:%d:%d:%d:%s:%s' % (i, bf1, bf2, h_, l_, b_, 0x1000 + 0x20 * i, '.'.join(str(c) for c in name), flags))
        got = real_deck_info(bytes([3]) + b''.join(recs))
        if got != 'ok decks ' + (';'.join(want) or '-'):
            ctx.witness('deck-info', 'deck info section does not parse to the fields the device encoded', {'records': [r.hex() for r in recs]}, got=got[:400])
    # anchors
    for t in range(max(5, n // 30)):
        k = rng.choice([0, 1, 3, 8, 16])
        an = [anchor_bytes(rng) for _ in range(k)]
        mem = bytearray(0x1000 + 0x100 * max(k, 1))
        mem[0] = k
        for i, a in enumerate(an):
            mem[0x1000 + 0x100 * i:0x1000 + 0x100 * i + 13] = a
        want = 'ok n=%d a=%s V=1' % (k, ';'.join('%d.%d.%d.%d' % (struct.unpack('<III', a[:12]) + (1 if a[12] else 0,)) for a in an) or '-')
        got = real_loco(bytes(mem))
        if canon_f32_fields(got) != canon_f32_fields(want):
            ctx.witness('loco-anchors', 'anchor list does not parse to what the device encoded', {'anchors': [a.hex() for a in an]}, got=got[:300])
    # write-only layouts
    for t in range(max(10, n // 10)):
        pieces = [tuple([rnd_f32(rng) for _ in range(8)] for _ in range(4)) + (rnd_f32(rng),) for _ in range(rng.choice([1, 2, 4]))]
        want = b''.join(b''.join(struct.pack('<I', v) for c in p[:4] for v in c) + struct.pack('<I', p[4]) for p in pieces)
        got = real_traj(pieces)
        if got != 'ok ' + hexs(want):
            ctx.witness('poly4d-layout', 'trajectory image differs from struct poly4d {float p[4][8]; float duration;}', {'pieces': pieces}, got=got[:200])
        ts = [(rng.randrange(256), rng.randrange(256), rng.randrange(256), rng.randrange(256), rng.randrange(16), rng.randrange(2), rng.randrange(8))
              for _ in range(rng.choice([1, 3, 8]))]
        want = b''
        for (tm, r, g, b, leds, fade, rot) in ts:
            w = (((r * 249 + 1014) >> 11) << 11) | (((g * 253 + 505) >> 10) << 5) | ((b * 249 + 1014) >> 11)
            rec = bytes([tm, w >> 8, w & 0xFF, leds | (fade << 4) | (rot << 5)])
            if rec != bytes(4):
                want += rec
        got = real_led(ts)
        if got != 'ok ' + hexs(want + bytes(4)):
            ctx.witness('led-layout', 'LED timing image differs from the firmware record layout', {'timings': ts}, got=got[:200])
    # YAML files: round trip of valid objects, rejection of other types / versions
    for t in range(max(20, n // 5)):
        gb = rng.sample(range(16), rng.choice([0, 1, 3, 16]))
        cb = rng.sample(range(16), rng.choice([0, 1, 3, 16]))
        geos = [(i, rnd_vec(rng), [rnd_vec(rng) for _ in range(3)], rng.random() < 0.8) for i in gb]
        calibs = [(i, rnd_vec(rng, 7), rnd_vec(rng, 7), rng.getrandbits(32), rng.random() < 0.8) for i in cb]
        st = rng.choice([1, 2])
        got = real_lh_file_rt(geos, calibs, st)
        wg = [[{i: None}, o, r, True] for i, o, r, v in sorted(geos) if v]
        wc = [[{i: None}, a, b, u, True] for i, a, b, u, v in sorted(calibs) if v]
        if canon_y_nan(got) != canon_y_nan('ok ' + y_enc([wg, wc, st])):
            ctx.witness('lh-file-roundtrip', 'lighthouse configuration file does not read back to the written valid objects',
                        {'geos': repr(geos)[:300], 'calibs': repr(calibs)[:300], 'system_type': st}, got=got[:300])
        names = ['ring.effect', 'stabilizer.controller', 'sound.freq', 'a.b', 'z']
        params = [(nm, rng.random() < 0.5, rng.choice([0, 1, 255, rnd_float(rng)]), rng.choice([None, 7, rnd_float(rng)])) for nm in rng.sample(names, rng.randrange(0, 5))]
        got = real_pf_rt(params)
        if canon_y_nan(got) != canon_y_nan('ok ' + y_enc([[{nm: None}, a, b, c] for nm, a, b, c in sorted(params)])):
            ctx.witness('param-file-roundtrip', 'persistent parameter file does not read back to the written states', {'params': repr(params)[:300]}, got=got[:300])
    for doc, want in (({'type': 'persistent_param_state', 'version': '1'}, 'err msg:Unsupported_file_type'),
                      ({'type': 'lighthouse_system_configuration', 'version': '2'}, 'err msg:Unsupported_file_version'),
                      ({'version': '1'}, 'err msg:Type_field_missing'), ({'type': 'lighthouse_system_configuration'}, 'err msg:Version_field_missing')):
        got = real_lh_file_read(doc)
        if got != want:
            ctx.witness('lh-file-rejection', 'lighthouse configuration reader accepts a file of another type/version', {'doc': doc}, got=got, want=want)
    for doc, want in (({'type': 'lighthouse_system_configuration', 'version': '1'}, 'err msg:Unsupported_file_type'),
                      ({'type': 'persistent_param_state', 'version': 1}, 'err msg:Unsupported_file_version'),
                      ({'params': {}}, 'err msg:Type_field_missing'), ({'type': 'persistent_param_state'}, 'err msg:Version_field_missing')):
        got = real_pf_read(doc)
        if got != want:
            ctx.witness('param-file-rejection', 'parameter file reader accepts a file of another type/version', {'doc': doc}, got=got, want=want)

    # ONE long-lived element object, the memory changing between reads: after every completed update() the reported
    # validity (and for a valid image the content) must be that of the memory just read - independent spec twins
    from cflib.crazyflie.mem.i2c_element import I2CElement
    from cflib.crazyflie.mem.ow_element import OWElement
    rev = {v: k for k, v in _ow_names().items()}

    def i2c_expect(m):
        if len(m) < 5 or bytes(m[0:4]) != b'0xBC' or m[4] not in (0, 1):
            return False, None
        ln = 16 if m[4] == 0 else 21
        if len(m) < ln:
            return None, None          # the read is short: the library raises, nothing is reported
        ok = sum(m[:ln - 1]) % 256 == m[ln - 1]
        f = struct.unpack('<BBBII', bytes(m[4:15]))
        return ok, (f + ((m[15] << 32) | struct.unpack('<I', bytes(m[16:20]))[0],) if m[4] == 1 else f)

    def ow_expect(m):
        """(valid, elements) or None when the parse cannot complete (short memory / malformed TLV: exception in the library)"""
        if len(m) < 11:
            return None
        if not (m[0] == 0xEB and (crc32(bytes(m[:7])) & 0xFF) == m[7]):
            return False, None
        ln = m[9]
        sect = bytes(m[8:8 + ln + 3])
        if len(sect) < ln + 3:
            return None
        if (crc32(sect[:-1]) & 0xFF) != sect[-1]:
            return False, None
        body, d = sect[2:-1], {}
        while body:
            if len(body) < 2 or body[0] not in (1, 2, 3):
                return None
            d[body[0]] = body[2:2 + body[1]]
            body = body[2 + body[1]:]
        return True, d
    for t in range(n):
        h = FakeMemHandler()
        el = I2CElement(0, 0, 0x2000, h)
        mem = i2c_mem(rng)
        trace = []
        for step in range(rng.choice([3, 4, 6])):
            h.mem = bytearray(mem)
            called = []
            nreads = len(h.reads)
            try:
                el.update(lambda m_, c=called: c.append(1))
                h.run()
            except Exception:
                called = None
            trace.append(bytes(mem).hex())
            if not called:
                if called is not None:      # no exception, yet the callback was not called
                    if len(h.reads) == nreads:
                        ctx.witness('i2c-update-ignored', 'update() on a long-lived EEPROM element is silently ignored (no read issued, callback never called) after '
                                    'an earlier update() had completed: the pending record was not cleared', {'memories': trace}, got='valid=%s' % el.valid)
                        break
                    key = 'D141-i2c-unknown-version-wedges' if bytes(mem[0:4]) == b'0xBC' and len(mem) > 4 and mem[4] not in (0, 1) else 'i2c-update-never-completes'
                    ctx.witness(key, 'update() of an EEPROM element never completes for this memory content: no result is reported and every later update() '
                                'is ignored', {'memories': trace}, got='callback not called, pending=%s' % bool(el._update_finished_cb))
                el.disconnect()
                h.q.clear()
            else:
                ok, f = i2c_expect(mem)
                if ok is None:
                    mem, _ = mutate_i2c(rng, mem)
                    continue
                bad = el.valid != ok
                if not bad and ok:
                    d = el.elements
                    got = (d['version'], d['radio_channel'], d['radio_speed'], f32bits(d['pitch_trim']), f32bits(d['roll_trim']))
                    got = got + ((d['radio_address'],) if f[0] == 1 else ())
                    bad = tuple(qnan32(x) if i in (3, 4) else x for i, x in enumerate(got)) != tuple(qnan32(x) if i in (3, 4) else x for i, x in enumerate(f))
                if bad:
                    ctx.witness('i2c-stale-validity', 'on a long-lived EEPROM element a re-read reports validity/fields that differ from the checksum/content of the memory just read',
                                {'memories': trace}, got='valid=%s elements=%r' % (el.valid, dict(el.elements)), want='valid=%s fields=%r' % (ok, f))
                    break
            mem, _ = mutate_i2c(rng, mem)
        h = FakeMemHandler()
        ow = OWElement(1, 1, 112, 0, h)
        mem = ow_mem(rng)
        trace = []
        for step in range(rng.choice([3, 4, 6])):
            h.mem = bytearray(mem)
            called = []
            nreads_ow = len(h.reads)
            try:
                ow.update(lambda m_, c=called: c.append(1))
                h.run()
            except Exception:
                called = None
            trace.append(bytes(mem).hex())
            exp = ow_expect(mem)
            if not called:
                if called is not None:
                    key = 'ow-update-ignored' if len(h.reads) == nreads_ow else 'ow-update-never-completes'
                    ctx.witness(key, 'update() on a long-lived 1-wire element does not complete although no exception was raised (after an earlier completed '
                                'update(): the pending record was not cleared)', {'memories': trace}, got='valid=%s pending=%s' % (ow.valid, bool(ow._update_finished_cb)))
                    break
                ow.disconnect()
                h.q.clear()
            elif exp is not None:
                got_el = {rev[k]: v.encode('ISO-8859-1') for k, v in ow.elements.items()}
                if ow.valid != exp[0]:
                    ctx.witness('ow-stale-validity', 'on a long-lived 1-wire element a re-read reports a validity that differs from the CRCs of the memory just read',
                                {'memories': trace}, got='valid=%s' % ow.valid, want='valid=%s' % exp[0])
                    break
                if exp[0] and got_el != exp[1]:
                    ctx.witness('D121-ow-stale-elements', 'on a long-lived 1-wire element a re-read reports elements that are not in the memory just read',
                                {'memories': trace}, got=repr(got_el), want=repr(exp[1]))
                    break
            mem, _ = mutate_ow(rng, mem)

    # every USE of the helper's writer / reader: the same dict object uploaded twice, to two Crazyflies, then read back;
    # the caller's dict must not be consumed and every upload must leave the layout of the dict in the memory
    from cflib.crazyflie.mem.lighthouse_memory import LighthouseMemHelper, LighthouseMemory

    def layout(geos, calibs, size=0x2000):
        m = bytearray(size)
        for bs, f, v in geos:
            m[0x100 * bs:0x100 * bs + 49] = b''.join(struct.pack('<I', x) for x in f) + bytes([1 if v else 0])
        for bs, f, uid, v in calibs:
            m[0x1000 + 0x100 * bs:0x1000 + 0x100 * bs + 61] = b''.join(struct.pack('<I', x) for x in f) + struct.pack('<I', uid) + bytes([1 if v else 0])
        return m

    def q32(m):
        """memory with the float32 fields of all pages quieted (signalling NaNs do not survive a Python float)"""
        m = bytearray(m)
        for base, nf in ((0, 12), (0x1000, 14)):
            for bs in range(16):
                for i in range(nf):
                    o = base + 0x100 * bs + 4 * i
                    m[o:o + 4] = struct.pack('<I', qnan32(struct.unpack('<I', bytes(m[o:o + 4]))[0]))
        return bytes(m)
    for t in range(max(12, n // 12)):
        geos = [(bs, [rnd_f32(rng) for _ in range(12)], rng.randrange(2)) for bs in rng.sample(range(16), rng.choice([1, 2, 5, 16]))]
        calibs = [(bs, [rnd_f32(rng) for _ in range(14)], rng.getrandbits(32), rng.randrange(2)) for bs in rng.sample(range(16), rng.choice([1, 2, 16]))]
        gd = {bs: mk_geo(f, v) for bs, f, v in geos}
        cd = {bs: mk_calib(f, uid, v) for bs, f, uid, v in calibs}
        want_mem = q32(layout(geos, calibs))
        want_g, want_c = show_obj_dict(gd), show_obj_dict(cd)
        inp = {'geos': geos, 'calibs': calibs}
        for upload in range(rng.choice([2, 3])):           # each upload goes to another Crazyflie (helper + memory)
            h = FakeMemHandler(bytes(0x2000))
            lh = LighthouseMemory(3, 0x14, 0x2000, h)
            helper = LighthouseMemHelper(_FakeCf([lh]))
            done = []
            helper.write_geos(gd, done.append)
            h.run()
            helper.write_calibs(cd, done.append)
            h.run()
            got_g, got_c = show_obj_dict(gd), show_obj_dict(cd)
            if canon_f32_fields(got_g) != canon_f32_fields(want_g) or canon_f32_fields(got_c) != canon_f32_fields(want_c):
                ctx.witness('lh-helper-consumes-caller-data', 'LighthouseMemHelper.write_geos/write_calibs changed the dict the caller passed in',
                            dict(inp, upload=upload + 1), got='geos=%s calibs=%s' % (got_g[:200], got_c[:200]), want='unchanged')
                break
            if done != [True, True] or q32(h.mem) != want_mem:
                ctx.witness('lh-helper-upload', 'upload number %d of the same configuration dict does not leave its layout in the memory' % (upload + 1),
                            dict(inp, upload=upload + 1), got='success=%r memory crc=%d' % (done, crc32(q32(h.mem))), want='success=[True, True] memory crc=%d' % crc32(want_mem))
                break
            res = []
            helper.read_all_geos(res.append)
            h.run()
            helper.read_all_calibs(res.append)
            h.run()
            bad = [bs for bs in gd if canon_f32_fields(show_lh(res[0][bs])) != canon_f32_fields(show_lh(gd[bs]))] + \
                  [bs for bs in cd if canon_f32_fields(show_lh(res[1][bs])) != canon_f32_fields(show_lh(cd[bs]))]
            if bad:
                ctx.witness('lh-helper-readback', 'read_all_* after the upload does not return the uploaded objects', dict(inp, upload=upload + 1, base_stations=bad))
                break
        got = real_lh_cfgw(0x2000, geos, calibs)
        pad_g = geos + [(bs, [0] * 12, 0) for bs in range(16) if bs not in {g[0] for g in geos}]
        pad_c = calibs + [(bs, [0] * 14, 0, 0) for bs in range(16) if bs not in {c[0] for c in calibs}]
        want = 'ok S=1|g=%s|c=%s|m=%s|p=16.16' % (want_g, want_c, mem_sig(layout(pad_g, pad_c)))
        if canon_f32_fields(got) != canon_f32_fields(want):
            ctx.witness('lh-config-writer', 'LighthouseConfigWriter changed the caller dicts or did not complete', inp, got=got[:300], want=want[:300])

    # an invalid read of every kind, then write_data() of a correct content, then update(): the image just written must be
    # parsed and reported valid (the first update must not leave anything behind that blocks the second)
    good = bytes(i2c_mem(rng, 1))
    kinds = {'blank': bytes([0xFF] * 32), 'zero': bytes(32), 'bad-token': bytes([good[0] ^ 1]) + good[1:], 'bad-checksum': good[:20] + bytes([good[20] ^ 1]) + good[21:],
             'bad-payload': good[:9] + bytes([good[9] ^ 0x10]) + good[10:], 'unknown-version': good[:4] + bytes([7]) + good[5:],
             'version-flip': good[:4] + bytes([0]) + good[5:], 'valid': good}
    for nm, inv in kinds.items():
        for v in (0, 1):
            h = FakeMemHandler(inv)
            el = I2CElement(0, 0, 0x2000, h)
            c1, c2 = [], []
            el.update(lambda m_: c1.append(m_.valid))
            h.run()
            ch, sp, pt, rl, ad = rng.randrange(256), rng.randrange(256), rnd_f32(rng), rnd_f32(rng), rng.getrandbits(40)
            el.elements = {'version': v, 'radio_channel': ch, 'radio_speed': sp, 'pitch_trim': bits_f32(pt), 'roll_trim': bits_f32(rl), 'radio_address': ad}
            el.write_data(lambda *a: None)
            h.run()
            nreads = len(h.reads)
            el.update(lambda m_: c2.append(m_.valid))
            h.run()
            d = el.elements
            ok = c2 == [True] and (d['version'], d['radio_channel'], d['radio_speed'], qnan32(f32bits(d['pitch_trim'])), qnan32(f32bits(d['roll_trim']))) == (v, ch, sp, qnan32(pt), qnan32(rl)) \
                and (v == 0 or d['radio_address'] == ad)
            if not ok:
                key = 'i2c-update-ignored' if (len(h.reads) == nreads and c1) else \
                      ('D141-i2c-unknown-version-wedges' if nm == 'unknown-version' and not c1 else 'i2c-rewrite-not-parsed')
                ctx.witness(key, 'EEPROM: update() on a %s image, then write_data() of a correct version-%d content, then update(): the written image is not reported valid' % (nm, v),
                            {'first_memory': inv.hex(), 'written': {'version': v, 'channel': ch, 'speed': sp, 'pitch': pt, 'roll': rl, 'address': ad}},
                            got='first callback=%r second callback=%r reads issued by second update=%d valid=%s' % (c1, c2, len(h.reads) - nreads, el.valid))
    okm = bytes(ow_image(0x0C, 0xBC, 1, [(1, b'Name'), (2, b'B')])) + bytes([0xFF] * 8)
    okinds = {'blank': bytes([0xFF] * 40), 'zero': bytes(40), 'bad-header': okm[:3] + bytes([okm[3] ^ 1]) + okm[4:], 'bad-header-crc': okm[:7] + bytes([okm[7] ^ 0x80]) + okm[8:],
              'bad-section': okm[:12] + bytes([okm[12] ^ 4]) + okm[13:], 'bad-magic': bytes([0xEA]) + okm[1:], 'valid': okm}
    names = _ow_names()
    for nm, inv in okinds.items():
        h = FakeMemHandler(inv)
        ow = OWElement(1, 1, 112, 0, h)
        c1, c2 = [], []
        ow.update(lambda m_: c1.append(m_.valid))
        h.run()
        ow.pins, ow.vid, ow.pid = rng.getrandbits(32), rng.randrange(256), rng.randrange(256)
        want_el = rng.choice([{1: b'Nm', 2: b'C'}, {2: b'Rev'}, {}, {3: bytes([0, 255])}])
        ow.elements = {names[k]: v_.decode('ISO-8859-1') for k, v_ in want_el.items()}
        want_id = (ow.pins, ow.vid, ow.pid)
        ow.write_data(lambda *a: None)
        h.run()
        nreads = len(h.reads)
        ow.update(lambda m_: c2.append(m_.valid))
        h.run()
        got_el = {rev[k]: v_.encode('ISO-8859-1') for k, v_ in ow.elements.items()}
        if not (c2 == [True] and got_el == want_el and (ow.pins, ow.vid, ow.pid) == want_id):
            key = 'ow-update-ignored' if (len(h.reads) == nreads and c1) else 'ow-rewrite-not-parsed'
            ctx.witness(key, '1-wire: update() on a %s image, then write_data() of a correct content, then update(): the written image is not reported valid' % nm,
                        {'first_memory': inv.hex(), 'written': {'pins': want_id[0], 'vid': want_id[1], 'pid': want_id[2], 'elements': {k: v_.hex() for k, v_ in want_el.items()}}},
                        got='first callback=%r second callback=%r reads issued by second update=%d elements=%r' % (c1, c2, len(h.reads) - nreads, got_el))
    # LocoMemory / LocoMemory2 / DeckMemoryManager: three reads in a row on ONE object, each must run and call its callback
    holder = {}
    for step in range(3):
        k_ = rng.choice([0, 1, 3])
        mem = bytearray(0x1000 + 0x100 * max(k_, 1))
        mem[0] = k_
        for i in range(k_):
            mem[0x1000 + 0x100 * i:0x1000 + 0x100 * i + 13] = anchor_bytes(rng)
        got = real_loco(bytes(mem), holder)
        if not got.startswith('ok n=%d ' % k_):
            ctx.witness('loco-update-ignored', 'LocoMemory.update() number %d on one object does not run / complete' % (step + 1), {'memory_head': bytes(mem[:4]).hex(), 'anchors': k_}, got=got[:200])
        mem = bytearray(0x2000 + 0x100 * 32)
        mem[0:17] = bytes([k_] + list(range(16)))
        mem[0x1000:0x1011] = bytes([2] + list(range(16)))
        for i in range(32):
            mem[0x2000 + 0x100 * i:0x2000 + 0x100 * i + 13] = anchor_bytes(rng)
        got = real_loco2(bytes(mem), holder)
        if not got.startswith('ok ids='):
            ctx.witness('loco2-update-ignored', 'LocoMemory2 update number %d on one object does not run / complete' % (step + 1), {'anchors': k_}, got=got[:200])
        ver = [2, 3, 3][step]
        got = real_deck_info(bytes([ver]) + b''.join(deck_record(rng, 'ascii') for _ in range(8)), holder)
        if not got.startswith('ok unsupported' if ver != 3 else 'ok decks'):
            ctx.witness('deck-query-ignored', 'DeckMemoryManager.query_decks() number %d on one object does not run / complete' % (step + 1), {'version': ver}, got=got[:200])

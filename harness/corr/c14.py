"""C14 - Stored configuration images round-trip and validity follows the checksum.

Tie A: token, struct formats + argument lists, read addresses/lengths, comparison texts, checksum modulus, bit
expressions and layout constants are re-extracted from cflib/crazyflie/mem/*.py and cflib/localization/*.py into Gen/C14.lean.
Tie B: the real memory-element classes, driven through a fake `mem_handler` backed by a bytearray, and the real YAML file
managers (real PyYAML, temp dir) vs the Lean model (Driver/C14.lean).
"""
import ast
import contextlib
import io
import os
import struct
import tempfile
from binascii import crc32

from harness.lib import extract as X
from harness.lib.common import ExtractError, bits_f32, exc_enum, f32bits, hexs

PID = 'C14'
LEAN_TARGETS = ['CfVerif.Props.C14']
PROPS_MODULES = ['CfVerif.Props.C14']
DRIVER = 'Driver/C14.lean'
REQUIRED_THEOREMS = []
TRUSTED = []
ASSUMPTIONS = []
RULE = ''


# ======================================================================================================
# Tie A
# ======================================================================================================
class _Subst(ast.NodeTransformer):
    """replace every sub-expression whose source text is a key of `env` by a Name, and `int(x)` by x"""

    def __init__(self, env):
        self.env = env

    def visit(self, node):
        if isinstance(node, ast.expr):
            s = ast.unparse(node)
            if s in self.env:
                return ast.Name(id=self.env[s], ctx=ast.Load())
            if isinstance(node, ast.Call) and ast.unparse(node.func) == 'int' and len(node.args) == 1 and not node.keywords:
                return self.visit(node.args[0])
        return self.generic_visit(node)


def to_lean(e, env):
    """X.expr_to_lean after substituting arbitrary sub-expressions (subscripts, attributes) by variables"""
    import copy
    names = {v: v for v in env.values()}
    e2 = _Subst(env).visit(copy.deepcopy(e))
    return X.expr_to_lean(e2, names)


def assigns(node):
    """{target text: value} of the single-target assignments under node (the LAST one in source order wins)"""
    al = sorted((n for n in ast.walk(node) if isinstance(n, ast.Assign) and len(n.targets) == 1), key=lambda n: (n.lineno, n.col_offset))
    return {ast.unparse(n.targets[0]): n.value for n in al}


def unpack_targets(node):
    """for every `<targets> = struct.unpack(...)` under node, in source order: the list of target texts"""
    res = []
    for n in sorted((m for m in ast.walk(node) if isinstance(m, ast.Assign)), key=lambda m: (m.lineno, m.col_offset)):
        v = n.value
        if isinstance(v, ast.Subscript):
            v = v.value
        if isinstance(v, ast.Call) and ast.unparse(v.func) == 'struct.unpack' and len(n.targets) == 1:
            t = n.targets[0]
            res.append([ast.unparse(e) for e in t.elts] if isinstance(t, (ast.Tuple, ast.List)) else [ast.unparse(t)])
    return res


def calls(node, fname):
    res = [n for n in ast.walk(node) if isinstance(n, ast.Call) and ast.unparse(n.func) == fname]
    return sorted(res, key=lambda n: (n.lineno, n.col_offset))


def call_args(node, fname):
    return [[ast.unparse(a) for a in c.args] for c in calls(node, fname)]


def one_struct(node, what, idx=None, n=None):
    sc = X.struct_calls(node)
    if n is not None:
        X.expect(len(sc) == n, '%s: expected %d struct calls, found %d' % (what, n, len(sc)))
    return sc if idx is None else sc[idx]


def emit_struct(g, name, sc):
    X.expect(sc['fmt'] is not None, 'struct format of %s is not a literal: %s' % (name, sc['fmt_src']))
    g.string(name + 'Fmt', sc['fmt'])
    g.strings(name + 'Args', sc['args'])


def int_args(lst, what):
    try:
        return [int(ast.literal_eval(a)) for a in lst]
    except Exception:
        raise ExtractError('%s: expected integer literals, got %s' % (what, lst))


def extract_i2c(g):
    tree = X.parse('cflib/crazyflie/mem/i2c_element.py')
    tok = None
    for n in tree.body:
        if isinstance(n, ast.Assign) and ast.unparse(n.targets[0]) == 'EEPROM_TOKEN':
            tok = ast.literal_eval(n.value)
    X.expect(isinstance(tok, bytes), 'EEPROM_TOKEN is not a bytes literal')
    g.nats('eepromToken', list(tok))
    cls = X.find(tree, 'I2CElement')
    nd = X.find(cls, 'new_data')
    sc = one_struct(nd, 'I2CElement.new_data', n=2)
    emit_struct(g, 'i2cHdr', sc[0])
    emit_struct(g, 'i2cAddr', sc[1])
    g.strings('i2cNewDataCompares', X.compares(nd))
    ut = unpack_targets(nd)
    X.expect(len(ut) == 2, 'I2CElement.new_data: expected two unpack assignments')
    g.strings('i2cHdrTargets', ut[0])
    g.strings('i2cAddrTargets', ut[1])
    rd = call_args(nd, 'self.mem_handler.read')
    X.expect(len(rd) == 1 and rd[0][0] == 'self', 'I2CElement.new_data: expected one mem_handler.read(self, a, n)')
    g.nats('i2cRead2', int_args(rd[0][1:], 'I2CElement.new_data read'))
    a = assigns(nd)
    X.expect("self.elements['radio_address']" in a, 'I2CElement.new_data: radio_address assignment not found')
    g.string('i2cAddrJoinSrc', ast.unparse(a["self.elements['radio_address']"]))
    g.raw('def i2cAddrJoin (u l : Nat) : Nat := ' + to_lean(a["self.elements['radio_address']"], {'radio_address_upper': 'u', 'radio_address_lower': 'l'}))
    X.expect('data' in a, 'I2CElement.new_data: `data = self.datav0 + data` not found')
    g.string('i2cFullDataSrc', ast.unparse(a['data']))
    up = X.find(cls, 'update')
    rd = call_args(up, 'self.mem_handler.read')
    X.expect(len(rd) == 1 and rd[0][0] == 'self', 'I2CElement.update: expected one mem_handler.read(self, a, n)')
    g.nats('i2cRead1', int_args(rd[0][1:], 'I2CElement.update read'))
    ck = X.find(cls, '_checksum256')
    rets = [n for n in ast.walk(ck) if isinstance(n, ast.Return)]
    X.expect(len(rets) == 1 and isinstance(rets[0].value, ast.BinOp) and isinstance(rets[0].value.op, ast.Mod),
             '_checksum256: expected `return <sum> % <modulus>`')
    g.string('i2cChecksumSumSrc', ast.unparse(rets[0].value.left))
    g.nat('i2cChecksumMod', int(ast.literal_eval(rets[0].value.right)))
    wd = X.find(cls, 'write_data')
    sc = one_struct(wd, 'I2CElement.write_data', n=4)
    emit_struct(g, 'i2cW0', sc[0])
    emit_struct(g, 'i2cW1', sc[1])
    emit_struct(g, 'i2cWck', sc[2])
    g.strings('i2cWriteCompares', X.compares(wd))
    tuples = [n for n in ast.walk(wd) if isinstance(n, ast.Assign) and ast.unparse(n.targets[0]) == 'data' and isinstance(n.value, ast.Tuple)]
    tuples.sort(key=lambda n: n.lineno)
    X.expect(len(tuples) == 2, 'I2CElement.write_data: expected two `data = (...)` tuples')
    g.strings('i2cW0Data', [ast.unparse(e) for e in tuples[0].value.elts])
    g.strings('i2cW1Data', [ast.unparse(e) for e in tuples[1].value.elts])
    X.expect(len(tuples[1].value.elts) == 7, 'I2CElement.write_data: v1 tuple should have 7 entries')
    env = {"self.elements['radio_address']": 'a'}
    g.raw('def i2cAddrHi (a : Nat) : Nat := ' + to_lean(tuples[1].value.elts[5], env))
    g.raw('def i2cAddrLo (a : Nat) : Nat := ' + to_lean(tuples[1].value.elts[6], env))
    a = assigns(wd)
    g.string('i2cImageSrc', ast.unparse(a['image']))     # last assignment: image = EEPROM_TOKEN + image
    aug = [ast.unparse(n) for n in ast.walk(wd) if isinstance(n, ast.AugAssign)]
    g.strings('i2cImageAug', sorted(aug))
    wr = call_args(wd, 'self.mem_handler.write')
    X.expect(len(wr) == 1, 'I2CElement.write_data: expected one mem_handler.write')
    g.strings('i2cWriteCall', wr[0])


def extract(ctx):
    g = X.GenFile(PID, ['cflib/crazyflie/mem/i2c_element.py'])
    extract_i2c(g)
    return {'C14.lean': g.render()}


# ======================================================================================================
# the real code behind a fake memory handler
# ======================================================================================================
def _quiet():
    import logging
    logging.disable(logging.CRITICAL)


class FakeMemHandler:
    """`mem_handler` of a memory element: a byte array; requests are queued and served after the caller returned
    (as the real `Memory` does: replies arrive later, on another thread), one at a time, in order."""

    def __init__(self, mem=b''):
        self.mem = bytearray(mem)
        self.q = []
        self.writes = []
        self.reads = []

    def read(self, memory, addr, length):
        self.q.append(('r', memory, addr, length))
        self.reads.append((addr, length))
        return True

    def write(self, memory, addr, data, flush_queue=False, progress_cb=None):
        data = bytes(bytearray(data))
        self.q.append(('w', memory, addr, data))
        self.writes.append((addr, data))
        return True

    def run(self, new_data='new_data', write_done='write_done', limit=10000):
        n = 0
        while self.q:
            n += 1
            if n > limit:
                raise RuntimeError('fake memory handler: request limit exceeded')
            op = self.q.pop(0)
            if op[0] == 'r':
                _, m, a, ln = op
                getattr(m, new_data)(m, a, bytearray(self.mem[a:a + ln]))
            else:
                _, m, a, d = op
                if len(self.mem) < a:
                    self.mem += bytes(a - len(self.mem))
                self.mem[a:a + len(d)] = d
                getattr(m, write_done)(m, a)


def qnan32(b):
    """float32 bit pattern with signalling NaNs quieted (CPython's float<->double conversion does this)"""
    if (b & 0x7F800000) == 0x7F800000 and (b & 0x007FFFFF):
        return b | 0x00400000
    return b


# ---- EEPROM ---------------------------------------------------------------------------------------------
def real_i2c_write(v, ch, sp, p, r, addr):
    _quiet()
    from cflib.crazyflie.mem.i2c_element import I2CElement
    h = FakeMemHandler()
    el = I2CElement(0, 0, 0x2000, h)
    el.elements = {'version': v, 'radio_channel': ch, 'radio_speed': sp, 'pitch_trim': bits_f32(p), 'roll_trim': bits_f32(r)}
    if addr is not None:
        el.elements['radio_address'] = addr
    try:
        el.write_data(lambda *a: None)
    except Exception as e:
        return 'err ' + exc_enum(e)
    if len(h.writes) != 1 or h.writes[0][0] != 0:
        return 'other writes=%r' % (h.writes,)
    return 'ok ' + hexs(h.writes[0][1])


def real_i2c_parse(mem):
    _quiet()
    from cflib.crazyflie.mem.i2c_element import I2CElement
    h = FakeMemHandler(mem)
    el = I2CElement(0, 0, 0x2000, h)
    called = []
    try:
        el.update(lambda m: called.append(m.valid))
        h.run()
    except Exception as e:
        return 'err ' + exc_enum(e)
    d = el.elements
    if 'version' in d:
        f = '%d,%d,%d,%d,%d' % (d['version'], d['radio_channel'], d['radio_speed'], f32bits(d['pitch_trim']), f32bits(d['roll_trim']))
    else:
        f = '-'
    a = str(d['radio_address']) if 'radio_address' in d else '-'
    return 'ok f=%s a=%s v=%d c=%d' % (f, a, 1 if el.valid else 0, len(called))


F32_EDGE = [0, 0x80000000, 1, 0x007FFFFF, 0x00800000, 0x3F800000, 0xBF800000, 0x7F7FFFFF, 0xFF7FFFFF, 0x7F800000, 0xFF800000,
            0x7FC00000, 0xFFC00001, 0x40490FDB, 0x3DCCCCCD]


def rnd_f32(rng):
    k = rng.random()
    if k < 0.35:
        return rng.choice(F32_EDGE)
    b = rng.getrandbits(32)
    return qnan32(b)


def canon_i2c_parse(s):
    """quiet NaNs in the model's trims (the real side went through a double)"""
    if not s.startswith('ok f=') or s.startswith('ok f=-'):
        return s
    head, rest = s[5:].split(' ', 1)
    v = head.split(',')
    v[3] = str(qnan32(int(v[3])))
    v[4] = str(qnan32(int(v[4])))
    return 'ok f=' + ','.join(v) + ' ' + rest


def gen_i2c(ctx, cases):
    rng = ctx.rng
    thorough = ctx.tier == 'thorough'
    images = []
    # write side: versions, boundary channels/speeds, addresses around every limit
    chans = [0, 1, 80, 125, 255, 256, -1, 1000]
    addrs = [0, 1, 0xE7E7E7E7E7, 0xFFFFFFFF, 0x100000000, 0xFFFFFFFFFF, 0x10000000000, -1, -(1 << 33), None]
    for _ in range(1500 if thorough else 300):
        v = rng.choice([0, 0, 1, 1, 1, 2, 3, -1, 255])
        ch = rng.choice(chans) if rng.random() < 0.4 else rng.randrange(256)
        sp = rng.choice([0, 1, 2, 3, 255, 256, -1]) if rng.random() < 0.5 else rng.randrange(256)
        p, r = rnd_f32(rng), rnd_f32(rng)
        a = rng.choice(addrs) if rng.random() < 0.5 else rng.getrandbits(40)
        line = 'i2c_write %d %d %d %d %d %s' % (v, ch, sp, p, r, 'none' if a is None else a)
        cases.append(('i2c_write', line, (lambda v=v, ch=ch, sp=sp, p=p, r=r, a=a: real_i2c_write(v, ch, sp, p, r, a)), None,
                      {'op': 'i2c_write', 'version': v, 'channel': ch, 'speed': sp, 'pitch': p, 'roll': r, 'address': a},
                      ('i2c_write', v, ch, sp, p, r, a)))
        if v in (0, 1) and 0 <= ch < 256 and 0 <= sp < 256 and (v == 0 or (a is not None and 0 <= a < (1 << 40))):
            tok = bytes([0x30, 0x78, 0x42, 0x43])
            body = struct.pack('<BBBff', v, ch, sp, bits_f32(p), bits_f32(r))
            if v == 1:
                body += struct.pack('<BI', a >> 32, a & 0xFFFFFFFF)
            im = tok + body
            images.append(im + bytes([sum(im) % 256]))
    # parse side: written images inside a larger EEPROM, every single-byte corruption of some, random memories
    def add_parse(mem, why):
        line = 'i2c_parse ' + hexs(mem)
        cases.append(('i2c_parse', line, (lambda m=mem: real_i2c_parse(m)), canon_i2c_parse,
                      {'op': 'i2c_parse', 'why': why, 'mem': bytes(mem).hex()}, ('i2c_parse', bytes(mem))))
    for k, im in enumerate(images):
        tail = bytes(rng.randrange(256) for _ in range(rng.choice([5, 6, 16, 40])))
        mem = im + tail[:max(0, 21 - len(im))] + tail
        add_parse(mem, 'written')
        if k < (40 if thorough else 8):
            for i in range(len(im)):
                for nb in ({0, 1, 2, 0xFF, mem[i] ^ 1, mem[i] ^ 0x80, (mem[i] + 1) % 256} | ({rng.randrange(256)} if not thorough else set(range(256)))) - {mem[i]}:
                    m2 = bytearray(mem)
                    m2[i] = nb
                    add_parse(bytes(m2), 'corrupt@%d' % i)
    for _ in range(400 if thorough else 100):
        n = rng.choice([0, 1, 3, 4, 5, 14, 15, 16, 17, 19, 20, 21, 22, 30])
        mem = bytearray(rng.randrange(256) for _ in range(n))
        if rng.random() < 0.8:
            mem[0:4] = bytes([0x30, 0x78, 0x42, 0x43])[:max(0, min(4, n))]
        if n > 4 and rng.random() < 0.8:
            mem[4] = rng.choice([0, 1, 1, 2])
        if n > 15 and rng.random() < 0.5:      # make the checksum right for the version it claims
            if mem[4] == 0:
                mem[15] = sum(mem[:15]) % 256
            elif n > 20:
                mem[20] = sum(mem[:20]) % 256
        add_parse(bytes(mem), 'random')


GENERATORS = [gen_i2c]


def correspond(ctx):
    cases = []
    for g in GENERATORS:
        g(ctx, cases)
    replies = ctx.lean(DRIVER, [c[1] for c in cases])
    for (kind, line, thunk, canon, desc, key), model in zip(cases, replies):
        real = thunk()
        if canon is not None:
            model = canon(model)
            real = canon(real)
        ctx.count('op:' + kind)
        w = real.split(' ')
        ctx.count('result:' + kind + ':' + w[0] + (':' + w[1] if w[0] == 'err' and len(w) > 1 else ''))
        if kind.endswith('_parse') and real.startswith('ok'):
            ctx.count('parse:' + kind + ':' + ' '.join(x for x in w if x.startswith(('v=', 'c='))))
        ctx.case(desc, key)
        if real != model:
            ctx.disagree(kind, line[:400], model[:400], real[:400])


# ======================================================================================================
# failing-input search: the property itself on the real code
# ======================================================================================================
def search(ctx):
    rng = ctx.rng
    n = 300 if ctx.tier == 'quick' else 3000
    # EEPROM: round trip for every representable content, validity, single corrupted byte
    for t in range(n):
        v = rng.choice([0, 1])
        ch, sp = rng.randrange(256), rng.randrange(256)
        p, r = rnd_f32(rng), rnd_f32(rng)
        a = rng.choice([0, 0xE7E7E7E7E7, (1 << 40) - 1, rng.getrandbits(40)])
        w = real_i2c_write(v, ch, sp, p, r, a)
        inp = {'version': v, 'channel': ch, 'speed': sp, 'pitch': p, 'roll': r, 'address': a}
        if not w.startswith('ok '):
            ctx.witness('i2c-write-rejected', 'representable EEPROM content cannot be written', inp, got=w)
            continue
        im = bytes.fromhex(w[3:])
        old = bytes(rng.randrange(256) for _ in range(32))
        mem = im + old[len(im):]
        want = 'ok f=%d,%d,%d,%d,%d a=%s v=1 c=1' % (v, ch, sp, p, r, a if v == 1 else '-')
        got = real_i2c_parse(mem)
        if got != want:
            ctx.witness('i2c-roundtrip', 'EEPROM image does not parse back to the written content', inp, got=got, want=want)

"""C14 - Stored configuration images round-trip and validity follows the checksum.

Tie A: token, struct formats + argument lists, read addresses/lengths, comparison texts, checksum modulus, bit
expressions and layout constants are re-extracted from cflib/crazyflie/mem/*.py and cflib/localization/*.py into Gen/C14.lean.
Tie B: the real memory-element classes, driven through a fake `mem_handler` backed by a bytearray, and the real YAML file
managers (real PyYAML, temp dir) vs the Lean model (Driver/C14.lean).
"""
import ast
import contextlib
import io
import os
import struct
import tempfile
from binascii import crc32

from harness.lib import extract as X
from harness.lib.common import ExtractError, bits_f32, exc_enum, f32bits, hexs

PID = 'C14'
LEAN_TARGETS = ['CfVerif.Props.C14']
PROPS_MODULES = ['CfVerif.Props.C14']
DRIVER = 'Driver/C14.lean'
REQUIRED_THEOREMS = []
TRUSTED = []
ASSUMPTIONS = []
RULE = ''


# ======================================================================================================
# Tie A
# ======================================================================================================
class _Subst(ast.NodeTransformer):
    """replace every sub-expression whose source text is a key of `env` by a Name, and `int(x)` by x"""

    def __init__(self, env):
        self.env = env

    def visit(self, node):
        if isinstance(node, ast.expr):
            s = ast.unparse(node)
            if s in self.env:
                return ast.Name(id=self.env[s], ctx=ast.Load())
            if isinstance(node, ast.Call) and ast.unparse(node.func) == 'int' and len(node.args) == 1 and not node.keywords:
                return self.visit(node.args[0])
        return self.generic_visit(node)


def to_lean(e, env):
    """X.expr_to_lean after substituting arbitrary sub-expressions (subscripts, attributes) by variables"""
    import copy
    names = {v: v for v in env.values()}
    e2 = _Subst(env).visit(copy.deepcopy(e))
    return X.expr_to_lean(e2, names)


def assigns(node):
    """{target text: value} of the single-target assignments under node (the LAST one in source order wins)"""
    al = sorted((n for n in ast.walk(node) if isinstance(n, ast.Assign) and len(n.targets) == 1), key=lambda n: (n.lineno, n.col_offset))
    return {ast.unparse(n.targets[0]): n.value for n in al}


def unpack_targets(node):
    """for every `<targets> = struct.unpack(...)` under node, in source order: the list of target texts"""
    res = []
    for n in sorted((m for m in ast.walk(node) if isinstance(m, ast.Assign)), key=lambda m: (m.lineno, m.col_offset)):
        v = n.value
        if isinstance(v, ast.Subscript):
            v = v.value
        if isinstance(v, ast.Call) and ast.unparse(v.func) == 'struct.unpack' and len(n.targets) == 1:
            t = n.targets[0]
            res.append([ast.unparse(e) for e in t.elts] if isinstance(t, (ast.Tuple, ast.List)) else [ast.unparse(t)])
    return res


def calls(node, fname):
    res = [n for n in ast.walk(node) if isinstance(n, ast.Call) and ast.unparse(n.func) == fname]
    return sorted(res, key=lambda n: (n.lineno, n.col_offset))


def call_args(node, fname):
    return [[ast.unparse(a) for a in c.args] for c in calls(node, fname)]


def one_struct(node, what, idx=None, n=None):
    sc = X.struct_calls(node)
    if n is not None:
        X.expect(len(sc) == n, '%s: expected %d struct calls, found %d' % (what, n, len(sc)))
    return sc if idx is None else sc[idx]


def emit_struct(g, name, sc):
    X.expect(sc['fmt'] is not None, 'struct format of %s is not a literal: %s' % (name, sc['fmt_src']))
    g.string(name + 'Fmt', sc['fmt'])
    g.strings(name + 'Args', sc['args'])


def int_args(lst, what):
    try:
        return [int(ast.literal_eval(a)) for a in lst]
    except Exception:
        raise ExtractError('%s: expected integer literals, got %s' % (what, lst))


def extract_i2c(g):
    tree = X.parse('cflib/crazyflie/mem/i2c_element.py')
    tok = None
    for n in tree.body:
        if isinstance(n, ast.Assign) and ast.unparse(n.targets[0]) == 'EEPROM_TOKEN':
            tok = ast.literal_eval(n.value)
    X.expect(isinstance(tok, bytes), 'EEPROM_TOKEN is not a bytes literal')
    g.nats('eepromToken', list(tok))
    cls = X.find(tree, 'I2CElement')
    nd = X.find(cls, 'new_data')
    sc = one_struct(nd, 'I2CElement.new_data', n=2)
    emit_struct(g, 'i2cHdr', sc[0])
    emit_struct(g, 'i2cAddr', sc[1])
    g.strings('i2cNewDataCompares', X.compares(nd))
    ut = unpack_targets(nd)
    X.expect(len(ut) == 2, 'I2CElement.new_data: expected two unpack assignments')
    g.strings('i2cHdrTargets', ut[0])
    g.strings('i2cAddrTargets', ut[1])
    rd = call_args(nd, 'self.mem_handler.read')
    X.expect(len(rd) == 1 and rd[0][0] == 'self', 'I2CElement.new_data: expected one mem_handler.read(self, a, n)')
    g.nats('i2cRead2', int_args(rd[0][1:], 'I2CElement.new_data read'))
    a = assigns(nd)
    X.expect("self.elements['radio_address']" in a, 'I2CElement.new_data: radio_address assignment not found')
    g.string('i2cAddrJoinSrc', ast.unparse(a["self.elements['radio_address']"]))
    g.raw('def i2cAddrJoin (u l : Nat) : Nat := ' + to_lean(a["self.elements['radio_address']"], {'radio_address_upper': 'u', 'radio_address_lower': 'l'}))
    X.expect('data' in a, 'I2CElement.new_data: `data = self.datav0 + data` not found')
    g.string('i2cFullDataSrc', ast.unparse(a['data']))
    up = X.find(cls, 'update')
    rd = call_args(up, 'self.mem_handler.read')
    X.expect(len(rd) == 1 and rd[0][0] == 'self', 'I2CElement.update: expected one mem_handler.read(self, a, n)')
    g.nats('i2cRead1', int_args(rd[0][1:], 'I2CElement.update read'))
    ck = X.find(cls, '_checksum256')
    rets = [n for n in ast.walk(ck) if isinstance(n, ast.Return)]
    X.expect(len(rets) == 1 and isinstance(rets[0].value, ast.BinOp) and isinstance(rets[0].value.op, ast.Mod),
             '_checksum256: expected `return <sum> % <modulus>`')
    g.string('i2cChecksumSumSrc', ast.unparse(rets[0].value.left))
    g.nat('i2cChecksumMod', int(ast.literal_eval(rets[0].value.right)))
    wd = X.find(cls, 'write_data')
    sc = one_struct(wd, 'I2CElement.write_data', n=4)
    emit_struct(g, 'i2cW0', sc[0])
    emit_struct(g, 'i2cW1', sc[1])
    emit_struct(g, 'i2cWck', sc[2])
    g.strings('i2cWriteCompares', X.compares(wd))
    tuples = [n for n in ast.walk(wd) if isinstance(n, ast.Assign) and ast.unparse(n.targets[0]) == 'data' and isinstance(n.value, ast.Tuple)]
    tuples.sort(key=lambda n: n.lineno)
    X.expect(len(tuples) == 2, 'I2CElement.write_data: expected two `data = (...)` tuples')
    g.strings('i2cW0Data', [ast.unparse(e) for e in tuples[0].value.elts])
    g.strings('i2cW1Data', [ast.unparse(e) for e in tuples[1].value.elts])
    X.expect(len(tuples[1].value.elts) == 7, 'I2CElement.write_data: v1 tuple should have 7 entries')
    env = {"self.elements['radio_address']": 'a'}
    g.raw('def i2cAddrHi (a : Nat) : Nat := ' + to_lean(tuples[1].value.elts[5], env))
    g.raw('def i2cAddrLo (a : Nat) : Nat := ' + to_lean(tuples[1].value.elts[6], env))
    a = assigns(wd)
    g.string('i2cImageSrc', ast.unparse(a['image']))     # last assignment: image = EEPROM_TOKEN + image
    aug = [ast.unparse(n) for n in ast.walk(wd) if isinstance(n, ast.AugAssign)]
    g.strings('i2cImageAug', sorted(aug))
    wr = call_args(wd, 'self.mem_handler.write')
    X.expect(len(wr) == 1, 'I2CElement.write_data: expected one mem_handler.write')
    g.strings('i2cWriteCall', wr[0])


def extract(ctx):
    g = X.GenFile(PID, ['cflib/crazyflie/mem/i2c_element.py'])
    extract_i2c(g)
    return {'C14.lean': g.render()}

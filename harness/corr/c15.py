"""C15 - Lighthouse angle, vector and pose conversions are mutually consistent.

Tie A: the float expressions of LighthouseBsVector (V1<->V2 with the tilt T, cart, projection, from_*), the
numpy expressions of Pose (rotate/translate, composition, inverses), of the solver's Rodrigues rotation
(`_rotate_translate`, incl. the nan_to_num handling of a zero rotation vector) and of IppeCf's axis permutation
are TRANSLATED from the working tree into Lean definitions in Gen/C15.lean (generic over the number type, see
Spec/C15.lean).  The model (Model/C15.lean) is assembled from these definitions, so the theorems are about the
expressions the source contains now; a few statement-order / argument texts are pinned as strings.
Tie B: the model instantiated with Lean `Float` (Driver/C15.lean) vs the real code (math / numpy / scipy) on a
dense grid of the field of view, rotations incl. identity, half turns, tiny angles, random pose triples.
"""
import ast
import math

from harness.lib import extract as X
from harness.lib.common import ExtractError, exc_enum, f64bits, bits_f64

PID = 'C15'
LEAN_TARGETS = ['CfVerif.Props.C15']
PROPS_MODULES = ['CfVerif.Props.C15']
DRIVER = 'Driver/C15.lean'
REQUIRED_THEOREMS = ['CfVerif.C15.' + n for n in (
    'v1_of_v2_of_v1',
    'v2_of_v1_of_v2',
    'v2_of_v1_of_v2_fov',
    'v2_domain_error',
    'cart_unit',
    'cart_of_from_cart',
    'from_cart_of_cart',
    'proj_of_from_proj',
    'from_proj_of_proj',
    'proj_eq_cart_scaled',
    'inv_rotate_translate_of_rotate_translate',
    'rotate_translate_of_inv_rotate_translate',
    'inv_pose_of_pose',
    'compose_assoc',
    'compose_eq_sequential',
    'identity_laws',
    'rigid_closed',
    'rigid_preserves_distance',
    'from_rot_vec_rigid',
    'views_quat_rigid_partial', 'views_quat_sign_partial', 'views_rotvec_quat_agree_partial', 'axis_zero_when_theta_zero', 'live_axis_counterexample', 'rodrigues_zero',
    'rodrigues_eq_pose',
    'rodrigues_neg_eq_transpose',
    'solver_projection_eq_types', 'angle_behind_base_station', 'heap_invariant', 'pose_value_independent', 'caller_arrays_untouched', 'pose_arrays_never_written', 'heap_refines_values', 'aliasing_counterexample', 'gen_pose_copy_discipline',
    'ippe_axes',
    'ippe_image_consistent',
    'ippe_rotation_consistent',
    'atan2_is_the_angle', 'from_cart_normalises', 'scale_state', 'inv_after_scale', 'gen_angle_list', 'gen_pose_init', 'gen_tilt',
    'gen_rodrigues_order',
    'gen_calc_angle_pairs')]
TRUSTED = ['harness/corr/c15.py expression translator (Python float / numpy expression -> Lean term) + correspondence',
           'Spec/C15.lean: meaning of Python float ops (ZeroDivisionError, math domain errors), numpy division + nan_to_num, 3-vectors/3x3 matrices',
           'Proofs/C15Real.lean: the real-number instance (Mathlib Real.sin/cos/tan/arctan/arcsin/sqrt, atan2 by the usual case split)',
           'binary64/binary32 arithmetic approximates real arithmetic (theorems are over the reals; float32 accuracy is validated by sampling only)',
           'scipy Rotation.from_rotvec/from_quat(...).as_matrix() compute the Rodrigues / unit-quaternion matrix (specified in the model, validated by sampling)']
ASSUMPTIONS = ['theorems are over the real numbers; rounding (binary64, and binary32 in cart/projection) is outside the theorems',
               'scipy Rotation.from_matrix(...).as_rotvec()/as_quat() (matrix -> vector/quaternion views) are validated by sampling only']
RULE = ('cases = dense grid + random directions of the field of view (|h|<80deg, |v|<55deg) and beyond it (domain errors), V2 angle pairs, '
        'cartesian vectors/projection points, poses with rotations from {identity, half turns about axes/diagonals, tiny angles down to 1e-300, '
        'random}, pose pairs/triples, solver projection inputs incl. zero rotation vectors; non-trivial = distinct (op, rounded input)')

SRC_BSV = 'cflib/localization/lighthouse_bs_vector.py'
SRC_TYPES = 'cflib/localization/lighthouse_types.py'
SRC_SOLVER = 'cflib/localization/lighthouse_geometry_solver.py'
SRC_IPPE = 'cflib/localization/ippe_cf.py'


# ---- Python float / numpy expression -> Lean term ------------------------------------------------------------
class FX:
    """Translate a Python expression over floats (math.*) and small numpy arrays into a Lean term over the
    operations of Spec/C15.lean.  Types: 'S' scalar, 'V' 3-vector, 'M' 3x3 matrix.  Partial Python operations
    (`/` by a non-literal, math.sqrt, math.asin) become monadic binds in evaluation order."""
    MATH1 = {'sin': 'sin', 'cos': 'cos', 'tan': 'tan', 'atan': 'atan'}

    def __init__(self, env):
        self.env = env          # source text -> (lean term, type)
        self.stmts = []
        self.n = 0

    def bind(self, rhs):
        self.n += 1
        name = 't%d' % self.n
        self.stmts.append('let %s ← %s' % (name, rhs))
        return name

    def lit(self, n):
        if isinstance(n, ast.Constant) and isinstance(n.value, (int, float)) and not isinstance(n.value, bool):
            v = n.value
            if v == int(v) and 0 <= v < 10 ** 9:
                return int(v)
        return None

    def go(self, e):
        txt = ast.unparse(e)
        if txt in self.env:
            return self.env[txt]
        k = self.lit(e)
        if k is not None:
            return '(nat %d)' % k, 'S'
        if isinstance(e, ast.Constant):
            raise ExtractError('untranslatable constant %s' % txt)
        if txt == 'math.pi':
            return 'pi', 'S'
        if isinstance(e, ast.UnaryOp) and isinstance(e.op, ast.USub):
            a, t = self.go(e.operand)
            if t == 'S':
                return '(-%s)' % a, 'S'
            if t == 'V':
                return '(V3.neg %s)' % a, 'V'
            self.fail(e)
        if isinstance(e, ast.BinOp):
            return self.binop(e)
        if isinstance(e, ast.Subscript) and ast.unparse(e.slice) in (':, np.newaxis', '(:, np.newaxis)'):
            return self.go(e.value)      # (n,) -> (n,1) column: still one scalar per row
        if isinstance(e, ast.Call):
            return self.call(e)
        self.fail(e)

    def fail(self, e):
        raise ExtractError('untranslatable expression %s' % ast.unparse(e))

    def binop(self, e):
        op = type(e.op)
        if op is ast.Pow:
            a, t = self.go(e.left)
            k = self.lit(e.right)
            if t != 'S' or k is None or not isinstance(e.right.value, int):
                self.fail(e)
            return '(pow %s %d)' % (a, k), 'S'
        a, ta = self.go(e.left)
        if op is ast.Div:
            k = self.lit(e.right)
            if ta == 'S' and k is not None and k != 0:
                return '(%s / (nat %d))' % (a, k), 'S'       # division by a non-zero literal cannot raise
            b, tb = self.go(e.right)
            if ta == 'S' and tb == 'S':
                return self.bind('divE %s %s' % (a, b)), 'S'
            self.fail(e)
        b, tb = self.go(e.right)
        sym = {ast.Add: '+', ast.Sub: '-', ast.Mult: '*'}.get(op)
        if sym is None:
            self.fail(e)
        if (ta, tb) == ('S', 'S'):
            return '(%s %s %s)' % (a, sym, b), 'S'
        if (ta, tb) == ('V', 'V'):
            return '(V3.%s %s %s)' % ({'+': 'add', '-': 'sub', '*': 'mul'}[sym], a, b), 'V'
        if sym == '*' and (ta, tb) == ('S', 'V'):
            return '(V3.smul %s %s)' % (a, b), 'V'
        if sym == '*' and (ta, tb) == ('V', 'S'):
            return '(V3.smul %s %s)' % (b, a), 'V'
        self.fail(e)

    def kw(self, e, allowed):
        got = {k.arg: ast.unparse(k.value) for k in e.keywords}
        if got != allowed:
            self.fail(e)

    def call(self, e):
        f = ast.unparse(e.func)
        args = e.args
        if f.startswith('math.') and f[5:] in self.MATH1 and len(args) == 1 and not e.keywords:
            a, t = self.go(args[0])
            if t != 'S':
                self.fail(e)
            return '(%s %s)' % (self.MATH1[f[5:]], a), 'S'
        if f in ('math.asin', 'math.sqrt') and len(args) == 1 and not e.keywords:
            a, t = self.go(args[0])
            if t != 'S':
                self.fail(e)
            return self.bind('%sE %s' % (f[5:], a)), 'S'
        if f == 'math.atan2' and len(args) == 2 and not e.keywords:
            (a, ta), (b, tb) = self.go(args[0]), self.go(args[1])
            if (ta, tb) != ('S', 'S'):
                self.fail(e)
            return '(atan2 %s %s)' % (a, b), 'S'
        if f in ('np.cos', 'np.sin') and len(args) == 1 and not e.keywords:
            a, t = self.go(args[0])
            if t != 'S':
                self.fail(e)
            return '(%s %s)' % (f[3:], a), 'S'
        if f == 'np.sum' and len(args) == 1:
            self.kw(e, {'axis': '1'})
            a, t = self.go(args[0])
            if t != 'V':
                self.fail(e)
            return '(V3.sum %s)' % a, 'S'
        if f == 'np.linalg.norm' and len(args) == 1:
            self.kw(e, {'axis': '1'})
            a, t = self.go(args[0])
            if t != 'V':
                self.fail(e)
            return '(V3.norm %s)' % a, 'S'
        if f == 'np.cross' and len(args) == 2 and not e.keywords:
            (a, ta), (b, tb) = self.go(args[0]), self.go(args[1])
            if (ta, tb) != ('V', 'V'):
                self.fail(e)
            return '(V3.cross %s %s)' % (a, b), 'V'
        if f == 'np.dot' and len(args) == 2 and not e.keywords:
            (a, ta), (b, tb) = self.go(args[0]), self.go(args[1])
            if (ta, tb) == ('M', 'V'):
                return '(M3.mulVec %s %s)' % (a, b), 'V'
            if (ta, tb) == ('M', 'M'):
                return '(M3.mul %s %s)' % (a, b), 'M'
            self.fail(e)
        if f == 'np.transpose' and len(args) == 1 and not e.keywords:
            a, t = self.go(args[0])
            if t != 'M':
                self.fail(e)
            return '(M3.transpose %s)' % a, 'M'
        self.fail(e)


LTYPE = {'S': 'α', 'V': 'V3 α', 'M': 'M3 α'}


def lean_def(name, params, expr, env_extra=None, want=None, doc=None):
    """params: [(python source text, lean name, type)]; returns Lean `def` text for the translated expression"""
    env = {src: (ln, t) for src, ln, t in params}
    env.update(env_extra or {})
    fx = FX(env)
    term, t = fx.go(expr)
    if want is not None and t != want:
        raise ExtractError('%s: expected a %s-typed expression, got %s: %s' % (name, want, t, ast.unparse(expr)))
    ps = ' '.join('(%s : %s)' % (ln, LTYPE[ty]) for _, ln, ty in params)
    head = '/-- `%s` -/\n' % (doc or ast.unparse(expr)).replace('-/', '- /')
    if fx.stmts:
        body = 'do\n  ' + '\n  '.join(fx.stmts) + '\n  pure ' + term
        return head + 'def %s %s : Except PyErr (%s) := %s' % (name, ps, LTYPE[t], body)
    return head + 'def %s %s : %s := %s' % (name, ps, LTYPE[t], term)


def assigns_of(fn):
    """[(target text, value node)] for simple assignments in source order (any nesting)"""
    res = [(n.lineno, n.col_offset, ast.unparse(n.targets[0]), n.value) for n in ast.walk(fn)
           if isinstance(n, ast.Assign) and len(n.targets) == 1]
    return [(t, v) for _, _, t, v in sorted(res, key=lambda r: (r[0], r[1]))]


def the_return(fn):
    rets = [n for n in ast.walk(fn) if isinstance(n, ast.Return)]
    X.expect(len(rets) == 1 and rets[0].value is not None, '%s: expected exactly one return with a value' % fn.name)
    return rets[0].value


def arg_names(fn):
    return [a.arg for a in fn.args.args]


def extract(ctx):
    g = X.GenFile(PID, [SRC_BSV, SRC_TYPES, SRC_SOLVER, SRC_IPPE])
    assert g.lines[2].startswith('namespace '), 'GenFile header layout changed'
    g.lines.insert(2, 'import CfVerif.Spec.C15')
    g.raw('open CfVerif CfVerif.C15 CfVerif.C15.RealOps')
    g.raw('set_option linter.unusedVariables false')
    g.raw('section')
    g.raw('variable {α : Type} [Add α] [Sub α] [Mul α] [Div α] [Neg α] [RealOps α]')
    g.raw('')

    # ---- LighthouseBsVector -------------------------------------------------------------------------------
    bsv = X.find(X.parse(SRC_BSV), 'LighthouseBsVector')
    tas = [n for n in bsv.body if isinstance(n, ast.Assign) and ast.unparse(n.targets[0]) == 'T']
    X.expect(len(tas) == 1, 'LighthouseBsVector.T not found')
    g.raw(lean_def('tilt', [], tas[0].value, want='S', doc='LighthouseBsVector.T = ' + ast.unparse(tas[0].value)))
    init = X.find(bsv, '__init__')
    g.strings('initArgs', arg_names(init))
    g.strings('initAssigns', ['%s = %s' % (t, ast.unparse(v)) for t, v in assigns_of(init)])
    for prop in ('lh_v1_horiz_angle', 'lh_v1_vert_angle', 'lh_v1_angle_pair'):
        g.string('prop_' + prop, ast.unparse(the_return(X.find(bsv, prop))))
    hv = [('self._lh_v1_horiz_angle', 'h', 'S'), ('self._lh_v1_vert_angle', 'v', 'S')]
    g.raw(lean_def('qExpr', hv, the_return(X.find(bsv, '_q')), want='S'))
    hqT = [('self._lh_v1_horiz_angle', 'h', 'S'), ('self._q()', 'q', 'S'), ('self.T', 'T', 'S')]
    g.raw(lean_def('v2Angle1Expr', hqT, the_return(X.find(bsv, 'lh_v2_angle_1')), want='S'))
    g.raw(lean_def('v2Angle2Expr', hqT, the_return(X.find(bsv, 'lh_v2_angle_2')), want='S'))
    # from_lh2
    f = X.find(bsv, 'from_lh2')
    asg = dict(assigns_of(f))
    X.expect(arg_names(f) == ['cls', 'lh_v2_angle_1', 'lh_v2_angle_2'], 'from_lh2: argument list changed')
    X.expect(ast.unparse(asg.get('a1', ast.Constant(0))) == 'lh_v2_angle_1' and ast.unparse(asg.get('a2', ast.Constant(0))) == 'lh_v2_angle_2',
             'from_lh2: a1/a2 are no longer the two arguments')
    a12T = [('a1', 'a1', 'S'), ('a2', 'a2', 'S'), ('cls.T', 'T', 'S')]
    X.expect('lh_v1_horiz_angle' in asg and 'lh_v1_vert_angle' in asg, 'from_lh2: angle assignments not found')
    g.raw(lean_def('fromLh2Horiz', a12T[:2], asg['lh_v1_horiz_angle'], want='S'))
    g.raw(lean_def('fromLh2Vert', a12T, asg['lh_v1_vert_angle'], want='S'))
    g.string('fromLh2Return', ast.unparse(the_return(f)))
    # from_cart
    f = X.find(bsv, 'from_cart')
    asg = dict(assigns_of(f))
    X.expect(arg_names(f) == ['cls', 'cart_vector'], 'from_cart: argument list changed')
    cv = [('cart_vector[0]', 'c.x', 'S'), ('cart_vector[1]', 'c.y', 'S'), ('cart_vector[2]', 'c.z', 'S')]
    cvp = [('c', 'c', 'V')]
    env = {s: (ln, t) for s, ln, t in cv}
    X.expect('lh_v1_horiz_angle' in asg and 'lh_v1_vert_angle' in asg, 'from_cart: angle assignments not found')
    g.raw(lean_def('fromCartHoriz', cvp, asg['lh_v1_horiz_angle'], env, want='S'))
    g.raw(lean_def('fromCartVert', cvp, asg['lh_v1_vert_angle'], env, want='S'))
    g.string('fromCartReturn', ast.unparse(the_return(f)))
    # from_projection
    f = X.find(bsv, 'from_projection')
    asg = dict(assigns_of(f))
    X.expect(arg_names(f) == ['cls', 'proj_point'], 'from_projection: argument list changed')
    pp = [('proj_point[0]', 'p0', 'S'), ('proj_point[1]', 'p1', 'S')]
    X.expect('lh_v1_horiz_angle' in asg and 'lh_v1_vert_angle' in asg, 'from_projection: angle assignments not found')
    g.raw(lean_def('fromProjHoriz', pp, asg['lh_v1_horiz_angle'], want='S'))
    g.raw(lean_def('fromProjVert', pp, asg['lh_v1_vert_angle'], want='S'))
    g.string('fromProjReturn', ast.unparse(the_return(f)))

    # cart / projection: np.float32((e0, e1, ...))
    def f32_tuple(node, n, where):
        X.expect(isinstance(node, ast.Call) and ast.unparse(node.func) == 'np.float32' and len(node.args) == 1
                 and isinstance(node.args[0], ast.Tuple) and len(node.args[0].elts) == n and not node.keywords,
                 '%s: expected np.float32((%d-tuple)), got %s' % (where, n, ast.unparse(node)))
        return node.args[0].elts
    f = X.find(bsv, 'cart')
    asg = assigns_of(f)
    X.expect(len(asg) == 1 and asg[0][0] == 'v', 'cart: expected the single assignment v = np.float32(...)')
    el = f32_tuple(asg[0][1], 3, 'cart')
    for i, e in enumerate(el):
        g.raw(lean_def('cartPre%d' % i, hv, e, want='S'))
    g.string('cartReturn', ast.unparse(the_return(f)))
    f = X.find(bsv, 'projection')
    el = f32_tuple(the_return(f), 2, 'projection')
    for i, e in enumerate(el):
        g.raw(lean_def('projExpr%d' % i, hv, e, want='S'))

    bvs = X.find(X.parse(SRC_BSV), 'LighthouseBsVectors')
    g.strings('angleListAssigns', ['%s = %s' % (t, ast.unparse(v)) for t, v in assigns_of(X.find(bvs, 'angle_list'))])

    # ---- Pose --------------------------------------------------------------------------------------------
    pose = X.find(X.parse(SRC_TYPES), 'Pose')
    init = X.find(pose, '__init__')
    g.strings('poseInitArgs', arg_names(init))
    g.strings('poseInitAssigns', ['%s = %s' % (t, ast.unparse(v)) for t, v in assigns_of(init)])
    g.string('poseRotMatrixProp', ast.unparse(the_return(X.find(pose, 'rot_matrix'))))
    g.string('poseTranslationProp', ast.unparse(the_return(X.find(pose, 'translation'))))
    g.string('poseFromRotVecReturn', ast.unparse(the_return(X.find(pose, 'from_rot_vec'))))
    g.string('poseFromQuatReturn', ast.unparse(the_return(X.find(pose, 'from_quat'))))
    g.string('poseRotVecProp', ast.unparse(the_return(X.find(pose, 'rot_vec'))))
    g.string('poseRotQuatProp', ast.unparse(the_return(X.find(pose, 'rot_quat'))))
    # the copy discipline the heap model (Model/C15: Heap) rests on: every store to an attribute of `self` in class Pose,
    # and every construct that could write into an EXISTING array (augmented assignment, subscript/slice store, `out=`,
    # method calls on the attribute arrays, np.copyto/np.put...)
    stores, inplace = [], []
    for meth in [n for n in pose.body if isinstance(n, (ast.FunctionDef, ast.AsyncFunctionDef))]:
        for n in sorted((m for m in ast.walk(meth) if hasattr(m, 'lineno')), key=lambda m: (m.lineno, m.col_offset)):
            if isinstance(n, ast.Assign):
                for tg in n.targets:
                    for el in (tg.elts if isinstance(tg, (ast.Tuple, ast.List)) else [tg]):
                        if isinstance(el, ast.Attribute) and ast.unparse(el).startswith('self.'):
                            stores.append('%s: %s = %s' % (meth.name, ast.unparse(el), ast.unparse(n.value)))
                        elif isinstance(el, (ast.Subscript, ast.Starred)) or (isinstance(el, ast.Attribute) and not ast.unparse(el).startswith('self.')):
                            inplace.append('%s: %s' % (meth.name, ast.unparse(n)))
            elif isinstance(n, ast.AnnAssign) and n.value is not None and not isinstance(n.target, ast.Name):
                stores.append('%s: %s = %s' % (meth.name, ast.unparse(n.target), ast.unparse(n.value)))
            elif isinstance(n, (ast.AugAssign, ast.Delete)):
                inplace.append('%s: %s' % (meth.name, ast.unparse(n)))
            elif isinstance(n, ast.Call):
                fn = ast.unparse(n.func)
                if any(k.arg == 'out' for k in n.keywords) or fn in ('np.copyto', 'np.put', 'np.place', 'np.putmask', 'np.fill_diagonal', 'setattr') \
                        or (isinstance(n.func, ast.Attribute) and ast.unparse(n.func.value) in ('self._R_matrix', 'self._t_vec', 'self.rot_matrix', 'self.translation')):
                    inplace.append('%s: %s' % (meth.name, ast.unparse(n)))
    g.strings('poseAttrStores', stores)
    g.strings('poseInPlaceWrites', inplace)
    f = X.find(pose, 'scale')
    X.expect(arg_names(f) == ['self', 'scale'], 'Pose.scale: argument list changed')
    asg = assigns_of(f)
    X.expect([t for t, _ in asg] == ['self._t_vec'], 'Pose.scale: expected the single assignment self._t_vec = ...')
    g.raw(lean_def('poseScaleT', [('self._t_vec', 't', 'V'), ('scale', 'k', 'S')], asg[0][1], want='V'))
    selfp = [('self.rot_matrix', 'R', 'M'), ('self.translation', 't', 'V')]
    pt = [('point', 'p', 'V')]
    f = X.find(pose, 'rotate_translate')
    X.expect(arg_names(f) == ['self', 'point'], 'rotate_translate: argument list changed')
    g.raw(lean_def('poseRt', selfp + pt, the_return(f), want='V'))
    f = X.find(pose, 'inv_rotate_translate')
    X.expect(arg_names(f) == ['self', 'point'], 'inv_rotate_translate: argument list changed')
    g.raw(lean_def('poseIrt', selfp + pt, the_return(f), want='V'))
    other = [('pose.rot_matrix', 'R2', 'M'), ('pose.translation', 't2', 'V')]
    f = X.find(pose, 'rotate_translate_pose')
    X.expect(arg_names(f) == ['self', 'pose'], 'rotate_translate_pose: argument list changed')
    asg = dict(assigns_of(f))
    X.expect(set(asg) == {'t', 'R'}, 'rotate_translate_pose: expected assignments t, R')
    g.raw(lean_def('poseRtpT', selfp + other, asg['t'], want='V'))
    g.raw(lean_def('poseRtpR', selfp + other, asg['R'], want='M'))
    g.string('poseRtpReturn', ast.unparse(the_return(f)))
    f = X.find(pose, 'inv_rotate_translate_pose')
    X.expect(arg_names(f) == ['self', 'pose'], 'inv_rotate_translate_pose: argument list changed')
    asg = dict(assigns_of(f))
    X.expect(set(asg) == {'inv_rot_matrix', 't', 'R'}, 'inv_rotate_translate_pose: expected assignments inv_rot_matrix, t, R')
    g.raw(lean_def('poseIrtpInv', selfp, asg['inv_rot_matrix'], want='M'))
    inv = [('inv_rot_matrix', 'Ri', 'M'), ('self.translation', 't', 'V')]
    g.raw(lean_def('poseIrtpT', inv + other, asg['t'], want='V'))
    g.raw(lean_def('poseIrtpR', inv + other, asg['R'], want='M'))
    g.string('poseIrtpReturn', ast.unparse(the_return(f)))

    # ---- solver: Rodrigues rotation and the vectorised projection -------------------------------------------------
    sol = X.find(X.parse(SRC_SOLVER), 'LighthouseGeometrySolver')
    f = X.find(sol, '_rotate_translate')
    X.expect(arg_names(f) == ['cls', 'points', 'rot_vecs', 'translations'], '_rotate_translate: argument list changed')
    asg = assigns_of(f)
    g.strings('rtAssignOrder', [t for t, _ in asg])
    X.expect([t for t, _ in asg] == ['theta', 'v', 'v', 'dot', 'cos_theta', 'sin_theta'], '_rotate_translate: statement sequence changed: %s' % [t for t, _ in asg])
    d = {}
    for t, v in asg:
        d.setdefault(t, []).append(v)
    g.raw(lean_def('rtTheta', [('rot_vecs', 'rot_vecs', 'V')], d['theta'][0], want='S'))
    # the small-angle handling: v = rot_vecs / theta (0/0 -> NaN, x/0 -> inf), v = np.nan_to_num(v[, posinf=.., neginf=..])
    n2n = d['v'][1]
    X.expect(ast.unparse(d['v'][0]) == 'rot_vecs / theta' and isinstance(n2n, ast.Call) and ast.unparse(n2n.func) == 'np.nan_to_num'
             and [ast.unparse(a) for a in n2n.args] == ['v'] and {k.arg for k in n2n.keywords} <= {'posinf', 'neginf'},
             '_rotate_translate: axis normalisation is no longer `v = rot_vecs / theta; v = np.nan_to_num(v, ...)`')
    kws = {k.arg: k.value for k in n2n.keywords}
    inf = {}
    for name, dflt in (('posinf', 'fmax'), ('neginf', '(-fmax)')):
        if name in kws:
            fx = FX({})
            term, ty = fx.go(kws[name])
            X.expect(ty == 'S' and not fx.stmts, 'nan_to_num: untranslatable %s' % name)
            inf[name] = term
        else:
            inf[name] = dflt       # numpy default: the largest finite float
    g.raw('/-- `v = rot_vecs / theta; v = %s` -/\ndef rtAxis (rot_vecs : V3 α) (theta : α) : V3 α := V3.divNanToNum %s %s rot_vecs theta'
          % (ast.unparse(n2n), inf['posinf'], inf['neginf']))
    g.raw(lean_def('rtDot', [('points', 'points', 'V'), ('v', 'v', 'V')], d['dot'][0], want='S'))
    g.raw(lean_def('rtCos', [('theta', 'theta', 'S')], d['cos_theta'][0], want='S'))
    g.raw(lean_def('rtSin', [('theta', 'theta', 'S')], d['sin_theta'][0], want='S'))
    g.raw(lean_def('rtResult', [('points', 'points', 'V'), ('v', 'v', 'V'), ('translations', 'translations', 'V'),
                                ('cos_theta', 'cos_theta', 'S'), ('sin_theta', 'sin_theta', 'S'), ('dot', 'dot', 'S')],
                   the_return(f), want='V'))
    f = X.find(sol, '_calc_angle_pairs')
    asg = assigns_of(f)
    g.strings('capAssigns', ['%s = %s' % (t, ast.unparse(v)) for t, v in asg])
    g.string('capReturn', ast.unparse(the_return(f)))
    defs = X.find(X.parse(SRC_SOLVER), 'LighthouseGeometrySolution.__init__')
    das = dict(assigns_of(defs))
    for nm in ('self.len_rot_vec', 'self.len_pose'):
        X.expect(nm in das and isinstance(das[nm], ast.Constant) and isinstance(das[nm].value, int), 'LighthouseGeometrySolution: %s not an int literal' % nm)
        g.nat(nm[5:], das[nm].value)
    for nm in ('self.n_params_per_bs', 'self.n_params_per_cf'):
        X.expect(nm in das, 'LighthouseGeometrySolution: %s missing' % nm)
        g.string(nm[5:], ast.unparse(das[nm]))
    g.string('paramsToPoseReturn', ast.unparse(the_return(X.find(sol, '_params_to_pose'))))
    g.strings('paramsToPoseAssigns', ['%s = %s' % (t, ast.unparse(v)) for t, v in assigns_of(X.find(sol, '_params_to_pose'))])
    g.string('poseToParamsReturn', ast.unparse(the_return(X.find(sol, '_pose_to_params'))))

    # ---- IppeCf ----------------------------------------------------------------------------------------------
    ippe = X.find(X.parse(SRC_IPPE), 'IppeCf')
    cas = {ast.unparse(n.targets[0]): n.value for n in ippe.body if isinstance(n, ast.Assign) and len(n.targets) == 1}
    X.expect('_R_ippe_to_cf' in cas and '_R_cf_to_ippe' in cas, 'IppeCf: rotation matrices not found')
    m = cas['_R_ippe_to_cf']
    X.expect(isinstance(m, ast.Call) and ast.unparse(m.func) == 'np.array' and len(m.args) == 1 and not m.keywords, 'IppeCf._R_ippe_to_cf: expected np.array([...])')
    try:
        rows = ast.literal_eval(m.args[0])
    except Exception:
        raise ExtractError('IppeCf._R_ippe_to_cf: not a literal')
    X.expect(len(rows) == 3 and all(len(r) == 3 and all(isinstance(x, (int, float)) and x == int(x) for x in r) for r in rows),
             'IppeCf._R_ippe_to_cf: expected a 3x3 matrix of integral literals')

    def ent(x):
        x = int(x)
        return '(nat %d)' % x if x >= 0 else '(-(nat %d))' % (-x)
    g.raw('/-- `IppeCf._R_ippe_to_cf` -/\ndef ippeToCf : M3 α := ⟨%s⟩' % ', '.join('⟨%s⟩' % ', '.join(ent(x) for x in r) for r in rows))
    g.raw(lean_def('cfToIppe', [], cas['_R_cf_to_ippe'], {'_R_ippe_to_cf': ('ippeToCf', 'M')}, want='M', doc='IppeCf._R_cf_to_ippe = ' + ast.unparse(cas['_R_cf_to_ippe'])))
    ienv = {'IppeCf._R_cf_to_ippe': ('cfToIppe', 'M'), 'IppeCf._R_ippe_to_cf': ('ippeToCf', 'M')}
    g.raw(lean_def('ippeVecToIppe', [('v', 'v', 'V')], the_return(X.find(ippe, '_rotate_vector_to_ippe')), ienv, want='V'))
    g.raw(lean_def('ippeVecToCf', [('v', 'v', 'V')], the_return(X.find(ippe, '_rotate_vector_to_cf')), ienv, want='V'))
    g.raw(lean_def('ippeRotToCf', [('R', 'R', 'M')], the_return(X.find(ippe, '_rotate_rot_mat_to_cf')), ienv, want='M'))
    c2i = X.find(ippe, '_cf_to_ippe')
    g.strings('ippeCfToIppeLoop', ['%s = %s' % (t, ast.unparse(v)) for t, v in assigns_of(c2i) if t.endswith('[i]')])
    g.raw('end')
    return {'C15.lean': g.render()}


# ---- real code ---------------------------------------------------------------------------------------------------
def _mods():
    import logging
    import warnings
    logging.disable(logging.CRITICAL)
    warnings.filterwarnings('ignore')
    import numpy as np
    from scipy.spatial.transform import Rotation
    from cflib.localization.lighthouse_bs_vector import LighthouseBsVector
    from cflib.localization.lighthouse_types import Pose
    from cflib.localization.lighthouse_geometry_solver import LighthouseGeometrySolver, LighthouseGeometrySolution
    from cflib.localization.ippe_cf import IppeCf
    return np, Rotation, LighthouseBsVector, Pose, LighthouseGeometrySolver, LighthouseGeometrySolution, IppeCf


def _flat(x):
    import numpy as np
    return [float(v) for v in np.asarray(x, dtype=float).ravel()]


def real_op(op, a):
    """run one driver op on the real code; returns ('ok', [floats]) or ('err', enum)"""
    np, Rotation, BsV, Pose, Solver, Solution, IppeCf = _mods()
    try:
        with np.errstate(all='ignore'):
            if op == 'v2':
                b = BsV(a[0], a[1])
                return 'ok', [b.lh_v2_angle_1, b.lh_v2_angle_2]
            if op == 'q':
                return 'ok', [BsV(a[0], a[1])._q()]
            if op == 'lh2':
                b = BsV.from_lh2(a[0], a[1])
                return 'ok', list(b.lh_v1_angle_pair)
            if op == 'cart':
                return 'ok', _flat(BsV(a[0], a[1]).cart)
            if op == 'proj':
                return 'ok', _flat(BsV(a[0], a[1]).projection)
            if op == 'fromcart':
                b = BsV.from_cart(list(a))
                return 'ok', [b.lh_v1_horiz_angle, b.lh_v1_vert_angle]
            if op == 'fromproj':
                b = BsV.from_projection(list(a))
                return 'ok', [b.lh_v1_horiz_angle, b.lh_v1_vert_angle]
            if op in ('rt', 'irt'):
                P = Pose(np.array(a[0:9]).reshape(3, 3), np.array(a[9:12]))
                p = np.array(a[12:15])
                return 'ok', _flat(P.rotate_translate(p) if op == 'rt' else P.inv_rotate_translate(p))
            if op in ('rtp', 'irtp'):
                P = Pose(np.array(a[0:9]).reshape(3, 3), np.array(a[9:12]))
                Q = Pose(np.array(a[12:21]).reshape(3, 3), np.array(a[21:24]))
                r = P.rotate_translate_pose(Q) if op == 'rtp' else P.inv_rotate_translate_pose(Q)
                return 'ok', _flat(r.rot_matrix) + _flat(r.translation)
            if op == 'scaleseq':
                # one Pose object used before and after scale(): inverse/forward transforms must follow the new translation
                import copy
                P = Pose(np.array(a[0:9]).reshape(3, 3), np.array(a[9:12]))
                Q = Pose(np.array(a[12:21]).reshape(3, 3), np.array(a[21:24]))
                k, p = a[24], np.array(a[25:28])
                P.inv_rotate_translate(p), P.inv_rotate_translate_pose(Q), P.rotate_translate(p), P.rot_matrix, P.translation
                P.scale(k)
                P2 = copy.copy(P)
                r = P2.inv_rotate_translate_pose(Q)
                return 'ok', (_flat(P.rotate_translate(p)) + _flat(P.inv_rotate_translate(p)) + _flat(P2.inv_rotate_translate(p)) +
                              _flat(r.rot_matrix) + _flat(r.translation) + _flat(P.translation))
            if op == 'rod':
                # two identical rows + a different one: the vectorised code must treat rows independently
                pts = np.array([a[0:3], [0.5, -1.0, 2.0], a[0:3]])
                rv = np.array([a[3:6], [0.0, 0.0, 0.0], a[3:6]])
                tr = np.array([a[6:9], [1.0, 1.0, 1.0], a[6:9]])
                r = Solver._rotate_translate(pts, rv, tr)
                if not np.array_equal(r[0], r[2], equal_nan=True):
                    return 'err', 'rows-differ'
                return 'ok', _flat(r[0])
            if op == 'pair':
                defs = Solution()
                bs = np.array([a[0:6], a[0:6]])
                cf = np.array([a[6:12], a[6:12]])
                se = np.array([a[12:15], a[12:15]])
                r = Solver._calc_angle_pairs(bs, cf, se, defs)
                return 'ok', _flat(r[1])
            if op == 'rotvecmat':
                return 'ok', _flat(Pose.from_rot_vec(R_vec=np.array(a)).rot_matrix)
            if op == 'rotvecquat':
                return 'ok', _flat(Pose.from_rot_vec(R_vec=np.array(a)).rot_quat)
            if op == 'quatmat':
                return 'ok', _flat(Pose.from_quat(R_quat=np.array(a)).rot_matrix)
            if op == 'toippe':
                return 'ok', _flat(IppeCf._rotate_vector_to_ippe(np.array(a)))
            if op == 'tocf':
                return 'ok', _flat(IppeCf._rotate_vector_to_cf(np.array(a)))
            if op == 'rottocf':
                return 'ok', _flat(IppeCf._rotate_rot_mat_to_cf(np.array(a).reshape(3, 3)))
            if op == 'imgtoippe':
                U, Q = IppeCf._cf_to_ippe(np.array([[1.0, 2.0, 3.0]]), np.array([[a[0], a[1]]]))
                return 'ok', [float(Q[0][0]), float(Q[1][0])]
    except Exception as e:
        return 'err', exc_enum(e)
    raise RuntimeError('unknown op ' + op)



# ---- object level: histories of Pose objects sharing ndarrays (heap / aliasing view) ---------------------------------
OPCODE = {'new': 0, 'write': 1, 'construct': 2, 'copy': 3, 'scale': 4, 'compose': 5, 'invcompose': 6, 'transform': 7, 'invtransform': 8}


def gen_history(rng, mats, n_ops):
    """a random well-formed history with plenty of sharing: several poses from the SAME ndarrays, poses cloned from another
    pose's rot_matrix/translation, shallow copies, scale of one of them, caller writes into arrays poses were built from.
    Events are tuples; cell addresses follow the model's allocation order (new +1, construct +2, scale +1, compose +2,
    transform +1).  Returns (events, tags)."""
    kinds, owner, objs = [], [], []          # per cell: 'm'/'v', 'c'/'p'; per object: [r, t]
    ev, tags = [], set()
    used_by = {}                              # cell -> number of constructs from it

    def vec():
        return [rng.choice([0.0, 1.0, rng.uniform(-5, 5)]) for _ in range(3)]

    def new(kind):
        vals = list(rng.choice(mats)[0]) if kind == 'm' else vec()
        ev.append(('new', kind, vals))
        kinds.append(kind)
        owner.append('c')
        return len(kinds) - 1

    def cells_of(kind, own=None):
        return [i for i in range(len(kinds)) if kinds[i] == kind and (own is None or owner[i] == own)]
    m0, v0 = new('m'), new('v')
    for _ in range(n_ops):
        c = rng.random()
        if c < 0.08 or not objs and c < 0.3:
            new(rng.choice('mv'))
        elif c < 0.30 or not objs:
            # construct: prefer arrays that are already in use (the caller's shared arrays, another pose's own arrays)
            ms, vs = cells_of('m'), cells_of('v')
            r = rng.choice([i for i in ms if i in used_by] or ms) if rng.random() < 0.6 else rng.choice(ms)
            t = rng.choice([i for i in vs if i in used_by] or vs) if rng.random() < 0.6 else rng.choice(vs)
            if r in used_by or t in used_by:
                tags.add('shared-ndarray')
            if owner[r] == 'p' or owner[t] == 'p':
                tags.add('cloned-from-pose-arrays')
            used_by[r] = used_by.get(r, 0) + 1
            used_by[t] = used_by.get(t, 0) + 1
            ev.append(('construct', r, t))
            kinds.extend(['m', 'v'])
            owner.extend(['p', 'p'])
            objs.append([len(kinds) - 2, len(kinds) - 1])
            used_by[len(kinds) - 2] = used_by[len(kinds) - 1] = 1
        elif c < 0.38:
            p_ = rng.randrange(len(objs))
            ev.append(('copy', p_))
            objs.append(list(objs[p_]))
            tags.add('shallow-copy')
        elif c < 0.60:
            p_ = rng.randrange(len(objs))
            k = rng.choice([2.0, 0.5, -1.0, 3.25, rng.uniform(0.1, 10.0)])
            ev.append(('scale', p_, k))
            if sum(1 for o in objs if o[1] == objs[p_][1]) > 1:
                tags.add('scale-of-object-sharing-its-array')
            tags.add('scale')
            kinds.append('v')
            owner.append('p')
            objs[p_][1] = len(kinds) - 1
            used_by[len(kinds) - 1] = 1
        elif c < 0.72:
            cs = [i for i in range(len(kinds)) if owner[i] == 'c']
            a = rng.choice([i for i in cs if i in used_by] or cs)
            if a in used_by:
                tags.add('caller-writes-array-a-pose-was-built-from')
            vals = list(rng.choice(mats)[0]) if kinds[a] == 'm' else vec()
            ev.append(('write', a, kinds[a], vals))
        elif c < 0.86:
            p_, q_ = rng.randrange(len(objs)), rng.randrange(len(objs))
            ev.append((rng.choice(['compose', 'invcompose']), p_, q_))
            kinds.extend(['m', 'v'])
            owner.extend(['p', 'p'])
            objs.append([len(kinds) - 2, len(kinds) - 1])
            used_by[len(kinds) - 2] = used_by[len(kinds) - 1] = 1
        else:
            p_ = rng.randrange(len(objs))
            a = rng.choice(cells_of('v'))
            ev.append((rng.choice(['transform', 'invtransform']), p_, a))
            kinds.append('v')
            owner.append('c')
    return ev, tags


def history_line(ev):
    out = []
    for e in ev:
        out.append(float(OPCODE[e[0]]))
        if e[0] == 'new':
            out += [0.0 if e[1] == 'm' else 1.0] + list(e[2])
        elif e[0] == 'write':
            out += [float(e[1]), 0.0 if e[2] == 'm' else 1.0] + list(e[3])
        else:
            out += [float(x) for x in e[1:]]
    return out


class RealHeap:
    """the history executed on real numpy arrays and real Pose objects; `cells` mirrors the model's address space"""

    def __init__(self):
        self.cells, self.owner, self.objs = [], [], []

    def step(self, e):
        import copy
        np, Rotation, BsV, Pose = _mods()[:4]
        k = e[0]
        if k == 'new':
            self.cells.append(np.array(e[2], dtype=float).reshape((3, 3) if e[1] == 'm' else (3,)))
            self.owner.append('c')
        elif k == 'write':
            a = self.cells[e[1]]
            a[...] = np.array(e[3], dtype=float).reshape(a.shape)          # the caller writes into ITS array, in place
        elif k == 'construct':
            P = Pose(self.cells[e[1]], self.cells[e[2]])
            self.objs.append(P)
            self.cells += [P.rot_matrix, P.translation]
            self.owner += ['p', 'p']
        elif k == 'copy':
            self.objs.append(copy.copy(self.objs[e[1]]))
        elif k == 'scale':
            self.objs[e[1]].scale(e[2])
            self.cells.append(self.objs[e[1]].translation)
            self.owner.append('p')
        elif k in ('compose', 'invcompose'):
            P, Q = self.objs[e[1]], self.objs[e[2]]
            N = P.rotate_translate_pose(Q) if k == 'compose' else P.inv_rotate_translate_pose(Q)
            self.objs.append(N)
            self.cells += [N.rot_matrix, N.translation]
            self.owner += ['p', 'p']
        else:
            P, x = self.objs[e[1]], self.cells[e[2]]
            self.cells.append(np.asarray(P.rotate_translate(x) if k == 'transform' else P.inv_rotate_translate(x), dtype=float))
            self.owner.append('c')

    def observe(self):
        """(values of all Pose objects, values of all caller arrays)"""
        return ([_flat(P.rot_matrix) + _flat(P.translation) for P in self.objs],
                [_flat(c) for c, o in zip(self.cells, self.owner) if o == 'c'])


class ValueTwin:
    """the specification: poses and arrays are VALUES; an event changes only the value it targets"""

    def __init__(self):
        self.cells, self.owner, self.objs = [], [], []      # cells: value or None (pose-owned: not observable as such)

    def step(self, e):
        np = _mods()[0]
        k = e[0]
        if k == 'new':
            self.cells.append(np.array(e[2], dtype=float).reshape((3, 3) if e[1] == 'm' else (3,)))
            self.owner.append('c')
        elif k == 'write':
            self.cells[e[1]] = np.array(e[3], dtype=float).reshape(self.cells[e[1]].shape)
        elif k == 'construct':
            R, t = np.array(self.cells[e[1]]), np.array(self.cells[e[2]])
            self.objs.append((R, t))
            self.cells += [R, t]
            self.owner += ['p', 'p']
        elif k == 'copy':
            self.objs.append(self.objs[e[1]])
        elif k == 'scale':
            R, t = self.objs[e[1]]
            self.objs[e[1]] = (R, t * e[2])
            self.cells.append(t * e[2])
            self.owner.append('p')
        elif k in ('compose', 'invcompose'):
            (R1, t1), (R2, t2) = self.objs[e[1]], self.objs[e[2]]
            N = (np.dot(R1, R2), np.dot(R1, t2) + t1) if k == 'compose' else (np.dot(R1.T, R2), np.dot(R1.T, t2 - t1))
            self.objs.append(N)
            self.cells += [N[0], N[1]]
            self.owner += ['p', 'p']
        else:
            (R, t), x = self.objs[e[1]], self.cells[e[2]]
            self.cells.append(np.dot(R, x) + t if k == 'transform' else np.dot(R.T, x - t))
            self.owner.append('c')

    def observe(self):
        return ([_flat(R) + _flat(t) for R, t in self.objs], [_flat(c) for c, o in zip(self.cells, self.owner) if o == 'c'])


def real_history(ev):
    h = RealHeap()
    for e in ev:
        h.step(e)
    objs, cells = h.observe()
    return 'ok', [float(len(objs)), float(len(cells))] + [x for o in objs for x in o] + [x for c in cells for x in c]


TOL = {'cart': 1e-6, 'proj': 1e-6}


def close(x, y, tol):
    if math.isnan(x) or math.isnan(y):
        return math.isnan(x) and math.isnan(y)
    if math.isinf(x) or math.isinf(y):
        return x == y
    return abs(x - y) <= tol * max(1.0, abs(x), abs(y))


def parse_reply(line):
    w = line.split()
    if not w:
        return 'bad', line
    if w[0] == 'ok':
        return 'ok', [bits_f64(int(x)) for x in w[1:]]
    if w[0] == 'err':
        return 'err', w[1]
    return 'bad', line


def line_of(op, a):
    return op + ' ' + ' '.join(str(f64bits(float(x))) for x in a)


# non-zero rotation vectors whose squared norm underflows to 0 (or to a subnormal) in binary64
UNDERFLOW = [(tuple(m * c for c in ax), 'underflow') for m in (1e-155, 1e-160, 1e-170, 1e-200, 1e-300, 5e-324)
             for ax in ((1, 0, 0), (0.6, 0, -0.8), (0.5, 0.5, 0.7), (0, -1, 0))]


def corpus():
    import glob
    import json
    import os
    here = os.path.dirname(os.path.dirname(os.path.abspath(__file__)))
    return [json.load(open(f)) for f in sorted(glob.glob(os.path.join(here, 'corpus', 'c15', '*.json')))]


DEG = math.pi / 180.0
FOV_H = 80 * DEG
FOV_V = 55 * DEG


def rot_vectors(rng, n_random):
    """rotation vectors: identity, half turns about axes and diagonals, tiny angles, random"""
    s2, s3 = math.sqrt(0.5), math.sqrt(1.0 / 3.0)
    axes = [(1, 0, 0), (0, 1, 0), (0, 0, 1), (-1, 0, 0), (s2, s2, 0), (0, s2, -s2), (s3, s3, s3), (-s3, s3, -s3)]
    res = [((0.0, 0.0, 0.0), 'identity')]
    for ax in axes:
        res.append((tuple(math.pi * c for c in ax), 'half-turn'))
        res.append((tuple((math.pi - 1e-9) * c for c in ax), 'near-half-turn'))
    for mag in (1e-3, 1e-6, 1e-9, 1e-12, 1e-20, 1e-50, 1e-100, 1e-150):
        ax = rng.choice(axes)
        res.append((tuple(mag * c for c in ax), 'tiny'))
        u = [rng.gauss(0, 1) for _ in range(3)]
        n = math.sqrt(sum(c * c for c in u))
        res.append((tuple(mag * c / n for c in u), 'tiny'))
    for _ in range(n_random):
        u = [rng.gauss(0, 1) for _ in range(3)]
        n = math.sqrt(sum(c * c for c in u))
        ang = rng.choice([rng.uniform(0, math.pi), rng.uniform(0, math.pi), rng.uniform(0, 0.1), rng.uniform(3.0, math.pi)])
        res.append((tuple(ang * c / n for c in u), 'random'))
    return res


SENSORS = [(-0.015, 0.0075, 0.0), (-0.015, -0.0075, 0.0), (0.015, 0.0075, 0.0), (0.015, -0.0075, 0.0)]


def solver_rows(rng, rvs, n):
    """(rot_vec_bs, t_bs, rot_vec_cf, t_cf, sensor, tag_bs, tag_cf, where): base-station/Crazyflie pose pairs for the
    solver-vs-types comparison.  The property quantifies over ALL pose pairs fed to both projection paths, so the
    Crazyflie is placed, in the base station's own frame (whatever its rotation), in front of it inside the field of
    view, in front but outside it, beside it (x ~ 0 of either sign), and behind it (x < 0, all four y/z sign quadrants)."""
    np, Rotation = _mods()[:2]
    rows = []
    kinds = ['front'] * 4 + ['wide', 'beside', 'beside', 'behind', 'behind', 'behind']
    for _ in range(n):
        (rb, tagb), (rc, tagc) = rng.choice(rvs), rng.choice(rvs)
        tb = [rng.uniform(-3, 3), rng.uniform(-3, 3), rng.uniform(0, 3)]
        dist = rng.uniform(0.5, 6.0)
        where = rng.choice(kinds)
        if where == 'front':
            h = rng.uniform(-FOV_H, FOV_H) * rng.choice([1.0, 1.0, 0.2])
            v = rng.uniform(-FOV_V, FOV_V) * rng.choice([1.0, 1.0, 0.2])
            local = np.array([1.0, math.tan(h), math.tan(v)])
        elif where == 'wide':
            local = np.array([1.0, math.tan(rng.uniform(-1.55, 1.55)), math.tan(rng.uniform(-1.55, 1.55))])
        else:
            # y and z well away from 0 (so that no angle sits on atan2's branch cut or at its singular point, where the
            # two paths may legitimately differ by rounding), any signs
            y = rng.choice([-1, 1]) * rng.uniform(0.2, 1.0)
            z = rng.choice([-1, 1]) * rng.uniform(0.2, 1.0)
            if where == 'beside':
                x = rng.choice([-1, 1]) * rng.choice([1e-2, 1e-4, 1e-7, 1e-10])
            else:
                x = -rng.choice([rng.uniform(0.05, 1.0), rng.uniform(1.0, 20.0)])
            local = np.array([x, y, z])
        local = dist * local / np.linalg.norm(local)
        tc = Rotation.from_rotvec(np.array(rb)).as_matrix().dot(local) + np.array(tb)
        rows.append((tuple(rb), tb, tuple(rc), [float(x) for x in tc], rng.choice(SENSORS), tagb, tagc, where))
    return rows


def exact_rows():
    """pose pairs without rotation whose arithmetic is exact in BOTH paths, so that the sensor sits exactly on the
    special sets of atan2: x = 0 (y > 0, y < 0, y = 0), the negative x axis (y = 0 or z = 0, x < 0: the branch cut), the
    base station's own position (0, 0, 0), and plainly behind / in front"""
    z3 = (0.0, 0.0, 0.0)
    rows = []
    for s in SENSORS[:2]:
        for lx, ly, lz, name in ((0.0, 1.5, -0.5, 'x=0,y>0'), (0.0, -1.5, 0.5, 'x=0,y<0'), (0.0, 0.0, 2.0, 'x=0,y=0'),
                                 (0.0, 1.0, 0.0, 'x=0,z=0'), (-2.0, 0.0, 1.0, 'x<0,y=0'), (-2.0, 1.0, 0.0, 'x<0,z=0'),
                                 (-3.0, 0.0, 0.0, 'x<0,y=0,z=0'), (0.0, 0.0, 0.0, 'origin'), (-3.0, 0.5, -0.25, 'x<0'),
                                 (-3.0, -0.5, 0.25, 'x<0'), (2.0, 0.5, 0.25, 'x>0'), (2.0, 0.0, 0.0, 'x>0,y=0,z=0')):
            tc = [1.0, -2.0, 0.5]
            p = [s[i] + tc[i] for i in range(3)]          # the sensor in the global frame, as both paths compute it
            tb = [p[0] - lx, p[1] - ly, p[2] - lz]
            if [p[i] - tb[i] for i in range(3)] != [lx, ly, lz]:
                continue                                    # not exactly representable: skip rather than approximate
            rows.append((z3, tb, z3, tc, s, 'identity', 'identity', 'exact:' + name))
    return rows


def pair_tolerances(local, where):
    """per-angle comparison tolerance for atan2(y, x), atan2(z, x) of the point `local`: 1e-9 scaled by the condition
    number |p| / hypot(x, y|z) of the angle (rounding of ~1e-16 |p| in the point moves the angle by that much);
    rows built with exact arithmetic must agree to 1e-12"""
    if where.startswith('exact:'):
        return [1e-12, 1e-12]
    n = math.sqrt(sum(float(c) ** 2 for c in local))
    res = []
    for c in (float(local[1]), float(local[2])):
        hyp = math.hypot(float(local[0]), c)
        res.append(1e-9 * max(1.0, n / hyp) if hyp > 0 else float('inf'))
    return res


def types_local(bs_params, cf_params, sensor):
    """the sensor position in the base-station frame by the types path (Pose.from_rot_vec, rotate_translate, inv_rotate_translate)"""
    np, Rotation, BsV, Pose, Solver, Solution, IppeCf = _mods()
    defs = Solution()
    bs = Solver._params_to_pose(np.array(bs_params, dtype=float), defs)
    cf = Solver._params_to_pose(np.array(cf_params, dtype=float), defs)
    return bs.inv_rotate_translate(cf.rotate_translate(np.array(sensor, dtype=float)))


def rvec_to_matrix(rv):
    np, Rotation = _mods()[:2]
    return [float(x) for x in Rotation.from_rotvec(np.array(rv)).as_matrix().ravel()]


def directions(ctx, nh, nv, nrand):
    rng = ctx.rng
    res = []
    for i in range(nh):
        for j in range(nv):
            h = -FOV_H + 2 * FOV_H * i / (nh - 1)
            v = -FOV_V + 2 * FOV_V * j / (nv - 1)
            res.append((h * 0.999999, v * 0.999999, 'grid'))
    for _ in range(nrand):
        res.append((rng.uniform(-FOV_H, FOV_H), rng.uniform(-FOV_V, FOV_V), 'random'))
    for h in (0.0, -0.0, 1e-12, -1e-12, FOV_H * 0.9999999, -FOV_H * 0.9999999):
        for v in (0.0, -0.0, 1e-12, -1e-12, FOV_V * 0.9999999, -FOV_V * 0.9999999):
            res.append((h, v, 'boundary'))
    return res


def gen_cases(ctx):
    rng = ctx.rng
    thorough = ctx.tier == 'thorough'
    cases = []      # (op, args, tag)

    def add(op, a, tag):
        cases.append((op, [float(x) for x in a], tag))
    dirs = directions(ctx, 65 if thorough else 33, 45 if thorough else 23, 4000 if thorough else 600)
    for h, v, tag in dirs:
        add('v2', (h, v), tag)
        add('q', (h, v), tag)
        add('cart', (h, v), tag)
        add('proj', (h, v), tag)
        r = real_op('v2', (h, v))
        if r[0] == 'ok':
            add('lh2', r[1], 'v2-of-' + tag)
        r = real_op('cart', (h, v))
        add('fromcart', r[1], 'cart-of-' + tag)
        r = real_op('proj', (h, v))
        add('fromproj', r[1], 'proj-of-' + tag)
    # outside the field of view: domain errors of asin
    for _ in range(1500 if thorough else 300):
        h = rng.uniform(-1.5, 1.5)
        v = rng.choice([-1, 1]) * rng.uniform(55 * DEG, 1.57)
        add('v2', (h, v), 'outside')
        add('q', (h, v), 'outside')
    for _ in range(1500 if thorough else 300):
        add('lh2', (rng.uniform(-3.2, 3.2), rng.uniform(-3.2, 3.2)), 'any-angle')
        add('lh2', (rng.uniform(-1.5, 1.5), rng.uniform(-1.5, 1.5)), 'front')
        c = [rng.choice([0.0, rng.gauss(0, 1), rng.gauss(0, 5)]) for _ in range(3)]
        add('fromcart', c, 'any-vector')
        add('fromproj', (rng.gauss(0, 3), rng.gauss(0, 3)), 'any-point')
    for c in ((0.0, 0.0, 0.0), (0.0, 1.0, -1.0), (-1.0, 0.0, 0.0), (-1.0, 1e-300, -1e-300), (1.0, 0.0, 0.0)):
        add('fromcart', c, 'special-vector')
    # poses
    rvs = rot_vectors(rng, 600 if thorough else 120)
    mats = [(rvec_to_matrix(rv), tag) for rv, tag in rvs]

    def tvec():
        return [rng.choice([0.0, rng.uniform(-5, 5), rng.uniform(-0.01, 0.01)]) for _ in range(3)]
    for (m, tag) in mats:
        add('rt', m + tvec() + tvec(), tag)
        add('irt', m + tvec() + tvec(), tag)
        (m2, tag2) = rng.choice(mats)
        add('rtp', m + tvec() + m2 + tvec(), tag + '*' + tag2)
        add('irtp', m + tvec() + m2 + tvec(), tag + '*' + tag2)
    for (m, tag) in mats:
        (m2, tag2) = rng.choice(mats)
        add('scaleseq', m + tvec() + m2 + tvec() + [rng.choice([0.5, 2.0, -1.0, 0.0, 1.0, rng.uniform(0.1, 10)])] + tvec(), tag + '*' + tag2)
    # non-orthogonal matrices: the code does plain matrix arithmetic whatever R is
    for _ in range(60):
        m = [rng.uniform(-2, 2) for _ in range(9)]
        m2 = [rng.uniform(-2, 2) for _ in range(9)]
        add('rt', m + tvec() + tvec(), 'non-orthogonal')
        add('irt', m + tvec() + tvec(), 'non-orthogonal')
        add('rtp', m + tvec() + m2 + tvec(), 'non-orthogonal')
        add('irtp', m + tvec() + m2 + tvec(), 'non-orthogonal')
    # Rodrigues rotation and the vectorised projection
    for (rv, tag) in rvs + UNDERFLOW:
        add('rod', tvec() + list(rv) + tvec(), tag)
        add('rotvecmat', rv, tag)
        add('rotvecquat', rv, tag)
    for rb, tb, rc, tc, sn, tagb, tagc, where in exact_rows() + solver_rows(rng, rvs + UNDERFLOW, 3000 if thorough else 700):
        add('pair', list(rb) + tb + list(rc) + tc + list(sn), tagb + '/' + tagc + '@' + where)
    for _ in range(400 if thorough else 100):
        ev, tags = gen_history(rng, mats, rng.choice([4, 8, 14, 25]))
        cases.append(('heap', history_line(ev), 'history:' + ('+'.join(sorted(tags)) or 'plain'), ev))
    for _ in range(300 if thorough else 80):
        q = [rng.gauss(0, 1) * rng.choice([1.0, 1.0, 3.0, 0.01]) for _ in range(4)]
        add('quatmat', q, 'random-quat')
    for q in ((0, 0, 0, 1), (1, 0, 0, 0), (0, 1, 0, 0), (0, 0, 1, 0), (0, 0, 0, -1), (0.5, 0.5, 0.5, 0.5), (0, 0, 1e-9, 1), (2, 0, 0, 0)):
        add('quatmat', q, 'special-quat')
    for _ in range(40):
        add('toippe', tvec(), 'ippe')
        add('tocf', tvec(), 'ippe')
        add('rottocf', rng.choice(mats)[0], 'ippe')
        add('imgtoippe', (rng.gauss(0, 1), rng.gauss(0, 1)), 'ippe')
    return cases


def correspond(ctx):
    cases = gen_cases(ctx)
    replies = ctx.lean(DRIVER, [line_of(c[0], c[1]) for c in cases])
    for c, rep in zip(cases, replies):
        op, a, tag = c[:3]
        if op == 'heap':
            real = real_history(c[3])
            for t in tag[len('history:'):].split('+'):
                ctx.count('history:' + t)
        else:
            real = real_op(op, a)
        model = parse_reply(rep)
        ctx.count('op:' + op)
        ctx.count('kind:' + ('history' if op == 'heap' else tag.split('-of-')[0].split('*')[0].split('/')[0]))
        ctx.count('result:' + real[0] + (':' + real[1] if real[0] == 'err' else ''))
        desc = {'op': op, 'events': [list(e) for e in c[3]], 'kind': tag} if op == 'heap' else {'op': op, 'args': a, 'kind': tag}
        ctx.case(desc, (op,) + tuple(round(x, 9) if abs(x) < 1e15 else x for x in a))
        tol = TOL.get(op, 1e-9)
        # which branches of the model does the case exercise?
        if op == 'fromcart':
            x, y = a[0], a[1]
            ctx.count('branch:atan2:' + ('x>0' if x > 0 else ('x<0,y>=0' if y >= 0 else 'x<0,y<0') if x < 0 else 'x=0'))
        if op == 'lh2':
            x = math.tan(math.pi / 6) * (math.cos(a[0]) + math.cos(a[1]))
            ctx.count('branch:lh2:' + ('sweeps-cross-in-front' if x > 0 else 'behind'))
        tols = None
        if op == 'pair':
            where = tag.split('@')[1]
            local = types_local(a[0:6], a[6:12], a[12:15])
            tols = pair_tolerances(local, where)
            ctx.count('branch:pair:' + where)
            ctx.count('branch:pair-atan2:' + ('x>0' if local[0] > 0 else 'x<0' if local[0] < 0 else 'x=0'))
        if op in ('rod', 'rotvecmat', 'rotvecquat'):
            rv = a[3:6] if op == 'rod' else a
            th2 = sum(c * c for c in rv)
            ctx.count('branch:theta:' + ('zero-vector' if not any(rv) else 'underflow-to-zero' if th2 == 0.0 else 'nonzero'))
        if op == 'rotvecquat' and real[0] == 'ok' and model[0] == 'ok' and len(model[1]) == 4:
            # q and -q are the same rotation: compare up to the global sign (near half turns w ~ 0 and the sign is arbitrary)
            tol = 1e-7
            if sum(x * y for x, y in zip(model[1], real[1])) < 0:
                real = ('ok', [-x for x in real[1]])
        ok = model[0] == real[0] and (
            (real[0] == 'err' and model[1] == real[1]) or
            (real[0] == 'ok' and len(model[1]) == len(real[1]) and
             all(close(x, y, tol if tols is None else tols[i]) for i, (x, y) in enumerate(zip(model[1], real[1])))))
        if real[0] == 'ok' and any(math.isnan(x) for x in real[1]):
            ctx.count('result:nan')
        if not ok:
            ctx.disagree(op, desc, str(model)[:300], str(real)[:300])


# ---- direct evaluation of the property on the real code (failing-input search) -------------------------------------
def search(ctx):
    np, Rotation, BsV, Pose, Solver, Solution, IppeCf = _mods()
    rng = ctx.rng
    thorough = ctx.tier == 'thorough'

    def far(x, y, tol):
        x, y = np.asarray(x, dtype=float), np.asarray(y, dtype=float)
        return not np.all(np.abs(x - y) <= tol * np.maximum(1.0, np.maximum(np.abs(x), np.abs(y))))   # NaN => far

    # (1) angle / vector / projection conversions are mutual inverses in the field of view; cart is a unit vector
    for h, v, tag in directions(ctx, 41 if thorough else 21, 29 if thorough else 15, 3000 if thorough else 500):
        inp = {'h': h, 'v': v}
        try:
            b = BsV(h, v)
            a1, a2 = b.lh_v2_angle_1, b.lh_v2_angle_2
            b2 = BsV.from_lh2(a1, a2)
            if far(b2.lh_v1_angle_pair, (h, v), 1e-9):
                ctx.witness('v1-v2-v1', 'V1 -> V2 -> V1 sweep angle conversion does not return the V1 angles', inp, got=list(b2.lh_v1_angle_pair))
            if far((b2.lh_v2_angle_1, b2.lh_v2_angle_2), (a1, a2), 1e-9):
                ctx.witness('v2-v1-v2', 'V2 -> V1 -> V2 sweep angle conversion does not return the V2 angles', {'a1': a1, 'a2': a2}, got=[b2.lh_v2_angle_1, b2.lh_v2_angle_2])
            c = b.cart
            if abs(float(np.linalg.norm(np.asarray(c, dtype=float))) - 1.0) > 1e-6:
                ctx.witness('cart-unit', 'cartesian form is not a unit vector', inp, got=_flat(c))
            b3 = BsV.from_cart(c)
            if far(b3.lh_v1_angle_pair, (h, v), 2e-6):
                ctx.witness('cart-roundtrip', 'V1 -> cartesian -> V1 does not return the V1 angles (float32 accuracy)', inp, got=list(b3.lh_v1_angle_pair))
            c2 = BsV.from_cart(c).cart
            if far(c2, c, 1e-6):
                ctx.witness('cart-roundtrip2', 'cartesian -> V1 -> cartesian does not return the vector', inp, got=_flat(c2))
            p = b.projection
            b4 = BsV.from_projection(p)
            if far(b4.lh_v1_angle_pair, (h, v), 2e-6):
                ctx.witness('proj-roundtrip', 'V1 -> projection -> V1 does not return the V1 angles (float32 accuracy)', inp, got=list(b4.lh_v1_angle_pair))
            if far(b4.projection, p, 1e-6):
                ctx.witness('proj-roundtrip2', 'projection -> V1 -> projection does not return the point', inp, got=_flat(b4.projection))
            if far((c[1] / c[0], c[2] / c[0]), p, 1e-5):
                ctx.witness('cart-vs-proj', 'projection is not the cartesian direction scaled to x = 1', inp, got=_flat(p))
        except Exception as e:
            ctx.witness('conversion-raises', 'conversion raises inside the field of view: ' + exc_enum(e), inp, got=repr(e)[:200])
        ctx.count('search:direction')

    # (2) rigid-motion laws and agreement of the matrix / rotation vector / quaternion views
    rvs = rot_vectors(rng, 300 if thorough else 80)

    def tvec():
        return np.array([rng.choice([0.0, rng.uniform(-5, 5)]) for _ in range(3)])
    poses = [(Pose.from_rot_vec(R_vec=np.array(rv), t_vec=tvec()), rv, tag) for rv, tag in rvs]
    import copy

    def laws(P, Q, S, p, inp, state):
        """the rigid-motion laws on these objects in their current state; `state` names the history of P"""
        sfx = '' if state == 'fresh' else '-after-scale'
        inp = dict(inp, state=state, point=_flat(p))
        if far(P.inv_rotate_translate(P.rotate_translate(p)), p, 1e-9) or far(P.rotate_translate(P.inv_rotate_translate(p)), p, 1e-9):
            ctx.witness('pose-inverse' + sfx, 'inverse point transform does not undo the forward transform', inp)
        back = P.inv_rotate_translate_pose(P.rotate_translate_pose(Q))
        back2 = P.rotate_translate_pose(P.inv_rotate_translate_pose(Q))
        if far(back.rot_matrix, Q.rot_matrix, 1e-9) or far(back.translation, Q.translation, 1e-9) or \
                far(back2.rot_matrix, Q.rot_matrix, 1e-9) or far(back2.translation, Q.translation, 1e-9):
            ctx.witness('pose-inverse-pose' + sfx, 'inverse pose transform does not undo the forward pose transform', inp)
        l = P.rotate_translate_pose(Q).rotate_translate_pose(S)
        r = P.rotate_translate_pose(Q.rotate_translate_pose(S))
        if far(l.rot_matrix, r.rot_matrix, 1e-9) or far(l.translation, r.translation, 1e-9):
            ctx.witness('pose-assoc' + sfx, 'pose composition is not associative', inp)
        if far(P.rotate_translate_pose(Q).rotate_translate(p), P.rotate_translate(Q.rotate_translate(p)), 1e-9) or \
                far(P.inv_rotate_translate_pose(Q).rotate_translate(p), P.inv_rotate_translate(Q.rotate_translate(p)), 1e-9):
            ctx.witness('pose-seq' + sfx, 'composed pose does not match sequential application', inp)
        R, t = P.matrix_vec
        if far(P.rotate_translate(p), np.dot(R, p) + t, 1e-12) or far(R, P.rot_matrix, 0) or far(t, P.translation, 0):
            ctx.witness('pose-accessors' + sfx, 'rotate_translate / matrix_vec / rot_matrix / translation views of the pose differ', inp)

    for P, rv, tag in poses:
        inp = {'rot_vec': list(rv), 't': _flat(P.translation)}
        p = tvec()
        Q, _, _ = rng.choice(poses)
        S, _, _ = rng.choice(poses)
        laws(P, Q, S, p, inp, 'fresh')
        # Pose is mutable through scale(): the laws must hold again on the SAME object (and on a shallow copy, which is
        # what LighthouseSystemScaler makes) after it has been used and then scaled
        k = rng.choice([0.5, 2.0, 3.25, -1.0, rng.uniform(0.1, 10.0)])
        R0, t0 = np.array(P.rot_matrix, dtype=float), np.array(P.translation, dtype=float)
        P.scale(k)
        if far(P.translation, k * t0, 1e-12) or far(P.rot_matrix, R0, 0):
            ctx.witness('pose-scale', 'scale() does not multiply the translation by the factor leaving the rotation untouched', dict(inp, k=k))
        laws(P, Q, S, p, dict(inp, k=k), 'used-then-scaled')
        laws(copy.copy(P), Q, S, p, dict(inp, k=k), 'used-scaled-copied')
        # views of one pose agree
        for name, back in (('rot_vec', lambda: Pose.from_rot_vec(R_vec=P.rot_vec, t_vec=P.translation)),
                           ('rot_quat', lambda: Pose.from_quat(R_quat=P.rot_quat, t_vec=P.translation))):
            try:
                B = back()
                if far(B.rot_matrix, P.rot_matrix, 1e-7 if 'half' in tag else 1e-9):
                    ctx.witness('pose-views', 'rotation matrix rebuilt from the %s view differs' % name, inp, got=_flat(B.rot_matrix))
            except Exception as e:
                ctx.witness('pose-views', 'view %s raises %s' % (name, exc_enum(e)), inp)
        if math.sqrt(sum(c * c for c in rv)) < math.pi - 1e-6 and far(P.rot_vec, rv, 1e-7):
            ctx.witness('pose-views', 'rot_vec view differs from the rotation vector the pose was built from', inp, got=_flat(P.rot_vec))
        ctx.count('search:pose:' + tag)

    # (2b) pose VALUES do not depend on which other objects share their input arrays: random construction / sharing /
    # scale / compose histories on real Pose objects and real ndarrays; after EVERY event every Pose object and every
    # caller array must have the value the value-level specification gives it
    mats = [(rvec_to_matrix(rv), tag) for rv, tag in rvs[:40]]
    for trial in range(600 if thorough else 150):
        ev, tags = gen_history(rng, mats, rng.choice([4, 8, 14, 25]))
        real, twin = RealHeap(), ValueTwin()
        for t in tags:
            ctx.count('search:history:' + t)
        for n, e in enumerate(ev):
            try:
                real.step(e)
            except Exception as ex:
                ctx.witness('pose-history-raises', 'event raises %s' % exc_enum(ex), {'events': [list(x) for x in ev[:n + 1]]})
                break
            twin.step(e)
            (ro, rc), (to, tc) = real.observe(), twin.observe()
            bad = [('pose object %d' % i) for i, (x, y) in enumerate(zip(ro, to)) if far(x, y, 1e-12)] + \
                  [('caller array %d' % i) for i, (x, y) in enumerate(zip(rc, tc)) if far(x, y, 1e-12)]
            if bad:
                target = ('pose object %d' % e[1]) if e[0] == 'scale' else None
                others = [b for b in bad if b != target]
                ctx.witness('pose-aliasing' if others else 'pose-history-value',
                            'after event %d %s the value of %s is not what it was / what the event should produce: an operation on one '
                            'Pose (or on the caller\'s own array) changed another object' % (n, list(e[:2]), ', '.join(others or bad)),
                            {'events': [list(x) for x in ev[:n + 1]], 'changed': bad}, got=[ro[int(b.split()[-1])] for b in bad if b.startswith('pose')][:2],
                            want=[to[int(b.split()[-1])] for b in bad if b.startswith('pose')][:2])
                break
        ctx.count('search:history')

    # (3) the solver's vectorised projection equals the projection defined by the types, on the real code
    defs = Solution()
    rows = [(tuple(w['bs_params'][:3]), list(w['bs_params'][3:]), tuple(w['cf_params'][:3]), list(w['cf_params'][3:]),
             tuple(w['sensor']), 'underflow', 'corpus') for w in corpus()]
    rows = [r + ('corpus',) for r in rows] + exact_rows() + solver_rows(rng, rvs + UNDERFLOW, 4000 if thorough else 1000)
    bs_a = np.array([list(r[0]) + list(r[1]) for r in rows])
    cf_a = np.array([list(r[2]) + list(r[3]) for r in rows])
    se_a = np.array([r[4] for r in rows])
    with np.errstate(all='ignore'):
        got = Solver._calc_angle_pairs(bs_a, cf_a, se_a, defs)
    for i, (rb, tb, rc, tc, s, tagb, tagc, where) in enumerate(rows):
        # the types path: Pose.from_rot_vec -> rotate_translate -> inv_rotate_translate -> LighthouseBsVector.from_cart.
        # The two paths must return the same numbers wherever the sensor is: in front, beside or behind the base station.
        local = types_local(bs_a[i], cf_a[i], s)
        want = BsV.from_cart(local).lh_v1_angle_pair
        tols = pair_tolerances(local, where)
        under = 'underflow' in (tagb, tagc)
        ctx.count('search:solver:' + ('underflow' if under else 'zero' if 'identity' in (tagb, tagc) else 'other'))
        ctx.count('search:solver-where:' + where.split(':')[0])
        ctx.count('search:solver-atan2:' + ('x>0' if local[0] > 0 else 'x<0' if local[0] < 0 else 'x=0'))
        bad = [j for j in (0, 1) if not (abs(float(got[i][j]) - float(want[j])) <= tols[j])]     # NaN => bad
        if bad:
            ctx.witness('solver-vs-types-underflow' if under else 'solver-vs-types',
                        "solver's vectorised projection differs from the projection defined by Pose/LighthouseBsVector" +
                        (' (non-zero rotation vector whose squared norm underflows to 0)' if under else '') +
                        ' [sensor %s the base station]' % ('behind' if local[0] < 0 else 'beside' if local[0] == 0 else 'in front of'),
                        {'bs_params': _flat(bs_a[i]), 'cf_params': _flat(cf_a[i]), 'sensor': list(s), 'where': where,
                         'sensor_in_bs_frame': _flat(local)}, got=_flat(got[i]), want=list(want), tolerance=tols)

def replay(ctx, rp):
    """re-execute the witness of a replay file on the current tree; True = it STILL FAILS"""
    w = rp.get('witness') or {}
    inp = w.get('input') or {}
    np, Rotation, BsV, Pose, Solver, Solution, IppeCf = _mods()
    if 'bs_params' in inp:
        defs = Solution()
        bs_a, cf_a, se_a = np.array([inp['bs_params']]), np.array([inp['cf_params']]), np.array([inp['sensor']])
        with np.errstate(all='ignore'):
            got = Solver._calc_angle_pairs(bs_a, cf_a, se_a, defs)[0]
        local = types_local(bs_a[0], cf_a[0], se_a[0])
        want = BsV.from_cart(local).lh_v1_angle_pair
        tols = pair_tolerances(local, inp.get('where', ''))
        print('sensor in base-station frame:', _flat(local), 'solver:', _flat(got), 'types:', list(want))
        return any(not (abs(float(got[j]) - float(want[j])) <= tols[j]) for j in (0, 1))
    if 'events' in inp:
        real, twin = RealHeap(), ValueTwin()
        for e in inp['events']:
            e = tuple(e)
            real.step(e)
            twin.step(e)
        (ro, rc), (to, tc) = real.observe(), twin.observe()
        bad = [i for i, (x, y) in enumerate(zip(ro + rc, to + tc)) if not np.allclose(x, y, rtol=0, atol=1e-12)]
        print('history of %d events; values differing from the value-level specification:' % len(inp['events']), bad)
        return bool(bad)
    if rp.get('kind') == 'no-failing-input-found':
        print('nothing to replay: the file names the obligations that no longer check; run ./check C15:', [b.get('name') for b in rp.get('broken', [])])
        return False
    ctx2 = type(ctx)(PID, rp.get('tier', ctx.tier), int(rp.get('seed', ctx.seed)))
    search(ctx2)
    return any(x['key'] == w.get('key') for x in ctx2.witnesses) if w.get('key') else bool(ctx2.witnesses)

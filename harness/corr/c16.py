"""C16 - System alignment is rigid and exact; scaling is uniform (PARTIAL: optimiser convergence is validated, not proved).

Tie A: the aligner's residual construction (slices / indices / concatenation order), the least_squares call (function, start
vector size, max_nfev), the parameter split of _Pose_from_params, the two de-flip tests (index, comparison, flip rotation
vectors), align's loop, every store into non-local state, the Pose methods used (rotate_translate, rotate_translate_pose,
scale = rebind, constructor copies) and the scaler's expressions (factor, copy-then-scale comprehensions, diagonal index pairs,
deck normal, intersection formula) are re-extracted from the source into Gen/C16.lean.
Tie B: the Lean model instantiated with Float (Driver/C16.lean) vs numpy/scipy running the real classes: residual vector,
rotation-vector -> matrix, de-flip decisions and result, whole align (given the optimiser's answer, captured by a spy on
scipy.optimize.least_squares), scale_fixed_point, scale_diagonals, intersection points, and the object-graph (aliasing)
behaviour of _scale_system against the heap model.
search(): the property itself on the real code, end to end, for random rigid misalignments <= 30 deg / 3 m.
"""
import ast
import contextlib
import copy
import io
import json
import math
import os
import warnings

from harness.lib import extract as X
from harness.lib.common import VERIF, ExtractError, bits_f64, exc_enum, f64bits

PID = 'C16'
LEAN_TARGETS = ['CfVerif.Props.C16']
PROPS_MODULES = ['CfVerif.Props.C16']
DRIVER = 'Driver/C16.lean'
REQUIRED_THEOREMS = ['CfVerif.C16.' + t for t in (
    'align_applies_one_rigid_map', 'align_returns', 'align_raises', 'align_preserves_distances', 'align_preserves_relative_orientation',
    'residual_zero_iff_aligned', 'deflip_correct', 'align_exact_of_zero_residual', 'align_residual_bound', 'x_samples_on_positive_axis',
    'aligned_unique', 'align_recovers_true_alignment',
    'scale_uniform', 'scale_fixed_point_exact', 'scale_diagonals_exact', 'intersection_on_plane_and_ray',
    'scale_inputs_unmodified', 'scale_heap_refines_value', 'gen_pose_scale_rebinds', 'gen_aligner_pure', 'gen_diag_pairs_are_diagonals', 'gen_no_shared_state', 'align_calls_do_not_interfere', 'gen_pose_storage')]
TRUSTED = ['harness/corr/c16.py extractor + correspondence',
           'real numbers vs IEEE binary64: the theorems are about the model over R; the same definitions run over Float agree with numpy to 1e-11',
           'scipy Rotation.from_rotvec(v).as_matrix() = Rodrigues rotation (model: rotVecToMat; scipy uses a Taylor series of sin(t/2)/t below 1e-3 rad)',
           'numpy dot / mean / linalg.norm / concatenate / ravel on 3-vectors and 3x3 matrices as modelled (Mat3.mulVec, meanVec, Vec3.norm, list append)',
           'copy.copy(pose) = new object sharing both attribute references; ndarray * float allocates a new array (heap model)']
ASSUMPTIONS = ['NOT PROVED (validated by sampling only): scipy.optimize.least_squares reaches zero residual from the zero start within max_nfev=10 '
               'for every misalignment < 30 deg / 3 m; the unchanged code misses this in ~0.3 % of sampled in-domain cases (known finding D161)',
               'inputs are well-shaped: points are 3-vectors, poses hold a 3x3 matrix and a 3-vector, dict keys are ints',
               'LighthouseBsVector.cart (float32 unit vector from two angles) is an input of the model (property C15 covers it)']
RULE = ('correspondence cases = random rotation vectors (incl. 0, tiny, pi about axes, > pi), residual vectors for random parameters/sample sets '
        '(incl. wrong parameter counts), de-flip on arbitrary raw poses covering all four flip outcomes and both error branches (decision ties '
        'excluded), whole align with the optimiser answer captured by a spy (in-domain, noisy, and far out-of-domain mirror-flipped cases, empty '
        'sample / base-station sets), scale_fixed_point, scale_diagonals / mean diagonal (incl. unknown ids, short sensor lists, unequal list lengths), '
        'intersection points, and object-graph sharing patterns for _scale_system; non-trivial = distinct (kind, shape, first random value)')

ALIGNER = 'cflib/localization/lighthouse_system_aligner.py'
SCALER = 'cflib/localization/lighthouse_system_scaler.py'
TYPES = 'cflib/localization/lighthouse_types.py'


# ------------------------------------------------------------------------------------------------------
# Tie A
def _assigns(fn):
    """[(target text, value node)] for single-target assignments under fn, in source order"""
    nodes = sorted((n for n in ast.walk(fn) if isinstance(n, ast.Assign) and len(n.targets) == 1), key=lambda n: (n.lineno, n.col_offset))
    return [(ast.unparse(n.targets[0]), n.value) for n in nodes]


def _one(assigns, name, what):
    vs = [v for t, v in assigns if t == name]
    X.expect(len(vs) == 1, '%s: expected exactly one assignment to %s, found %d' % (what, name, len(vs)))
    return vs[0]


def _returns(fn):
    return [ast.unparse(n.value) if n.value is not None else 'None'
            for n in sorted((m for m in ast.walk(fn) if isinstance(m, ast.Return)), key=lambda m: (m.lineno, m.col_offset))]


def _stores(fn):
    """every write that is not a plain local-name binding: subscript / attribute stores, augmented assignments, del"""
    res = []
    for n in ast.walk(fn):
        if isinstance(n, (ast.Assign, ast.AnnAssign, ast.AugAssign)):
            tgts = n.targets if isinstance(n, ast.Assign) else [n.target]
            for t in tgts:
                for tt in ast.walk(t):
                    if isinstance(tt, (ast.Subscript, ast.Attribute)) and isinstance(tt.ctx, ast.Store):
                        res.append((n.lineno, n.col_offset, ast.unparse(tt)))
            if isinstance(n, ast.AugAssign):
                res.append((n.lineno, n.col_offset, 'aug:' + ast.unparse(n)))
        elif isinstance(n, ast.Delete):
            res.append((n.lineno, n.col_offset, 'del:' + ast.unparse(n)))
    return [s for _, _, s in sorted(res)]


def _calls_on_params(fn, names):
    """method calls whose receiver is (an expression rooted at) one of the parameter names: candidates for in-place mutation"""
    res = []
    for n in ast.walk(fn):
        if isinstance(n, ast.Call) and isinstance(n.func, ast.Attribute):
            root = n.func.value
            while isinstance(root, (ast.Attribute, ast.Subscript)):
                root = root.value
            if isinstance(root, ast.Name) and root.id in names:
                res.append((n.lineno, n.col_offset, ast.unparse(n.func)))
    return [s for _, _, s in sorted(res)]


def _int_const(n, what):
    try:
        v = ast.literal_eval(n)
    except Exception:
        raise ExtractError('%s: expected an integer literal, got %s' % (what, ast.unparse(n)))
    X.expect(isinstance(v, int) and not isinstance(v, bool) and v >= 0, '%s: expected a non-negative integer literal, got %s' % (what, ast.unparse(n)))
    return v


def _lambda_body(e, what):
    """e = list(map(lambda x: BODY, SRC)) -> (BODY node, arg name, SRC text)"""
    X.expect(isinstance(e, ast.Call) and ast.unparse(e.func) == 'list' and len(e.args) == 1, '%s: expected list(map(lambda ...)), got %s' % (what, ast.unparse(e)))
    m = e.args[0]
    X.expect(isinstance(m, ast.Call) and ast.unparse(m.func) == 'map' and len(m.args) == 2 and isinstance(m.args[0], ast.Lambda)
             and len(m.args[0].args.args) == 1, '%s: expected map(lambda x: ..., src), got %s' % (what, ast.unparse(m)))
    return m.args[0].body, m.args[0].args.args[0].arg, ast.unparse(m.args[1])


def _unit_axis(node, what):
    """a 3-tuple of float literals 0.0 with exactly one `np.pi` -> index of the np.pi entry (rotation by pi about that axis)"""
    X.expect(isinstance(node, ast.Tuple) and len(node.elts) == 3, '%s: expected a 3-tuple, got %s' % (what, ast.unparse(node)))
    idx = []
    for i, e in enumerate(node.elts):
        s = ast.unparse(e)
        if s in ('np.pi', 'math.pi', 'numpy.pi'):
            idx.append(i)
        else:
            X.expect(isinstance(e, ast.Constant) and isinstance(e.value, (int, float)) and not isinstance(e.value, bool) and float(e.value) == 0.0,
                     '%s: flip rotation vector entry %s is neither 0.0 nor pi' % (what, s))
    X.expect(len(idx) == 1, '%s: flip rotation vector %s is not pi about one coordinate axis' % (what, ast.unparse(node)))
    return idx[0]


def _flip_of_if(ifnode, what):
    """`if <expr>[i] < 0.0:` body = [flip = Pose.from_rot_vec(R_vec=(..pi..)); transformation = flip.rotate_translate_pose(transformation)]"""
    t = ifnode.test
    X.expect(isinstance(t, ast.Compare) and len(t.ops) == 1 and isinstance(t.left, ast.Subscript), '%s: unexpected de-flip test %s' % (what, ast.unparse(t)))
    idx = _int_const(t.left.slice, what + ' index')
    X.expect(not ifnode.orelse, '%s: de-flip if has an else branch' % what)
    body = _assigns(ifnode)
    X.expect(len(body) == 2 and len(ifnode.body) == 2, '%s: expected two assignments in the de-flip branch, got %d statements' % (what, len(ifnode.body)))
    (fname, fval), (tname, tval) = body
    X.expect(isinstance(fval, ast.Call) and ast.unparse(fval.func) == 'Pose.from_rot_vec' and not fval.args and
             [k.arg for k in fval.keywords] == ['R_vec'], '%s: flip is not Pose.from_rot_vec(R_vec=...): %s' % (what, ast.unparse(fval)))
    axis = _unit_axis(fval.keywords[0].value, what)
    X.expect(tname == 'transformation' and ast.unparse(tval) == '%s.rotate_translate_pose(transformation)' % fname,
             '%s: flip application changed: %s = %s' % (what, tname, ast.unparse(tval)))
    op = {ast.Lt: '<', ast.LtE: '<=', ast.Gt: '>', ast.GtE: '>=', ast.Eq: '==', ast.NotEq: '!='}.get(type(t.ops[0]), '?')
    return idx, axis, '%s %s %s' % (ast.unparse(t.left.value), op, ast.unparse(t.comparators[0]))


def _nat_floats(node, what):
    X.expect(isinstance(node, ast.Tuple), '%s: expected a tuple literal, got %s' % (what, ast.unparse(node)))
    out = []
    for e in node.elts:
        X.expect(isinstance(e, ast.Constant) and isinstance(e.value, (int, float)) and not isinstance(e.value, bool)
                 and float(e.value) >= 0 and float(e.value) == int(e.value), '%s: entry %s is not a small non-negative integer-valued literal' % (what, ast.unparse(e)))
        out.append(int(e.value))
    return out

_BUILTINS = set(dir(__import__('builtins')))


def _class_state(cls):
    """statements in a class body that are not methods, docstrings or `pass`: class-level (shared) state"""
    out = []
    for n in cls.body:
        if isinstance(n, (ast.FunctionDef, ast.AsyncFunctionDef, ast.Pass)):
            continue
        if isinstance(n, ast.Expr) and isinstance(n.value, ast.Constant) and isinstance(n.value.value, str):
            continue
        out.append(ast.unparse(n).split('\n')[0][:120])
    return out


def _module_state(tree):
    """module-level statements other than imports, class/def, docstrings: module-level (shared) state"""
    out = []
    for n in tree.body:
        if isinstance(n, (ast.Import, ast.ImportFrom, ast.ClassDef, ast.FunctionDef, ast.AsyncFunctionDef)):
            continue
        if isinstance(n, ast.Expr) and isinstance(n.value, ast.Constant) and isinstance(n.value.value, str):
            continue
        out.append(ast.unparse(n).split('\n')[0][:120])
    return out


def _module_names(tree):
    """names a module binds at top level by import / class / def (the only legitimate free names of a method besides builtins)"""
    out = set()
    for n in tree.body:
        if isinstance(n, ast.Import):
            out |= {(a.asname or a.name).split('.')[0] for a in n.names}
        elif isinstance(n, ast.ImportFrom):
            out |= {a.asname or a.name for a in n.names}
        elif isinstance(n, (ast.ClassDef, ast.FunctionDef)):
            out.add(n.name)
    return out


def _shared_state_uses(tree, cls):
    """per method of `cls`: everything through which it could communicate with another call other than its arguments, locals and
    return value.  Returns sorted strings:
      'm: global x' / 'm: nonlocal x'            declarations
      'm: store cls.x' / 'm: store <attr/subscript rooted at a non-local>'   writes to class / module / foreign objects
      'm: read cls.x'                            reads of class attributes that are not methods of the class
      'm: free x'                                names read that are neither parameters, locals, builtins nor module imports/classes"""
    methods = {f.name for f in cls.body if isinstance(f, (ast.FunctionDef, ast.AsyncFunctionDef))}
    modnames = _module_names(tree)
    out = []
    for f in cls.body:
        if not isinstance(f, (ast.FunctionDef, ast.AsyncFunctionDef)):
            continue
        bound = set()
        for n in ast.walk(f):
            if isinstance(n, ast.arg):
                bound.add(n.arg)
            elif isinstance(n, ast.Name) and isinstance(n.ctx, (ast.Store, ast.Del)):
                bound.add(n.id)
            elif isinstance(n, (ast.Global, ast.Nonlocal)):
                out.append('%s: %s %s' % (f.name, 'global' if isinstance(n, ast.Global) else 'nonlocal', ','.join(n.names)))
        selfish = {a.arg for a in f.args.args[:1]} if f.args.args else set()     # cls / self
        for n in ast.walk(f):
            if isinstance(n, ast.Attribute) and isinstance(n.value, ast.Name) and n.value.id in selfish and n.value.id == 'cls':
                if isinstance(n.ctx, (ast.Store, ast.Del)):
                    out.append('%s: store cls.%s' % (f.name, n.attr))
                elif n.attr not in methods:
                    out.append('%s: read cls.%s' % (f.name, n.attr))
            elif isinstance(n, (ast.Attribute, ast.Subscript)) and isinstance(n.ctx, (ast.Store, ast.Del)):
                root = n
                while isinstance(root, (ast.Attribute, ast.Subscript)):
                    root = root.value
                if not (isinstance(root, ast.Name) and root.id in bound and root.id not in selfish and root.id not in {a.arg for a in f.args.args}):
                    # a store into something that is not a local created by this call (argument objects, class, module objects)
                    out.append('%s: store %s' % (f.name, ast.unparse(n)))
            elif isinstance(n, ast.Name) and isinstance(n.ctx, ast.Load) and n.id not in bound and n.id not in _BUILTINS and n.id not in modnames:
                out.append('%s: free %s' % (f.name, n.id))
    return sorted(set(out))


def extract(ctx):
    g = X.GenFile(PID, [ALIGNER, SCALER, TYPES])
    at = X.parse(ALIGNER)
    A = X.find(at, 'LighthouseSystemAligner')

    # ---- _find_transformation: the optimiser call
    ft = X.find(A, '_find_transformation')
    fa = _assigns(ft)
    x0 = _one(fa, 'x0', '_find_transformation')
    X.expect(isinstance(x0, ast.Call) and ast.unparse(x0.func) in ('np.zeros', 'numpy.zeros') and len(x0.args) == 1,
             '_find_transformation: x0 is not np.zeros(n): ' + ast.unparse(x0))
    g.nat('nParams', _int_const(x0.args[0], '_find_transformation x0'))
    g.string('lsqArgs', ast.unparse(_one(fa, 'args', '_find_transformation')))
    res = _one(fa, 'result', '_find_transformation')
    X.expect(isinstance(res, ast.Call) and ast.unparse(res.func).endswith('least_squares') and len(res.args) == 2,
             '_find_transformation: result is not least_squares(fun, x0, ...): ' + ast.unparse(res))
    g.strings('lsqPositional', [ast.unparse(a) for a in res.args])
    kw = {k.arg: k.value for k in res.keywords}
    X.expect('max_nfev' in kw and 'args' in kw, '_find_transformation: least_squares call lost max_nfev= / args=')
    g.nat('maxNfev', _int_const(kw['max_nfev'], 'max_nfev'))
    g.string('lsqArgsKw', ast.unparse(kw['args']))
    g.strings('findReturns', _returns(ft))

    # ---- _Pose_from_params: split of the parameter vector
    pp = X.find(A, '_Pose_from_params')
    rets = [n for n in ast.walk(pp) if isinstance(n, ast.Return)]
    X.expect(len(rets) == 1 and isinstance(rets[0].value, ast.Call) and ast.unparse(rets[0].value.func) == 'Pose.from_rot_vec',
             '_Pose_from_params: expected `return Pose.from_rot_vec(...)`')
    pk = {k.arg: k.value for k in rets[0].value.keywords}
    X.expect(not rets[0].value.args and sorted(pk) == ['R_vec', 't_vec'], '_Pose_from_params: expected keywords R_vec=, t_vec=')
    rv, tv = pk['R_vec'], pk['t_vec']
    X.expect(isinstance(rv, ast.Subscript) and isinstance(rv.slice, ast.Slice) and ast.unparse(rv.value) == 'params' and rv.slice.lower is None
             and rv.slice.step is None and rv.slice.upper is not None, '_Pose_from_params: R_vec is not params[:k]: ' + ast.unparse(rv))
    X.expect(isinstance(tv, ast.Subscript) and isinstance(tv.slice, ast.Slice) and ast.unparse(tv.value) == 'params' and tv.slice.upper is None
             and tv.slice.step is None and tv.slice.lower is not None, '_Pose_from_params: t_vec is not params[k:]: ' + ast.unparse(tv))
    g.nat('rotHi', _int_const(rv.slice.upper, 'R_vec slice'))
    g.nat('transLo', _int_const(tv.slice.lower, 't_vec slice'))

    # ---- _calc_residual
    cr = X.find(A, '_calc_residual')
    ca = _assigns(cr)
    g.strings('residualFlow', ['%s = %s' % (n, ast.unparse(_one(ca, n, '_calc_residual'))) for n in
                               ('transform', 'origin_diff', 'x_axis_diff', 'xy_plane_diff', 'residual_origin')])
    body, arg, src = _lambda_body(_one(ca, 'x_axis_residual', '_calc_residual'), 'x_axis_residual')
    X.expect(isinstance(body, ast.Subscript) and isinstance(body.slice, ast.Slice) and ast.unparse(body.value) == arg and body.slice.step is None
             and body.slice.lower is not None and body.slice.upper is not None, 'x_axis_residual: lambda body is not x[a:b]: ' + ast.unparse(body))
    g.nat('xSliceLo', _int_const(body.slice.lower, 'x_axis_residual slice'))
    g.nat('xSliceHi', _int_const(body.slice.upper, 'x_axis_residual slice'))
    g.string('xResidualSrc', src)
    body, arg, src = _lambda_body(_one(ca, 'xy_plane_residual', '_calc_residual'), 'xy_plane_residual')
    X.expect(isinstance(body, ast.Subscript) and not isinstance(body.slice, ast.Slice) and ast.unparse(body.value) == arg,
             'xy_plane_residual: lambda body is not x[i]: ' + ast.unparse(body))
    g.nat('planeIdx', _int_const(body.slice, 'xy_plane_residual index'))
    g.string('planeResidualSrc', src)
    rs = _one(ca, 'residual', '_calc_residual')
    X.expect(isinstance(rs, ast.Call) and ast.unparse(rs.func) in ('np.concatenate', 'numpy.concatenate') and len(rs.args) == 1
             and isinstance(rs.args[0], ast.Tuple), '_calc_residual: residual is not np.concatenate((...)): ' + ast.unparse(rs))
    g.strings('residualParts', [ast.unparse(e) for e in rs.args[0].elts])
    g.strings('residualReturns', _returns(cr))

    # ---- _de_flip_transformation
    df = X.find(A, '_de_flip_transformation')
    ifs = [n for n in df.body if isinstance(n, ast.If)]
    X.expect(len(ifs) == 2 and not any(isinstance(n, (ast.For, ast.While, ast.Try)) for n in ast.walk(df)),
             '_de_flip_transformation: expected exactly two top-level if statements and no loops')
    top = [(t, v) for t, v in _assigns(df) if not any(v is vv for i in ifs for _, vv in _assigns(i))]
    g.strings('deflipFlow', ['%s = %s' % (t, ast.unparse(v)) for t, v in top])
    i1, a1, t1 = _flip_of_if(ifs[0], 'de-flip 1')
    i2, a2, t2 = _flip_of_if(ifs[1], 'de-flip 2')
    g.nat('deflip1Idx', i1)
    g.nat('flip1Axis', a1)
    g.string('deflip1Test', t1)
    g.nat('deflip2Idx', i2)
    g.nat('flip2Axis', a2)
    g.string('deflip2Test', t2)
    g.strings('deflipReturns', _returns(df))

    # ---- align
    al = X.find(A, 'align')
    g.strings('alignFlow', ['%s = %s' % (t, ast.unparse(v)) for t, v in _assigns(al)])
    loops = [n for n in ast.walk(al) if isinstance(n, (ast.For, ast.While))]
    X.expect(len(loops) == 1 and isinstance(loops[0], ast.For), 'align: expected exactly one for loop')
    g.string('alignLoop', 'for %s in %s' % (ast.unparse(loops[0].target), ast.unparse(loops[0].iter)))
    g.strings('alignReturns', _returns(al))
    # writes to anything that is not a local name, anywhere in the aligner class; method calls on the arguments
    g.strings('alignerStores', _stores(A))
    g.strings('alignerCallsOnInputs', sorted(set(_calls_on_params(A, {'origin', 'x_axis', 'xy_plane', 'bs_poses'}))))

    # ---- no shared state: nothing through which two calls in flight could communicate
    g.strings('alignerClassState', _class_state(A))
    g.strings('alignerModuleState', _module_state(at))
    g.strings('alignerSharedStateUses', _shared_state_uses(at, A))
    g.strings('calcResidualParams', [a.arg for a in cr.args.args])
    g.strings('findTransformationParams', [a.arg for a in ft.args.args])

    # ---- Pose (the methods the two classes use)
    tt = X.parse(TYPES)
    P = X.find(tt, 'Pose')
    g.strings('poseInit', ['%s = %s' % (t, ast.unparse(v)) for t, v in _assigns(X.find(P, '__init__'))])
    g.strings('poseFromRotVec', _returns(X.find(P, 'from_rot_vec')))
    g.strings('poseAccessors', _returns(X.find(P, 'rot_matrix')) + _returns(X.find(P, 'translation')))
    g.strings('poseRotateTranslate', _returns(X.find(P, 'rotate_translate')))
    rtp = X.find(P, 'rotate_translate_pose')
    g.strings('poseRotateTranslatePose', ['%s = %s' % (t, ast.unparse(v)) for t, v in _assigns(rtp)] + _returns(rtp))
    sc = X.find(P, 'scale')
    stmts = [n for n in sc.body if not (isinstance(n, ast.Expr) and isinstance(n.value, ast.Constant))]   # drop the docstring
    g.strings('poseScale', [ast.unparse(n) for n in stmts])
    # how Pose stores its arrays: conversion call, source and dtype argument of every attribute assignment in __init__
    conv = []
    for t, v in _assigns(X.find(P, '__init__')):
        if isinstance(v, ast.Call):
            dt = [ast.unparse(k.value) for k in v.keywords if k.arg == 'dtype'] + [ast.unparse(a) for a in v.args[1:2]]
            conv.append('%s <- %s(%s) dtype=%s' % (t, ast.unparse(v.func), ast.unparse(v.args[0]) if v.args else '', dt[0] if dt else 'as-given'))
        else:
            conv.append('%s <- %s (no conversion)' % (t, ast.unparse(v)))
    g.strings('poseStorage', conv)
    # the one statement of scale: which kind of target it writes (attribute rebind / slice or element write / augmented), and what
    X.expect(len(stmts) == 1, 'Pose.scale: expected exactly one statement, found %d' % len(stmts))
    st0 = stmts[0]
    if isinstance(st0, ast.Assign) and len(st0.targets) == 1:
        tg = st0.targets[0]
        kind = 'rebind-attribute' if isinstance(tg, ast.Attribute) else ('write-through-subscript' if isinstance(tg, ast.Subscript) else 'other')
        g.strings('poseScaleKind', [kind, ast.unparse(tg), ast.unparse(st0.value)])
    elif isinstance(st0, ast.AugAssign):
        g.strings('poseScaleKind', ['augmented-in-place', ast.unparse(st0.target), ast.unparse(st0.value)])
    else:
        g.strings('poseScaleKind', ['other', ast.unparse(st0), ''])
    g.strings('poseStores', sorted(set('%s: %s' % (f.name, s) for f in P.body if isinstance(f, ast.FunctionDef) and f.name != '__init__' for s in _stores(f))))

    # ---- deck sensor layout: which corner (sign of x, sign of y) each sensor index is
    D = X.find(tt, 'LhDeck4SensorPositions')
    pos = [n.value for n in D.body if isinstance(n, ast.Assign) and len(n.targets) == 1 and ast.unparse(n.targets[0]) == 'positions']
    X.expect(len(pos) == 1 and isinstance(pos[0], ast.Call) and pos[0].args and isinstance(pos[0].args[0], (ast.List, ast.Tuple)),
             'LhDeck4SensorPositions.positions is not np.array([...])')
    signs = []
    for row in pos[0].args[0].elts:
        X.expect(isinstance(row, (ast.Tuple, ast.List)) and len(row.elts) == 3, 'sensor position is not a 3-tuple: ' + ast.unparse(row))
        sg = []
        for e, nm in zip(row.elts[:2], ('_sensor_distance_length', '_sensor_distance_width')):
            neg = isinstance(e, ast.BinOp) and isinstance(e.left, ast.UnaryOp) and isinstance(e.left.op, ast.USub)
            core = ast.unparse(e.left.operand if neg else (e.left if isinstance(e, ast.BinOp) else e))
            X.expect(isinstance(e, ast.BinOp) and isinstance(e.op, ast.Div) and core == nm and ast.unparse(e.right) == '2',
                     'sensor coordinate is not +-%s / 2: %s' % (nm, ast.unparse(e)))
            sg.append(-1 if neg else 1)
        X.expect(ast.unparse(row.elts[2]) == '0.0', 'sensor z is not 0.0: ' + ast.unparse(row.elts[2]))
        signs.append(tuple(sg))
    g.raw('def sensorCorners : List (Int × Int) := [' + ', '.join('(%d, %d)' % sg for sg in signs) + ']')

    # ---- scaler
    S = X.find(X.parse(SCALER), 'LighthouseSystemScaler')
    fp = X.find(S, 'scale_fixed_point')
    g.strings('fixedPointFlow', ['%s = %s' % (t, ast.unparse(v)) for t, v in _assigns(fp)] + _returns(fp))
    sd = X.find(S, 'scale_diagonals')
    g.strings('diagonalsFlow', ['%s = %s' % (t, ast.unparse(v)) for t, v in _assigns(sd)] + _returns(sd))
    ss = X.find(S, '_scale_system')
    g.strings('scaleSystemFlow', ['%s = %s' % (t, ast.unparse(v)) for t, v in _assigns(ss)] + _returns(ss))
    g.strings('scaleSystemLoops', ['for %s in %s: %s' % (ast.unparse(n.target), ast.unparse(n.iter), '; '.join(ast.unparse(b) for b in n.body))
                                   for n in sorted((m for m in ast.walk(ss) if isinstance(m, ast.For)), key=lambda m: m.lineno)])
    g.strings('scalerStores', _stores(S))
    st = X.parse(SCALER)
    g.strings('scalerClassState', _class_state(S))
    g.strings('scalerModuleState', _module_state(st))
    g.strings('scalerSharedStateUses', _shared_state_uses(st, S))
    md = X.find(S, '_calculate_mean_diagonal')
    g.strings('meanDiagonalLoops', ['for %s in %s' % (ast.unparse(n.target), ast.unparse(n.iter))
                                    for n in sorted((m for m in ast.walk(md) if isinstance(m, ast.For)), key=lambda m: m.lineno)])
    apps = sorted((n for n in ast.walk(md) if isinstance(n, ast.Call) and ast.unparse(n.func) == 'diagonals.append'), key=lambda n: n.lineno)
    X.expect(len(apps) >= 1, '_calculate_mean_diagonal: no diagonals.append(...)')
    pairs, rest = [], []
    for a in apps:
        X.expect(len(a.args) == 1 and isinstance(a.args[0], ast.Call) and ast.unparse(a.args[0].func) == 'cls.calc_intersection_distance'
                 and len(a.args[0].args) == 4, '_calculate_mean_diagonal: unexpected append ' + ast.unparse(a))
        v1, v2, b, c = a.args[0].args
        for v in (v1, v2):
            X.expect(isinstance(v, ast.Subscript) and ast.unparse(v.value) == 'vectors', '_calculate_mean_diagonal: sensor argument is not vectors[i]: ' + ast.unparse(v))
        pairs.append((_int_const(v1.slice, 'sensor index'), _int_const(v2.slice, 'sensor index')))
        rest.append('%s, %s' % (ast.unparse(b), ast.unparse(c)))
    g.raw('def diagPairs : List (Nat × Nat) := [' + ', '.join('(%d, %d)' % p for p in pairs) + ']')
    g.strings('diagPoseArgs', rest)
    g.strings('meanDiagonalFlow', ['%s = %s' % (t, ast.unparse(v)) for t, v in _assigns(md) if t == 'estimated_diagonal'] + _returns(md))
    cd = X.find(S, 'calc_intersection_distance')
    g.strings('intersectionDistanceFlow', ['%s = %s' % (t, ast.unparse(v)) for t, v in _assigns(cd)] + _returns(cd))
    ci = X.find(S, 'calc_intersection_point')
    cia = _assigns(ci)
    pn = _one(cia, 'plane_normal', 'calc_intersection_point')
    X.expect(isinstance(pn, ast.Call) and ast.unparse(pn.func) in ('np.dot', 'numpy.dot') and len(pn.args) == 2 and ast.unparse(pn.args[0]) == 'cf_pose.rot_matrix',
             'calc_intersection_point: plane_normal is not np.dot(cf_pose.rot_matrix, (...)): ' + ast.unparse(pn))
    g.nats('deckNormal', _nat_floats(pn.args[1], 'deck normal'))
    g.strings('intersectionFlow', ['%s = %s' % (t, ast.unparse(v)) for t, v in cia if t != 'plane_normal'] + _returns(ci))
    return {'C16.lean': g.render()}


# ------------------------------------------------------------------------------------------------------
# real code access
def _np():
    import logging
    logging.disable(logging.CRITICAL)
    warnings.filterwarnings('ignore')
    import numpy as np
    np.seterr(all='ignore')
    return np


def _mods():
    np = _np()
    with contextlib.redirect_stdout(io.StringIO()), contextlib.redirect_stderr(io.StringIO()):
        from cflib.localization.lighthouse_bs_vector import LighthouseBsVector
        from cflib.localization.lighthouse_system_aligner import LighthouseSystemAligner
        from cflib.localization.lighthouse_system_scaler import LighthouseSystemScaler
        from cflib.localization.lighthouse_types import LhCfPoseSample, Pose
    return np, LighthouseSystemAligner, LighthouseSystemScaler, Pose, LhCfPoseSample, LighthouseBsVector


class LsqSpy:
    """records the calls of scipy.optimize.least_squares made by the code under test (library boundary; behaviour unchanged)"""

    def __init__(self):
        self.calls = []

    def __enter__(self):
        import scipy.optimize
        self.mod = scipy.optimize
        self.orig = scipy.optimize.least_squares
        spy = self

        def wrapped(fun, x0, *a, **kw):
            r = spy.orig(fun, x0, *a, **kw)
            spy.calls.append({'fun': fun, 'x0': [float(v) for v in x0], 'kw': dict(kw), 'x': [float(v) for v in r.x], 'status': int(r.status),
                              'nfev': int(r.nfev), 'cost': float(r.cost)})
            return r
        scipy.optimize.least_squares = wrapped
        return self

    def __exit__(self, *a):
        self.mod.least_squares = self.orig


# ---- line protocol encoding ----------------------------------------------------------------------------
def fl(xs):
    xs = [float(v) for v in xs]
    return ','.join(str(f64bits(v)) for v in xs) if xs else '-'


def enc_vecs(vs):
    return fl([c for v in vs for c in v])


def enc_pose(p):
    return fl(list(p.rot_matrix.flatten()) + list(p.translation))


def enc_bs(d):
    return ';'.join('%d:%s' % (k, enc_pose(p)) for k, p in d.items()) if d else '-'


def enc_poses(l):
    return ';'.join(enc_pose(p) for p in l) if l else '-'


def enc_samples(samples):
    """samples: list of dict bs_id -> list of cart vectors"""
    if not samples:
        return '-'
    return '/'.join('+'.join('%d=%s' % (k, enc_vecs(vs)) for k, vs in s.items()) if s else '_' for s in samples)


def exc_line(e):
    return 'err ' + exc_enum(e)


_TOK = __import__('re').compile(r'(\d+)')


def approx_same(a, b, tol):
    """compare two reply lines: identical structure; numeric tokens equal, or (when at least one looks like a binary64 bit
    pattern) equal as floats within abs/rel `tol`; nan == nan, inf == inf"""
    ta, tb = _TOK.split(a), _TOK.split(b)
    if len(ta) != len(tb):
        return False
    for i, (x, y) in enumerate(zip(ta, tb)):
        if i % 2 == 0:
            if x != y:
                return False
            continue
        if x == y:
            continue
        if len(x) < 15 and len(y) < 15:
            return False        # two small integers (ids, counts, flags) must be identical; only bit patterns are compared as floats
        fx, fy = bits_f64(int(x)), bits_f64(int(y))
        if math.isnan(fx) or math.isnan(fy):
            if not (math.isnan(fx) and math.isnan(fy)):
                return False
            continue
        if math.isinf(fx) or math.isinf(fy):
            if fx != fy:
                return False
            continue
        if abs(fx - fy) > tol * max(1.0, abs(fx), abs(fy)):
            return False
    return True


# ---- generators (every choice from ctx.rng) ----------------------------------------------------------------
def rand_unit(rng):
    while True:
        v = [rng.gauss(0, 1) for _ in range(3)]
        n = math.sqrt(sum(c * c for c in v))
        if n > 1e-3:
            return [c / n for c in v]


def rand_rotvec(rng, maxdeg=180.0):
    kind = rng.random()
    if kind < 0.05:
        return [0.0, 0.0, 0.0]
    if kind < 0.12:
        ang = rng.choice([1e-12, 1e-9, 1e-6, 1e-4, 9.99e-4, 1e-3, 1.001e-3, 2e-3])
    elif kind < 0.2:
        ang = min(math.radians(maxdeg), math.pi * rng.choice([1.0, 0.5, 0.999999, 1.000001]))
    else:
        ang = math.radians(rng.uniform(0, maxdeg))
    if rng.random() < 0.15:
        ax = [0.0, 0.0, 0.0]
        ax[rng.randrange(3)] = rng.choice([1.0, -1.0])
    else:
        ax = rand_unit(rng)
    return [c * ang for c in ax]


def rand_vec(rng, r=3.0):
    return [rng.uniform(-r, r) for _ in range(3)]


def rand_pose(rng, Pose, maxdeg=180.0, r=3.0, zmin=None):
    t = rand_vec(rng, r)
    if zmin is not None:
        t[2] = rng.uniform(zmin, r)
    return Pose.from_rot_vec(R_vec=rand_rotvec(rng, maxdeg), t_vec=t)


VALUE_CLASSES = ('float64', 'int-tuple', 'int-list', 'int64-array', 'int32-array', 'float32-array', 'whole-float', 'mixed')


def in_class(rng, np, v, cls, nonzero=False):
    """the 3-vector `v` re-expressed in a value/dtype class a caller may legitimately hand to Pose / align / scale_*:
    whole numbers as python ints (tuple / list / int ndarray), whole-number floats, float32 ndarray, mixed scalars.
    Integer classes round the value (the VALUE then is the rounded one; expectations are computed from what is returned)."""
    w = [int(round(float(c))) for c in v]
    if nonzero and all(c == 0 for c in w):
        w[rng.randrange(3)] = rng.choice([-2, -1, 1, 2, 3])
    if cls == 'int-tuple':
        return tuple(w)
    if cls == 'int-list':
        return list(w)
    if cls == 'int64-array':
        return np.array(w, dtype=np.int64)
    if cls == 'int32-array':
        return np.array(w, dtype=np.int32)
    if cls == 'whole-float':
        return tuple(float(c) for c in w)
    if cls == 'float32-array':
        return np.array([float(c) for c in v], dtype=np.float32)
    if cls == 'mixed':
        return (w[0], float(v[1]), np.float32(v[2]))
    return np.array([float(c) for c in v], dtype=np.float64)


def rand_int_rotation(rng):
    """a proper rotation with integer entries (signed permutation matrix of determinant +1), as nested python int lists"""
    while True:
        perm = rng.sample(range(3), 3)
        sg = [rng.choice([1, -1]) for _ in range(3)]
        m = [[sg[i] if perm[i] == j else 0 for j in range(3)] for i in range(3)]
        det = (m[0][0] * (m[1][1] * m[2][2] - m[1][2] * m[2][1]) - m[0][1] * (m[1][0] * m[2][2] - m[1][2] * m[2][0])
               + m[0][2] * (m[1][0] * m[2][1] - m[1][1] * m[2][0]))
        if det == 1:
            return m


def rand_pose_in_class(rng, np, Pose, cls=None, r=3.0, zmin=None):
    """a Pose built through the public constructor from data of the given value class (translation) and a rotation that is
    float64, float32 or integer-valued"""
    cls = cls or rng.choice(VALUE_CLASSES)
    base = rand_pose(rng, Pose, r=r, zmin=zmin)
    rk = rng.choice(['float64', 'float64', 'float32', 'int'])
    R = base.rot_matrix if rk == 'float64' else (base.rot_matrix.astype(np.float32) if rk == 'float32' else rand_int_rotation(rng))
    return Pose(R_matrix=R, t_vec=in_class(rng, np, base.translation, cls, nonzero=True)), cls, rk


def f64(np, a):
    return np.asarray(a, dtype=np.float64)


def scenario_in_class(rng, Pose, np):
    """reference samples and base stations whose coordinates are whole numbers handed over as ints / int arrays / whole floats
    (misalignment = a whole-number offset, <= 3 m, no rotation), or a general <= 30 deg scenario handed over as float32 arrays"""
    if rng.random() < 0.3:
        sc = scenario(rng, Pose, np, min_off=0.3)
        c32 = lambda v: np.array(v, dtype=np.float32)
        sc['origin'], sc['xs'], sc['pl'] = c32(sc['origin']), [c32(x) for x in sc['xs']], [c32(x) for x in sc['pl']]
        sc['bs'] = {k: Pose(R_matrix=p.rot_matrix, t_vec=c32(p.translation)) for k, p in sc['bs'].items()}
        sc['noise'] = 1e-6          # float32 rounding of the samples: consistent only to ~1e-7 relative
        sc['value_class'] = 'float32-array'
        return sc
    cls = rng.choice(['int-tuple', 'int-list', 'int64-array', 'int32-array', 'whole-float'])
    while True:
        off = [rng.randrange(-2, 3) for _ in range(3)]
        if 0 < sum(c * c for c in off) <= 9:
            break
    mk = lambda v: in_class(rng, np, v, cls)
    add = lambda v: [a + b for a, b in zip(v, off)]
    xs_w = [[rng.randrange(1, 4), 0, 0] for _ in range(rng.choice([1, 2]))]
    pl_w = [[rng.randrange(-3, 4), rng.choice([-3, -2, -1, 1, 2, 3]), 0] for _ in range(rng.choice([1, 2, 4]))]
    bs_w, bs = {}, {}
    for i in rng.sample(range(16), rng.choice([1, 2, 3])):
        pos = [rng.randrange(-4, 5), rng.randrange(-4, 5), rng.randrange(1, 4)]
        R = rand_int_rotation(rng) if rng.random() < 0.5 else rand_pose(rng, Pose).rot_matrix
        bs_w[i] = Pose(R_matrix=R, t_vec=[float(c) for c in pos])
        bs[i] = Pose(R_matrix=R, t_vec=mk(add(pos)))
    origin = mk(off)
    return {'M': Pose(t_vec=[float(c) for c in off]), 'angle_deg': 0.0, 'trans': math.sqrt(sum(c * c for c in off)), 'origin': origin,
            'xs': [mk(add(p)) for p in xs_w], 'pl': [mk(add(p)) for p in pl_w], 'bs': bs, 'bs_w': bs_w,
            'xs_w': [np.array(p, dtype=float) for p in xs_w], 'pl_w': [np.array(p, dtype=float) for p in pl_w], 'noise': 0.0,
            'max_off': max(abs(p[1]) for p in pl_w), 'value_class': cls}


def scenario(rng, Pose, np, maxdeg=30.0, maxt=3.0, noise=0.0, min_off=0.0):
    """a solved system misaligned by a rigid motion M (world -> current frame): reference samples and base stations"""
    ang = math.radians(rng.uniform(0, maxdeg)) if rng.random() > 0.1 else math.radians(maxdeg) * rng.choice([0.0, 0.5, 0.999])
    ax = rand_unit(rng)
    tl = rng.uniform(0, maxt) if rng.random() > 0.1 else maxt * rng.choice([0.0, 0.999])
    M = Pose.from_rot_vec(R_vec=[c * ang for c in ax], t_vec=[c * tl for c in rand_unit(rng)])
    nx = rng.choice([1, 1, 2, 3, 5])
    npl = rng.choice([1, 1, 2, 3, 5, 8])
    xs_w = [np.array([rng.uniform(0.2, 3.0), 0.0, 0.0]) for _ in range(nx)]
    pl_w = []
    for _ in range(npl):
        while True:
            p = np.array([rng.uniform(-3, 3), rng.uniform(-3, 3), 0.0])
            if abs(p[1]) >= min_off:
                break
        pl_w.append(p)

    def nz():
        return np.array([rng.gauss(0, noise) for _ in range(3)]) if noise else np.zeros(3)
    origin = M.rotate_translate(np.zeros(3)) + nz()
    xs = [M.rotate_translate(p) + nz() for p in xs_w]
    pl = [M.rotate_translate(p) + nz() for p in pl_w]
    nb = rng.choice([1, 2, 2, 4, 6])
    ids = rng.sample(range(16), nb)
    bs_w = {i: Pose.from_rot_vec(R_vec=rand_rotvec(rng), t_vec=(rng.uniform(-4, 4), rng.uniform(-4, 4), rng.uniform(0.3, 3.5))) for i in ids}
    bs = {i: M.rotate_translate_pose(p) for i, p in bs_w.items()}
    off = max(abs(p[1]) for p in pl_w)
    return {'M': M, 'angle_deg': math.degrees(ang), 'trans': tl, 'origin': origin, 'xs': xs, 'pl': pl, 'bs': bs, 'bs_w': bs_w,
            'xs_w': xs_w, 'pl_w': pl_w, 'noise': noise, 'max_off': off}


# ---- real-code runners -------------------------------------------------------------------------------------
def real_rotvec(v):
    np, A, S, Pose, _, _ = _mods()
    try:
        return 'ok ' + enc_pose(Pose.from_rot_vec(R_vec=v))
    except Exception as e:
        return exc_line(e)


def real_residual(params, origin, xs, pl):
    np, A, S, Pose, _, _ = _mods()
    try:
        r = A._calc_residual(np.array(params, dtype=float), origin, xs, pl)
        return 'ok ' + fl(list(r))
    except Exception as e:
        return exc_line(e)


def real_deflip(raw, xs, bs):
    np, A, S, Pose, _, _ = _mods()
    try:
        return 'ok ' + enc_pose(A._de_flip_transformation(raw, xs, bs))
    except Exception as e:
        return exc_line(e)


def real_align(origin, xs, pl, bs):
    """returns (reply line, captured optimiser call or None)"""
    np, A, S, Pose, _, _ = _mods()
    with LsqSpy() as spy:
        try:
            res, T = A.align(origin, xs, pl, bs)
            line = 'ok %s %s' % (enc_pose(T), enc_bs(res))
        except Exception as e:
            line = exc_line(e)
    return line, (spy.calls[0] if len(spy.calls) == 1 else None), len(spy.calls)


def fmt_scaled(r):
    return 'ok %s %s %s' % (fl([r[2]]), enc_bs(r[0]), enc_poses(r[1]))


def real_scalefp(bs, cf, expected, actual):
    np, A, S, Pose, _, _ = _mods()
    try:
        return fmt_scaled(S.scale_fixed_point(bs, cf, expected, actual))
    except Exception as e:
        return exc_line(e)


def mk_samples(samples):
    np, A, S, Pose, LhCfPoseSample, LighthouseBsVector = _mods()

    class V:     # a LighthouseBsVector seen through the only attribute the scaler reads
        def __init__(self, cart):
            self.cart = np.array(cart, dtype=np.float32)
    return [LhCfPoseSample(angles_calibrated={k: [V(c) for c in vs] for k, vs in s.items()}) for s in samples]


def real_scalediag(bs, cf, samples, expected):
    np, A, S, Pose, _, _ = _mods()
    try:
        return fmt_scaled(S.scale_diagonals(bs, cf, mk_samples(samples), expected))
    except Exception as e:
        return exc_line(e)


def real_meandiag(bs, cf, samples):
    np, A, S, Pose, _, _ = _mods()
    try:
        return 'ok ' + fl([S._calculate_mean_diagonal(bs, cf, mk_samples(samples))])
    except Exception as e:
        return exc_line(e)


def real_isect(cart, bs, cf):
    np, A, S, Pose, _, _ = _mods()
    try:
        v = mk_samples([{0: [cart]}])[0].angles_calibrated[0][0]
        return 'ok ' + fl(list(S.calc_intersection_point(v, bs, cf)))
    except Exception as e:
        return exc_line(e)


def real_heapscale(arrs, objs, bs, cf, f, dtypes=None):
    """arrs: list of None (matrix) | [x,y,z]; objs: list of (r, t) array indices; bs: [(id, obj)], cf: [obj].  Builds Pose
    objects that share ndarray objects exactly as described, runs the real _scale_system and reads back the object graph."""
    np, A, S, Pose, _, _ = _mods()
    dtypes = dtypes or [None] * len(arrs)
    arrays = [np.identity(3) if a is None else np.array(a, dtype=(dt or 'float64')) for a, dt in zip(arrs, dtypes)]
    before = [a.copy() for a in arrays]
    pobjs = []
    for (r, t) in objs:
        p = Pose.__new__(Pose)
        p._R_matrix = arrays[r]
        p._t_vec = arrays[t]
        pobjs.append(p)
    bs_in = {k: pobjs[o] for k, o in bs}
    cf_in = [pobjs[o] for o in cf]
    try:
        rb, rc, rf = S._scale_system(bs_in, cf_in, f)
    except Exception as e:
        return exc_line(e)
    addr = {id(a): i for i, a in enumerate(arrays)}
    keep = []

    def a_of(x):
        if id(x) not in addr:
            addr[id(x)] = len(addr)
            keep.append(x)
        return addr[id(x)]

    def show(p):
        r = a_of(p._R_matrix)
        t = a_of(p._t_vec)
        return '%d.%d.%s' % (r, t, fl(list(p._t_vec)))
    sb = ','.join('%d:%s' % (k, show(p)) for k, p in rb.items()) if rb else '-'
    sc = ','.join(show(p) for p in rc) if rc else '-'
    old = all(p._R_matrix is arrays[r] and p._t_vec is arrays[t] for p, (r, t) in zip(pobjs, objs)) and \
        all(np.array_equal(a, b) for a, b in zip(arrays, before)) and list(bs_in) == [k for k, _ in bs] and \
        all(bs_in[k] is pobjs[o] for k, o in bs) and all(x is pobjs[o] for x, o in zip(cf_in, cf)) and \
        not any(q is p for q in list(rb.values()) + list(rc) for p in pobjs)
    return 'ok bs=%s cf=%s old=%d' % (sb, sc, 1 if old else 0)


# ---- Tie B ---------------------------------------------------------------------------------------------------
TOL = 1e-11


def gen_cases(ctx):
    np, A, S, Pose, LhCfPoseSample, LighthouseBsVector = _mods()
    rng = ctx.rng
    thorough = ctx.tier == 'thorough'
    k = 5 if thorough else 1
    cases = []    # (kind, line, thunk, desc, key, tol)

    # rotation vector -> matrix (scipy stand-in)
    fixed = [[0, 0, 0], [0, 0, math.pi], [math.pi, 0, 0], [0, math.pi, 0], [0, 0, -math.pi], [1e-3, 0, 0], [0, 1e-3 + 1e-12, 0]]
    for v in fixed + [rand_rotvec(rng, 360.0) for _ in range(300 * k)]:
        cases.append(('rotvec', 'rotvec ' + fl(v), lambda v=v: real_rotvec(v), {'op': 'rotvec', 'v': v}, ('rotvec',) + tuple(v), 1e-12))

    # residual vector
    for _ in range(400 * k):
        n = 6 if rng.random() < 0.9 else rng.choice([0, 2, 3, 5, 7, 9])
        params = [rng.uniform(-1, 1) for _ in range(n)]
        if n == 6 and rng.random() < 0.1:
            params[:3] = [0.0, 0.0, 0.0]
        origin = rand_vec(rng)
        xs = [rand_vec(rng) for _ in range(rng.choice([0, 1, 1, 2, 3, 6]))]
        pl = [rand_vec(rng) for _ in range(rng.choice([0, 1, 1, 2, 4, 7]))]
        if rng.random() < 0.3:
            rc_ = rng.choice(['int-tuple', 'int64-array', 'float32-array', 'whole-float'])
            origin, xs, pl = in_class(rng, np, origin, rc_), [in_class(rng, np, x, rc_) for x in xs], [in_class(rng, np, x, rc_) for x in pl]
            ctx.count('class:residual:' + rc_)
        line = 'residual %s %s %s %s' % (fl(params), fl(origin), enc_vecs(xs), enc_vecs(pl))
        cases.append(('residual', line, lambda p=params, o=origin, x=xs, q=pl: real_residual(p, o, x, q),
                      {'op': 'residual', 'nparams': n, 'nx': len(xs), 'nplane': len(pl)}, ('residual', n, len(xs), len(pl), params[0] if params else 0), TOL))

    # de-flip: arbitrary raw transforms (all four flip combinations), error branches
    for _ in range(500 * k):
        raw = rand_pose(rng, Pose)
        xs = [np.array(rand_vec(rng)) for _ in range(rng.choice([1, 1, 2, 3, 5]) if rng.random() < 0.95 else 0)]
        bs = {i: rand_pose(rng, Pose) for i in rng.sample(range(16), rng.choice([1, 1, 2, 4]) if rng.random() < 0.95 else 0)}
        tie = False
        if xs:
            tie = abs(raw.rotate_translate(np.mean(xs, axis=0))[0]) < 1e-9
        if bs:
            tie = tie or abs(raw.rotate_translate(list(bs.values())[0].translation)[2]) < 1e-9
        if tie:
            continue     # never compare across a rounding tie of the decision
        line = 'deflip %s %s %s' % (enc_pose(raw), enc_vecs(xs), enc_bs(bs))
        cases.append(('deflip', line, lambda r=raw, x=xs, b=bs: real_deflip(r, x, b), {'op': 'deflip', 'nx': len(xs), 'nbs': len(bs)},
                      ('deflip', len(xs), len(bs), float(raw.translation[0])), TOL))

    # whole align, optimiser answer captured from the real run
    for _ in range(250 * k):
        u = rng.random()
        if u < 0.6:
            sc = scenario(rng, Pose, np, noise=rng.choice([0.0, 0.0, 0.005]))
        elif u < 0.9:   # outside the 30 degree domain: mirror-flipped raw answers
            sc = scenario(rng, Pose, np, maxdeg=180.0, maxt=5.0)
        else:
            sc = scenario(rng, Pose, np)
            if rng.random() < 0.5:
                sc['xs'] = []
            else:
                sc['bs'] = {}
        cases.append(('align', None, sc, {'op': 'align', 'angle': round(sc['angle_deg'], 2), 'nx': len(sc['xs']), 'nplane': len(sc['pl']), 'nbs': len(sc['bs'])},
                      ('align', sc['angle_deg'], len(sc['xs']), len(sc['pl'])), 1e-9))

    for _ in range(60 * k):           # whole-number / float32 inputs to align
        sc = scenario_in_class(rng, Pose, np)
        ctx.count('class:align:' + sc['value_class'])
        cases.append(('align', None, sc, {'op': 'align', 'angle': round(sc['angle_deg'], 2), 'nx': len(sc['xs']), 'nplane': len(sc['pl']), 'nbs': len(sc['bs']),
                                          'class': sc['value_class']}, ('align', sc['value_class'], float(sc['origin'][0]), len(sc['xs']), len(sc['pl'])), 1e-9))

    # scaler
    for _ in range(200 * k):
        variety = rng.random() < 0.5      # poses / points from ints, int arrays, float32 arrays, whole floats, mixed scalars
        vc = set()

        def mkp():
            if not variety:
                return rand_pose(rng, Pose)
            pp, c, rk = rand_pose_in_class(rng, np, Pose)
            vc.add(c)
            return pp
        bs = {i: mkp() for i in rng.sample(range(16), rng.choice([0, 1, 2, 4]))}
        cf = [mkp() for _ in range(rng.choice([0, 1, 2, 5]))]
        expected = rand_vec(rng) if rng.random() < 0.95 else [0.0, 0.0, 0.0]
        if variety:
            expected = in_class(rng, np, expected, rng.choice(VALUE_CLASSES))
        actual = mkp() if rng.random() < 0.93 else Pose()
        line = 'scalefp %s %s %s %s' % (enc_bs(bs), enc_poses(cf), fl(expected), enc_pose(actual))
        for c in vc or {'float64'}:
            ctx.count('class:scalefp:' + c)
        # ONE tolerance for every value class (float32 arrays are multiplied in float32 by numpy: 6e-8 relative)
        cases.append(('scalefp', line, lambda b=bs, c=cf, e=expected, a=actual: real_scalefp(b, c, e, a),
                      {'op': 'scalefp', 'nbs': len(bs), 'ncf': len(cf), 'classes': sorted(vc)}, ('scalefp', len(bs), len(cf), float(expected[0])),
                      1e-6 if variety else TOL))
    for _ in range(200 * k):
        ids = rng.sample(range(8), rng.choice([1, 2, 3]))
        bs = {i: rand_pose(rng, Pose, zmin=1.0) for i in ids}
        ncf = rng.choice([0, 1, 2, 3])
        cf = [rand_pose(rng, Pose, maxdeg=40.0, r=1.5) for _ in range(ncf)]
        samples = []
        for _ in range(max(0, ncf + rng.choice([-1, 0, 0, 0, 1]))):
            s = {}
            for i in rng.sample(range(8), rng.choice([0, 1, 2])) if rng.random() < 0.15 else rng.sample(ids, rng.randrange(0, len(ids) + 1)):
                nv = 4 if rng.random() < 0.93 else rng.choice([0, 2, 3, 5])
                s[i] = [[float(np.float32(c)) for c in (lambda v: [v[0] / np.linalg.norm(v), v[1] / np.linalg.norm(v), v[2] / np.linalg.norm(v)])(np.array([1.0, rng.uniform(-1, 1), rng.uniform(-1, 1)]))] for _ in range(nv)]
            samples.append(s)
        expected = rng.uniform(0.01, 0.2)
        op = rng.choice(['scalediag', 'meandiag'])
        if op == 'scalediag':
            line = 'scalediag %s %s %s %s' % (enc_bs(bs), enc_poses(cf), enc_samples(samples), fl([expected]))
            th = lambda b=bs, c=cf, s=samples, e=expected: real_scalediag(b, c, s, e)
        else:
            line = 'meandiag %s %s %s' % (enc_bs(bs), enc_poses(cf), enc_samples(samples))
            th = lambda b=bs, c=cf, s=samples: real_meandiag(b, c, s)
        cases.append((op, line, th, {'op': op, 'nbs': len(bs), 'ncf': len(cf), 'nsamples': len(samples)}, (op, len(bs), len(cf), len(samples), expected), 1e-9))
    for _ in range(200 * k):
        v = np.array([1.0, rng.uniform(-1.5, 1.5), rng.uniform(-1.5, 1.5)])
        cart = [float(np.float32(c)) for c in v / np.linalg.norm(v)]
        bs, cf = rand_pose(rng, Pose), rand_pose(rng, Pose)
        line = 'isect %s %s %s' % (fl(cart), enc_pose(bs), enc_pose(cf))
        cases.append(('isect', line, lambda c=cart, b=bs, f=cf: real_isect(c, b, f), {'op': 'isect'}, ('isect', cart[1], cart[2]), 1e-9))

    # the objective as the optimiser sees it, with two align calls in flight: every residual value handed to least_squares must be
    # the model's residual at that point for the call's OWN reference points
    for j in range(8 * k):
        scA, scB = scenario(rng, Pose, np, min_off=0.3), scenario(rng, Pose, np, min_off=0.3)
        mode, kk = rng.choice(['threads', 'reentrant']), rng.choice([1, 2, 5, 9, 20])
        oa, ob, overlapped, _ = overlapped_aligns(scA, scB, mode, kk)
        for label, sc, o in (('A', scA, oa), ('B', scB, ob)):
            for call in o[4]:
                for (x, r, _tid) in call['trace']:
                    line = 'residual %s %s %s %s' % (fl(x), fl(sc['origin']), enc_vecs(sc['xs']), enc_vecs(sc['pl']))
                    cases.append(('objective', line, (lambda rr=r: 'ok ' + fl(rr)), {'op': 'objective', 'call': label, 'mode': mode, 'overlapped': overlapped},
                                  ('objective', j, label, x[0], x[3]), TOL))

    # object graph of _scale_system
    for _ in range(200 * k):
        nm, nv = rng.choice([1, 1, 2, 3]), rng.choice([1, 1, 2, 3, 4])
        dts = [rng.choice(['float64', 'float64', 'int64', 'int32', 'float32']) for _ in range(nv)]
        arrs = [None] * nm + [[float(np.float32(rng.uniform(-3, 3))) if dt == 'float32' else (float(rng.randrange(-3, 4)) if dt.startswith('int') else rng.uniform(-3, 3))
                               for _ in range(3)] for dt in dts]
        no = rng.choice([1, 2, 3, 5])
        objs = [(rng.randrange(nm), nm + rng.randrange(nv)) for _ in range(no)]
        bs = [(i, rng.randrange(no)) for i in rng.sample(range(10), rng.choice([0, 1, 2, 3]))]
        cf = [rng.randrange(no) for _ in range(rng.choice([0, 1, 2, 4]))]
        f = rng.choice([0.0, 1.0, -1.5, rng.uniform(0.1, 3)])
        line = 'heapscale %s %s %s %s %s' % (';'.join('m' if a is None else 'v' + fl(a) for a in arrs), ','.join('%d.%d' % o for o in objs),
                                            ','.join('%d:%d' % b for b in bs) or '-', ','.join(map(str, cf)) or '-', fl([f]))
        shared = len(set(o[1] for o in objs)) < no or len(set(o for _, o in bs) | set(cf)) < len(bs) + len(cf)
        for dt in set(dts):
            ctx.count('class:heapscale:' + dt)
        cases.append(('heapscale', line, lambda a=arrs, o=objs, b=bs, c=cf, ff=f, d=[None] * nm + dts: real_heapscale(a, o, b, c, ff, d),
                      {'op': 'heapscale', 'arrays': len(arrs), 'objs': no, 'shared': shared, 'dtypes': sorted(set(dts))}, ('heapscale', line),
                      1e-6 if 'float32' in dts else 0.0))
    return cases


def correspond(ctx):
    cases = gen_cases(ctx)
    # run the real `align` first: the optimiser's answer is part of the request to the model
    prepared = []
    for (kind, line, thunk, desc, key, tol) in cases:
        if kind == 'align':
            sc = thunk
            real, call, ncalls = real_align(sc['origin'], sc['xs'], sc['pl'], sc['bs'])
            if call is None:
                ctx.disagree('align-glue', desc, 'exactly one least_squares call', '%d calls' % ncalls)
                continue
            glue_ok = call['x0'] == [0.0] * len(call['x0']) and call['fun'].__name__ == '_calc_residual' and \
                'args' in call['kw'] and len(call['kw']['args']) == 3
            if not glue_ok:
                ctx.disagree('align-glue', desc, 'least_squares(_calc_residual, zeros, args=(origin, x_axis, xy_plane))', repr((call['x0'], list(call['kw']))))
            ctx.count('lsq-status:%d' % call['status'])
            line = 'align %s %s %s %s %s' % (fl(call['x']), fl(sc['origin']), enc_vecs(sc['xs']), enc_vecs(sc['pl']), enc_bs(sc['bs']))
            prepared.append((kind, line, real, desc, key, tol))
        else:
            prepared.append((kind, line, thunk(), desc, key, tol))
    replies = ctx.lean(DRIVER, [c[1] for c in prepared])
    for (kind, line, real, desc, key, tol), model in zip(prepared, replies):
        ctx.count('op:' + kind)
        ctx.count('result:%s:%s' % (kind, real.split(' ')[0] + (':' + real.split(' ')[1] if real.startswith('err') else '')))
        if kind == 'deflip' and real.startswith('ok'):
            ctx.count('deflip-branch:' + _flip_kind(line, real))
        ctx.case(desc, key)
        same = (real == model) if tol == 0.0 else approx_same(model, real, tol)
        if not same:
            ctx.disagree(kind, line[:400], model[:400], real[:400])


def _flip_kind(line, real):
    """which of the four de-flip outcomes happened (from the real result: sign pattern of R_out vs R_raw)"""
    raw = [bits_f64(int(x)) for x in line.split(' ')[1].split(',')]
    out = [bits_f64(int(x)) for x in real.split(' ')[1].split(',')]
    i = max(range(3), key=lambda j: abs(raw[j]))        # row 0
    s0 = out[i] * raw[i] > 0
    i = max(range(6, 9), key=lambda j: abs(raw[j]))     # row 2
    s2 = out[i] * raw[i] > 0
    return {(True, True): 'none', (False, True): 'z', (True, False): 'x', (False, False): 'z+x'}[(s0, s2)]


# ------------------------------------------------------------------------------------------------------
# failing-input search: the property itself, evaluated on the real code end to end (no Lean needed)
D161_KEY = 'D161-lsq-stops-at-max-nfev'
CORPUS = os.path.join(VERIF, 'harness', 'corpus', 'c16')


def snapshot(origin, xs, pl, bs):
    np = _np()
    return (np.array(origin, dtype=float).copy(), [np.array(x, dtype=float).copy() for x in xs], [np.array(x, dtype=float).copy() for x in pl],
            [(k, p, p._R_matrix, p._t_vec, p._R_matrix.copy(), p._t_vec.copy()) for k, p in bs.items()])


def unmodified(snap, origin, xs, pl, bs):
    np = _np()
    o, sx, sp, sb = snap
    if not np.array_equal(o, np.array(origin, dtype=float)) or len(sx) != len(xs) or len(sp) != len(pl):
        return False
    if not all(np.array_equal(a, np.array(b, dtype=float)) for a, b in zip(sx, xs)) or not all(np.array_equal(a, np.array(b, dtype=float)) for a, b in zip(sp, pl)):
        return False
    if [k for k, *_ in sb] != list(bs.keys()):
        return False
    for (k, p, r, t, rc, tc) in sb:
        q = bs[k]
        if q is not p or q._R_matrix is not r or q._t_vec is not t or not np.array_equal(r, rc) or not np.array_equal(t, tc):
            return False
    return True


def is_proper(np, R, tol=1e-9):
    return np.abs(R.T @ R - np.identity(3)).max() < tol and abs(np.linalg.det(R) - 1.0) < tol


def constraint_errors(np, T, origin, xs, pl):
    """how far a transformation is from what the reference samples demand (the property's own reading, not _calc_residual)"""
    e = float(np.abs(T.rotate_translate(origin)).max())
    for x in xs:
        y = T.rotate_translate(x)
        e = max(e, abs(float(y[1])), abs(float(y[2])))
    for p in pl:
        e = max(e, abs(float(T.rotate_translate(p)[2])))
    return e


def converges_with_more_evaluations(origin, xs, pl, tol):
    """the same problem handed to the same optimiser with the same settings except the evaluation cap: does the resulting
    transformation satisfy the reference-point constraints (judged independently of _calc_residual)?"""
    import scipy.optimize
    np, A, S, Pose, _, _ = _mods()
    r = scipy.optimize.least_squares(A._calc_residual, np.zeros(6), verbose=0, jac_sparsity=None, x_scale='jac', ftol=1e-8, method='trf',
                                     max_nfev=200, args=(origin, xs, pl))
    return bool(constraint_errors(np, A._Pose_from_params(r.x), origin, xs, pl) < tol), int(r.nfev)


def check_align(ctx, sc, what, tol=1e-6, stats=None, in_domain=True, outcome=None):
    """all clauses of the alignment part of the property on one scenario; returns True when the exactness clause failed
    because the optimiser stopped at its evaluation cap (D161).  Outside the 30 deg / 3 m domain convergence is not promised:
    there the exactness clauses are required only when the optimiser's own answer satisfies the constraints up to a mirror
    flip (that is what "mirror-flipped answers are corrected" means)."""
    np, A, S, Pose, _, _ = _mods()
    origin, xs, pl, bs = sc['origin'], sc['xs'], sc['pl'], sc['bs']
    inp = {'what': what, 'origin': [float(v) for v in origin], 'x_axis': [[float(v) for v in x] for x in xs], 'xy_plane': [[float(v) for v in x] for x in pl],
           'bs_poses': {str(k): [float(v) for v in list(p.rot_matrix.flatten()) + list(p.translation)] for k, p in bs.items()},
           'angle_deg': sc.get('angle_deg'), 'trans_m': sc.get('trans')}
    if outcome is None:
        snap = snapshot(origin, xs, pl, bs)
        exc = res = T = None
        with LsqSpy() as spy:
            try:
                res, T = A.align(origin, xs, pl, bs)
            except Exception as e:
                exc = e
        calls = spy.calls
    else:      # the call was made elsewhere (overlapping with another call); judge what it returned
        snap, res, T, exc, calls = outcome
    if exc is not None:
        ctx.witness('align-raises', 'align raises on a well-formed in-domain input', inp, got=repr(exc)[:200])
        return False
    if not unmodified(snap, origin, xs, pl, bs):
        ctx.witness('align-modifies-inputs', 'align modified its inputs', inp)
    R, t = T.rot_matrix, T.translation
    if not is_proper(np, R):
        ctx.witness('align-not-proper', 'the alignment transformation is not a proper rotation + translation', inp, R=R.tolist())
    # one rigid map applied to all base stations; same ids in the same order
    if list(res.keys()) != list(bs.keys()):
        ctx.witness('align-keys', 'aligned base stations do not carry the ids of the input, in order', inp, got=list(res.keys()))
        return False
    for k, p in bs.items():
        q = res[k]
        if np.abs(q.rot_matrix - R @ f64(np, p.rot_matrix)).max() > 1e-9 or np.abs(q.translation - (R @ f64(np, p.translation) + t)).max() > 1e-9:
            ctx.witness('align-not-one-map', 'a base station pose is not the returned transformation applied to the input pose', inp, bs_id=k)
    ks = list(bs.keys())
    for i in range(len(ks)):
        for j in range(i + 1, len(ks)):
            a, b, a2, b2 = bs[ks[i]], bs[ks[j]], res[ks[i]], res[ks[j]]
            d0, d1 = np.linalg.norm(f64(np, a.translation) - f64(np, b.translation)), np.linalg.norm(a2.translation - b2.translation)
            r0, r1 = f64(np, a.rot_matrix).T @ f64(np, b.rot_matrix), a2.rot_matrix.T @ b2.rot_matrix
            if abs(d0 - d1) > 1e-9 * max(1.0, d0) or np.abs(r0 - r1).max() > 1e-9:
                ctx.witness('align-not-rigid', 'distance or relative orientation between two base stations changed', inp, pair=[ks[i], ks[j]])
    # exactness
    call = calls[0] if calls else None
    if not in_domain:
        raw_ok = call is not None and len(call['x']) == 6 and constraint_errors(np, A._Pose_from_params(np.array(call['x'])), origin, xs, pl) < 1e-9
        if stats is not None:
            stats['ood-converged' if raw_ok else 'ood-unconverged'] = stats.get('ood-converged' if raw_ok else 'ood-unconverged', 0) + 1
        if not raw_ok:
            return False
    noise = sc.get('noise', 0.0)
    etol = tol if not noise else 12 * noise
    errs = {}
    errs['origin'] = float(np.abs(T.rotate_translate(origin)).max())
    ys = [T.rotate_translate(x) for x in xs]
    errs['x-off-axis'] = float(max(max(abs(y[1]), abs(y[2])) for y in ys))
    errs['x-negative'] = float(max(max(0.0, -y[0]) for y in ys)) if not noise else float(max(0.0, -np.mean(ys, axis=0)[0]))
    errs['plane'] = float(max(abs(T.rotate_translate(p)[2]) for p in pl))
    nondeg = sc.get('max_off', 0.0) >= 0.3
    if nondeg:
        errs['bs-below-floor'] = float(max(max(0.0, -q.translation[2]) for q in res.values()))
        if not noise:
            errs['bs-not-world-pose'] = float(max(max(np.abs(res[k].translation - sc['bs_w'][k].translation).max(),
                                                      np.abs(res[k].rot_matrix - sc['bs_w'][k].rot_matrix).max()) for k in bs))
    else:
        errs['first-bs-below-floor'] = float(max(0.0, -list(res.values())[0].translation[2]))
    bad = {k: v for k, v in errs.items() if not v <= (etol * (20 if k == 'bs-not-world-pose' else 1))}
    if stats is not None:
        stats['n'] = stats.get('n', 0) + 1
        stats['maxerr'] = max(stats.get('maxerr', 0.0), max(errs.values()) if not bad else 0.0)
    if not bad:
        return False
    capped = in_domain and call is not None and call['status'] == 0 and call['nfev'] >= call['kw'].get('max_nfev', 0)
    if capped:
        conv, nfev = converges_with_more_evaluations(origin, xs, pl, 1e-9 if not noise else etol)
        if conv:
            if sum(1 for w in ctx.witnesses if w['key'] == D161_KEY) >= 6:
                return True      # enough replays of the known finding recorded; keep room for other witnesses
            ctx.witness(D161_KEY, 'aligner misses the reference points: least_squares stopped at max_nfev before converging '
                        '(the same problem converges when allowed more evaluations)', inp, errors=bad, nfev_needed=nfev)
            return True
    worst = max(bad, key=lambda k: bad[k])
    ctx.witness('align-inexact:' + worst, 'aligned system does not satisfy the reference-point constraints', inp, errors=bad,
                lsq_status=None if call is None else call['status'])
    return False


def check_deflip(ctx, rng):
    """mirror-flipped answers are corrected: hand _de_flip_transformation each of the four zero-residual candidates
    F o T* (F = identity, half turn about Z, about X, about both) of a consistent scene; it must return T* itself"""
    np, A, S, Pose, _, _ = _mods()
    sc = scenario(rng, Pose, np, maxdeg=180.0, maxt=5.0, min_off=0.3)
    M = sc['M']
    Tstar = Pose(R_matrix=M.rot_matrix.T, t_vec=-M.rot_matrix.T @ M.translation)
    for name, diag in (('none', (1, 1, 1)), ('z', (-1, -1, 1)), ('x', (1, -1, -1)), ('z+x', (-1, 1, -1))):
        F = Pose(R_matrix=np.diag(diag).astype(float))
        raw = F.rotate_translate_pose(Tstar)
        snap = (raw._R_matrix.copy(), raw._t_vec.copy(), [x.copy() for x in sc['xs']], snapshot(sc['origin'], sc['xs'], sc['pl'], sc['bs']))
        inp = {'flip_of_raw': name, 'raw': enc_pose(raw), 'x_axis': [[float(v) for v in x] for x in sc['xs']],
               'first_bs_translation': [float(v) for v in list(sc['bs'].values())[0].translation]}
        try:
            T = A._de_flip_transformation(raw, sc['xs'], sc['bs'])
        except Exception as e:
            ctx.witness('deflip-raises', '_de_flip_transformation raises on a well-formed input', inp, got=repr(e)[:200])
            continue
        if not (np.array_equal(snap[0], raw._R_matrix) and np.array_equal(snap[1], raw._t_vec) and unmodified(snap[3], sc['origin'], sc['xs'], sc['pl'], sc['bs'])):
            ctx.witness('deflip-modifies-inputs', '_de_flip_transformation modified its inputs', inp)
        err = max(np.abs(T.rot_matrix - Tstar.rot_matrix).max(), np.abs(T.translation - Tstar.translation).max())
        if err > 1e-9:
            ctx.witness('deflip-wrong:' + name, 'a mirror-flipped zero-residual answer is not corrected to the true alignment', inp, error=float(err))
        ctx.count('search:deflip:' + name)


class Overlap:
    """Deterministic overlap of two calls A and B of the code under test: A runs until its k-th pass through a hook point
    (a residual evaluation requested by least_squares / a copy.copy inside _scale_system), B then runs COMPLETELY, A resumes.
    mode 'threads': A in its own thread, parked on an Event while the main thread runs B (no sleeps; every wait has a timeout
    that turns a hang into a harness error).  mode 'reentrant': B is called from inside A's hook point on the same thread.
    If A finishes before reaching the k-th hook point the two calls simply run one after the other (reported as no overlap)."""

    def __init__(self, mode, k):
        self.mode, self.k = mode, k
        self.count = 0
        self.a_thread = None
        self.overlapped = False
        self.run_b = None
        self.msgs = __import__('queue').Queue()
        self.resume = __import__('threading').Event()
        self.armed = False

    def hook_point(self):
        """called by the instrumented library boundary on every pass; only A's thread, only while armed"""
        import threading
        if not self.armed or threading.get_ident() != self.a_thread:
            return
        self.count += 1
        if self.count != self.k:
            return
        self.armed = False
        self.overlapped = True
        if self.mode == 'reentrant':
            self.run_b()
        else:
            self.msgs.put('paused')
            if not self.resume.wait(120):
                raise RuntimeError('harness: overlap resume timeout')

    def run(self, run_a, run_b):
        import threading
        self.run_b = run_b
        if self.mode == 'reentrant':
            self.a_thread = threading.get_ident()
            self.armed = True
            run_a()
            self.armed = False
            if not self.overlapped:
                run_b()
            return

        def body():
            self.a_thread = threading.get_ident()
            self.armed = True
            try:
                run_a()
            finally:
                self.armed = False
                self.msgs.put('done')
        t = threading.Thread(target=body, name='c16-overlap-A')
        t.start()
        msg = self.msgs.get(timeout=120)
        run_b()                      # A is parked inside its call (msg == 'paused') or already finished (msg == 'done')
        self.resume.set()
        t.join(120)
        if t.is_alive():
            raise RuntimeError('harness: overlapped call did not finish')


class LsqOverlapHook:
    """wraps scipy.optimize.least_squares: records every call (per thread, in completion order) like LsqSpy, keeps the first
    residual evaluations (point, value) of each call, and reports every residual evaluation to an Overlap as a hook point"""

    def __init__(self, overlap, keep=4):
        self.ov, self.keep = overlap, keep
        self.calls = []

    def __enter__(self):
        import threading
        import scipy.optimize
        self.mod, self.orig = scipy.optimize, scipy.optimize.least_squares
        hook = self

        def wrapped(fun, x0, *a, **kw):
            trace = []

            def f2(x, *fa, **fk):
                hook.ov.hook_point()
                r = fun(x, *fa, **fk)
                if len(trace) < hook.keep or hook.ov.count in (hook.ov.k, hook.ov.k + 1):
                    if len(trace) < hook.keep + 4:
                        trace.append(([float(v) for v in x], [float(v) for v in r], threading.get_ident()))
                return r
            r = hook.orig(f2, x0, *a, **kw)
            hook.calls.append({'fun': fun, 'x0': [float(v) for v in x0], 'kw': dict(kw), 'x': [float(v) for v in r.x], 'status': int(r.status),
                               'nfev': int(r.nfev), 'cost': float(r.cost), 'trace': trace, 'thread': threading.get_ident()})
            return r
        scipy.optimize.least_squares = wrapped
        return self

    def __exit__(self, *a):
        self.mod.least_squares = self.orig


def overlapped_aligns(scA, scB, mode, k):
    """run align for A and B overlapped as described by Overlap; returns (outcome A, outcome B, overlapped?, hook calls)"""
    np, A, S, Pose, _, _ = _mods()
    ov = Overlap(mode, k)
    out = {}

    def do(label, sc):
        snap = snapshot(sc['origin'], sc['xs'], sc['pl'], sc['bs'])
        res = T = exc = None
        n0 = len(hook.calls)
        try:
            res, T = A.align(sc['origin'], sc['xs'], sc['pl'], sc['bs'])
        except Exception as e:
            exc = e
        out[label] = [snap, res, T, exc, n0]
    with LsqOverlapHook(ov) as hook:
        ov.run(lambda: do('A', scA), lambda: do('B', scB))
    import threading
    for label in ('A', 'B'):
        # the least_squares call(s) made by this align: by thread for 'threads', by nesting order for 're-entrant'
        snap, res, T, exc, n0 = out[label]
        if mode == 'threads':
            tid = ov.a_thread if label == 'A' else threading.get_ident()
            calls = [c for c in hook.calls if c['thread'] == tid]
        elif ov.overlapped:
            calls = hook.calls[:1] if label == 'B' else hook.calls[1:2]      # B (inner) completes first
        else:
            calls = hook.calls[:1] if label == 'A' else hook.calls[1:2]
        out[label] = (snap, res, T, exc, calls)
    return out['A'], out['B'], ov.overlapped, hook.calls


def same_result(np, r1, r2):
    (res1, T1), (res2, T2) = r1, r2
    if (res1 is None) != (res2 is None):
        return False
    if res1 is None:
        return True
    return np.array_equal(T1.rot_matrix, T2.rot_matrix) and np.array_equal(T1.translation, T2.translation) and list(res1) == list(res2) and \
        all(np.array_equal(res1[k].rot_matrix, res2[k].rot_matrix) and np.array_equal(res1[k].translation, res2[k].translation) for k in res1)


def check_overlapping_aligns(ctx, rng, i, stats):
    """two align calls in flight: each must return what it returns when run alone (bit for bit - the code is deterministic),
    must satisfy every alignment clause for ITS OWN system, and must leave its inputs alone"""
    np, A, S, Pose, _, _ = _mods()
    in_domain = rng.random() < 0.8
    kw = dict(min_off=0.3) if in_domain else dict(maxdeg=180.0, maxt=5.0, min_off=0.3)
    scA, scB = scenario(rng, Pose, np, **kw), scenario(rng, Pose, np, **kw)
    mode = rng.choice(['threads', 'threads', 'reentrant'])
    k = rng.choice([1, 2, 3, 5, 8, 13, 21, 34])
    solo = {}
    for label, sc in (('A', scA), ('B', scB)):
        try:
            solo[label] = A.align(sc['origin'], sc['xs'], sc['pl'], sc['bs'])
        except Exception:
            solo[label] = (None, None)
    oa, ob, overlapped, _ = overlapped_aligns(scA, scB, mode, k)
    ctx.count('search:overlap-align:%s:%s' % (mode, 'overlapped' if overlapped else 'sequential'))
    for label, sc, o, other in (('A', scA, oa, scB), ('B', scB, ob, scA)):
        what = 'align call %s of two overlapping calls (%s, A parked at its residual evaluation #%d while B runs%s), pair %d' % (
            label, mode, k, '' if overlapped else ' - A finished earlier, no overlap', i)
        sc = dict(sc)
        sc['other_call'] = {'origin': [float(v) for v in other['origin']], 'x_axis': [[float(v) for v in x] for x in other['xs']],
                            'xy_plane': [[float(v) for v in x] for x in other['pl']]}
        if not same_result(np, solo[label], (o[1], o[2])):
            ctx.witness('overlap-changes-align-result', 'align returns something else when another align call is in flight than when it runs alone: '
                        'its result does not depend on its arguments only',
                        {'what': what, 'origin': [float(v) for v in sc['origin']], 'x_axis': [[float(v) for v in x] for x in sc['xs']],
                         'xy_plane': [[float(v) for v in x] for x in sc['pl']], 'other_call': sc['other_call'], 'mode': mode, 'pause_at_evaluation': k},
                        exception=None if o[3] is None else repr(o[3])[:200])
        check_align(ctx, sc, what, stats=stats, in_domain=in_domain, outcome=o)


def check_overlapping_scales(ctx, rng, i):
    """two scale calls in flight on OVERLAPPING inputs (shared Pose objects): A is parked at one of its copy.copy calls while B
    runs completely; both must return what they return alone and nobody's inputs may change"""
    import cflib.localization.lighthouse_system_scaler as sm
    np, A, S, Pose, _, _ = _mods()
    pool = [rand_pose(rng, Pose) for _ in range(5)]
    def pick():
        bs = {j: rng.choice(pool) for j in rng.sample(range(8), rng.choice([1, 2, 3]))}
        cf = [rng.choice(pool) for _ in range(rng.choice([0, 1, 2, 3]))]
        return bs, cf, np.array(rand_vec(rng)), rng.choice(pool)
    argsA, argsB = pick(), pick()
    mode = rng.choice(['threads', 'reentrant'])
    k = rng.choice([1, 2, 3, 4])
    snap = [(p, p._R_matrix, p._t_vec, p._R_matrix.copy(), p._t_vec.copy()) for p in pool]
    solo = {'A': S.scale_fixed_point(*argsA), 'B': S.scale_fixed_point(*argsB)}
    ov = Overlap(mode, k)
    out = {}

    class CopyShim:
        def __init__(self, real):
            self._real = real

        def copy(self, x):
            ov.hook_point()
            return self._real.copy(x)

        def __getattr__(self, name):
            return getattr(self._real, name)

    def do(label, a):
        try:
            out[label] = S.scale_fixed_point(*a)
        except Exception as e:
            out[label] = e
    real_copy = sm.copy
    sm.copy = CopyShim(real_copy)
    try:
        ov.run(lambda: do('A', argsA), lambda: do('B', argsB))
    finally:
        sm.copy = real_copy
    ctx.count('search:overlap-scale:%s:%s' % (mode, 'overlapped' if ov.overlapped else 'sequential'))
    inp = {'mode': mode, 'pause_at_copy': k, 'pool': [enc_pose(p) for p in pool],
           'A': {'bs': {str(j): pool.index(p) for j, p in argsA[0].items()}, 'cf': [pool.index(p) for p in argsA[1]], 'expected': argsA[2].tolist(), 'actual': pool.index(argsA[3])},
           'B': {'bs': {str(j): pool.index(p) for j, p in argsB[0].items()}, 'cf': [pool.index(p) for p in argsB[1]], 'expected': argsB[2].tolist(), 'actual': pool.index(argsB[3])}}
    if not all(p._R_matrix is r and p._t_vec is t and np.array_equal(r, rc_) and np.array_equal(t, tc_) for (p, r, t, rc_, tc_) in snap):
        ctx.witness('overlap-scale-modifies-inputs', 'overlapping scale calls modified an input pose', inp)
    for label in ('A', 'B'):
        o, s0 = out[label], solo[label]
        if isinstance(o, Exception):
            ctx.witness('overlap-scale-raises', 'scale_fixed_point raises when another scale call is in flight', inp, got=repr(o)[:200])
            continue
        same = o[2] == s0[2] and list(o[0]) == list(s0[0]) and len(o[1]) == len(s0[1]) and \
            all(np.array_equal(o[0][j].translation, s0[0][j].translation) and np.array_equal(o[0][j].rot_matrix, s0[0][j].rot_matrix) for j in s0[0]) and \
            all(np.array_equal(x.translation, y.translation) and np.array_equal(x.rot_matrix, y.rot_matrix) for x, y in zip(o[1], s0[1]))
        if not same:
            ctx.witness('overlap-changes-scale-result', 'scale_fixed_point returns something else when another scale call is in flight than alone', inp, call=label)


def check_scale(ctx, rng):
    """scale_fixed_point on poses built from every value class a caller can hand to Pose (ints, int arrays, float32, whole
    floats, mixed): every translation times the one factor, judged in float64 against the real-number reading with ONE
    tolerance for all classes (1e-6 relative; 1e-12 when everything is float64)"""
    np, A, S, Pose, LhCfPoseSample, LighthouseBsVector = _mods()
    variety = rng.random() < 0.6
    classes = set()

    def mk():
        if not variety:
            return rand_pose(rng, Pose)
        p, c, rk = rand_pose_in_class(rng, np, Pose)
        classes.add(c)
        classes.add('R:' + rk)
        return p
    bs = {i: mk() for i in rng.sample(range(16), rng.choice([1, 2, 4]))}
    cf = [mk() for _ in range(rng.choice([0, 1, 3]))]
    if rng.random() < 0.3 and cf:
        cf.append(cf[0])            # the same object twice
    if rng.random() < 0.3 and cf:
        cf.append(copy.copy(cf[0]))   # two objects sharing their arrays
    actual = mk()
    cf.append(actual)                # the reference pose itself is scaled too: its distance must come out exact
    expected = np.array(rand_vec(rng)) if not variety else in_class(rng, np, rand_vec(rng), rng.choice(VALUE_CLASSES), nonzero=True)
    rel = 1e-6 if variety else 1e-12
    objs = list(bs.values()) + cf
    snap = [(p, p._R_matrix, p._t_vec, p._R_matrix.copy(), p._t_vec.copy(), p._t_vec.dtype) for p in objs]
    keys, cfids, exp0 = list(bs.keys()), [id(p) for p in cf], copy.deepcopy(expected)
    inp = {'value_classes': sorted(classes), 'bs': {str(k): enc_pose(p) for k, p in bs.items()}, 'cf': [enc_pose(p) for p in cf],
           'translation_dtypes': [str(p._t_vec.dtype) for p in objs], 'expected': [float(v) for v in expected], 'actual': enc_pose(actual)}
    try:
        rb, rc, f = S.scale_fixed_point(bs, cf, expected, actual)
    except Exception as e:
        ctx.witness('scale-raises', 'scale_fixed_point raises on a well-formed input', inp, got=repr(e)[:200])
        return
    for c in classes or {'float64'}:
        ctx.count('search:scale-class:' + c)
    ok_in = list(bs.keys()) == keys and [id(p) for p in cf] == cfids and np.array_equal(f64(np, exp0), f64(np, expected)) and \
        all(p._R_matrix is r and p._t_vec is t and np.array_equal(r, rc_) and np.array_equal(t, tc_) and t.dtype == dt for (p, r, t, rc_, tc_, dt) in snap)
    if not ok_in:
        ctx.witness('scale-modifies-inputs', 'scale_fixed_point modified its inputs', inp)
    ne, na = float(np.linalg.norm(f64(np, expected))), float(np.linalg.norm(f64(np, actual.translation)))
    want = ne / na
    if not abs(float(f) - want) <= rel * want:
        ctx.witness('scale-factor', 'scale factor is not expected distance / actual distance', inp, got=float(f), want=float(want))
    if list(rb.keys()) != keys or len(rc) != len(cf):
        ctx.witness('scale-shape', 'scaled system does not have the poses of the input', inp)
        return
    if not abs(float(np.linalg.norm(f64(np, rc[-1].translation))) - ne) <= rel * max(1.0, ne):
        ctx.witness('scale-reference', 'the reference distance is not correct after scaling (scaled reference pose is not at the expected distance)',
                    inp, factor=float(f), got=float(np.linalg.norm(f64(np, rc[-1].translation))), want=ne)
    for p, q in [(bs[k], rb[k]) for k in keys] + list(zip(cf, rc)):
        if not np.array_equal(q.rot_matrix, p.rot_matrix):
            ctx.witness('scale-rotation', 'scaling changed a rotation', inp)
        wt = f64(np, p.translation) * want
        if np.abs(f64(np, q.translation) - wt).max() > rel * max(1.0, np.abs(wt).max()):
            ctx.witness('scale-not-uniform', 'a translation was not multiplied by the common factor', inp, factor=float(f),
                        translation=[float(v) for v in p.translation], dtype=str(p._t_vec.dtype), got=[float(v) for v in q.translation], want=wt.tolist())


def check_scale_diagonals(ctx, rng):
    """a consistent system (rays really hit the deck sensors), shrunk/grown by s; scaling to the true diagonal must undo s"""
    np, A, S, Pose, LhCfPoseSample, LighthouseBsVector = _mods()
    from cflib.localization.lighthouse_types import LhDeck4SensorPositions
    sensors = [np.array(p, dtype=float) for p in LhDeck4SensorPositions.positions]
    L, W = sensors[2][0] - sensors[0][0], sensors[0][1] - sensors[1][1]
    true_diag = float(math.sqrt(L * L + W * W))       # distance between opposite corners of the sensor rectangle
    ids = rng.sample(range(8), rng.choice([1, 2, 3]))
    s = rng.uniform(0.3, 3.0)
    cls = 'float64' if rng.random() < 0.5 else rng.choice([c for c in VALUE_CLASSES if c != 'mixed'])
    if cls.startswith('int') or cls == 'whole-float':
        s = rng.uniform(1.5, 4.0)          # whole-number coordinates of the GIVEN system: keep the true system room-sized
    ctx.count('search:scale-diag-class:' + cls)
    f32 = cls == 'float32-array'
    # the GIVEN (mis-scaled) system is what the caller holds, in its value class; the true system is given / s
    bs, bs_s = {}, {}
    for i in ids:     # base station up high, looking roughly at the origin region
        while True:
            pos = np.array([rng.uniform(-2, 2), rng.uniform(-2, 2), rng.uniform(1.5, 3.0)])
            given = in_class(rng, np, pos * s, cls)
            pos = f64(np, given) / s
            if np.linalg.norm(np.cross([0.0, 0.0, 1.0], pos)) > 0.2 and pos[2] > 0.5:
                break
        x = -pos / np.linalg.norm(pos)
        up = np.array([0.0, 0.0, 1.0])
        y = np.cross(up, x)
        y /= np.linalg.norm(y)
        z = np.cross(x, y)
        bs[i] = Pose(R_matrix=np.array([x, y, z]).T, t_vec=pos)
        bs_s[i] = Pose(R_matrix=np.array([x, y, z]).T, t_vec=given)
    cf, cf_s = [], []
    for _ in range(rng.choice([1, 2, 4])):
        rv = [rng.uniform(-0.3, 0.3), rng.uniform(-0.3, 0.3), rng.uniform(-3, 3)]
        given = in_class(rng, np, np.array([rng.uniform(-0.7, 0.7), rng.uniform(-0.7, 0.7), rng.uniform(0.0, 0.5)]) * s, cls)
        c = Pose.from_rot_vec(R_vec=rv, t_vec=f64(np, given) / s)
        cf.append(c)
        cf_s.append(Pose(R_matrix=c.rot_matrix, t_vec=given))
    samples = []
    for c in cf:
        ang = {}
        for i in (ids if rng.random() < 0.7 else ids[:1]):
            ang[i] = [LighthouseBsVector.from_cart(bs[i].inv_rotate_translate(c.rotate_translate(s_))) for s_ in sensors]
        samples.append(LhCfPoseSample(angles_calibrated=ang))
    objs = list(bs_s.values()) + cf_s
    snap = [(p, p._R_matrix, p._t_vec, p._R_matrix.copy(), p._t_vec.copy()) for p in objs]
    inp = {'value_class': cls, 'bs': {str(k): enc_pose(p) for k, p in bs_s.items()}, 'cf': [enc_pose(p) for p in cf_s], 'true_diagonal': true_diag, 'system_scale': s,
           'translation_dtypes': [str(p._t_vec.dtype) for p in objs]}
    try:
        rb, rc, f = S.scale_diagonals(bs_s, cf_s, samples, true_diag)
        after = float(S._calculate_mean_diagonal(rb, rc, samples))
    except Exception as e:
        ctx.witness('scale-diag-raises', 'scale_diagonals raises on a consistent system', inp, got=repr(e)[:200])
        return
    if not all(p._R_matrix is r and p._t_vec is t and np.array_equal(r, rc_) and np.array_equal(t, tc_) for (p, r, t, rc_, tc_) in snap):
        ctx.witness('scale-modifies-inputs', 'scale_diagonals modified its inputs', inp)
    if abs(f * s - 1.0) > 1e-4:
        ctx.witness('scale-diag-factor', 'scale_diagonals does not recover the factor that makes the sensor diagonal correct', inp, got=float(f), want=1.0 / s)
    if abs(after - true_diag) > (1e-4 * true_diag if f32 else 1e-9 * max(1.0, true_diag) + 1e-12):
        ctx.witness('scale-diag-reference', 'mean sensor diagonal of the scaled system is not the expected diagonal', inp, got=after, want=true_diag)
    for p, q in [(bs_s[k], rb[k]) for k in bs_s] + list(zip(cf_s, rc)):
        wt = f64(np, p.translation) * float(f)
        if not np.array_equal(q.rot_matrix, p.rot_matrix) or np.abs(f64(np, q.translation) - wt).max() > (1e-6 if f32 else 1e-12) * max(1.0, np.abs(wt).max()):
            ctx.witness('scale-not-uniform', 'scale_diagonals: a pose was not scaled by the common factor with its rotation kept', inp,
                        translation=[float(v) for v in p.translation], dtype=str(p._t_vec.dtype), got=[float(v) for v in q.translation], want=wt.tolist())
    # intersection point lies on the deck plane and on the ray
    for c, smp in zip(cf_s, samples):
        for i, vs in smp.angles_calibrated.items():
            for v in vs:
                pt = S.calc_intersection_point(v, bs_s[i], c)
                n = c.rot_matrix @ np.array([0.0, 0.0, 1.0])
                dirv = bs_s[i].rot_matrix @ v.cart
                off_plane = abs(np.dot(pt - c.translation, n))
                off_ray = np.linalg.norm(np.cross(pt - bs_s[i].translation, dirv))
                if off_plane > (1e-5 if f32 else 1e-9) or off_ray > (1e-5 if f32 else 1e-6) or np.dot(pt - bs_s[i].translation, dirv) < 0:
                    ctx.witness('intersection', 'calc_intersection_point is not on the deck plane and the ray', inp, off_plane=float(off_plane), off_ray=float(off_ray))


def load_corpus():
    out = []
    if os.path.isdir(CORPUS):
        for fn in sorted(os.listdir(CORPUS)):
            if fn.endswith('.json'):
                out.append((fn, json.load(open(os.path.join(CORPUS, fn)))))
    return out


def scenario_from_corpus(c):
    np, A, S, Pose, _, _ = _mods()
    M = Pose.from_rot_vec(R_vec=c['misalignment_rotvec'], t_vec=c['misalignment_translation'])
    xs_w = [np.array(p, dtype=float) for p in c['x_axis_world']]
    pl_w = [np.array(p, dtype=float) for p in c['xy_plane_world']]
    bs_w = {int(k): Pose.from_rot_vec(R_vec=v[:3], t_vec=v[3:]) for k, v in c['bs_world'].items()}
    return {'M': M, 'angle_deg': math.degrees(float(np.linalg.norm(c['misalignment_rotvec']))), 'trans': float(np.linalg.norm(c['misalignment_translation'])),
            'origin': M.rotate_translate(np.zeros(3)), 'xs': [M.rotate_translate(p) for p in xs_w], 'pl': [M.rotate_translate(p) for p in pl_w],
            'bs': {k: M.rotate_translate_pose(p) for k, p in bs_w.items()}, 'bs_w': bs_w, 'xs_w': xs_w, 'pl_w': pl_w, 'noise': 0.0,
            'max_off': max(abs(p[1]) for p in pl_w)}


def search(ctx):
    np, A, S, Pose, _, _ = _mods()
    rng = ctx.rng
    # (0) corpus: deterministic witnesses first
    for fn, c in load_corpus():
        if c.get('kind') == 'align-scenario':
            check_align(ctx, scenario_from_corpus(c), 'corpus:' + fn)
    # (1) alignment, end to end, in the stated domain (<= 30 deg, <= 3 m)
    n = 1200 if ctx.tier == 'quick' else 12000
    stats, capped = {}, 0
    for i in range(n):
        u = rng.random()
        noise = 0.0 if u < 0.8 else rng.choice([0.001, 0.003])
        sc = scenario(rng, Pose, np, noise=noise, min_off=0.0 if rng.random() < 0.3 else 0.3)
        if check_align(ctx, sc, 'random in-domain scenario %d' % i, stats=stats):
            capped += 1
    ctx.count('search:align-scenarios', n)
    ctx.count('search:align-stopped-at-max-nfev', capped)
    ctx.note('search: %d random in-domain alignments, %d missed the reference points because least_squares stopped at max_nfev (%.2f%%)'
             % (n, capped, 100.0 * capped / n))
    # the characterised frequency of D161 is ~0.3 % of in-domain scenarios; far more than that is a different finding
    if capped > max(12, 0.02 * n):
        ctx.witness('lsq-unconverged-rate', 'the aligner stops before convergence far more often than the characterised D161 rate (~0.3 %)',
                    {'scenarios': n, 'stopped_at_max_nfev': capped})
    # (1b) mirror-flipped answers: the de-flip alone on exact flipped candidates, and whole align far outside the domain
    for i in range(200 if ctx.tier == 'quick' else 2000):
        check_deflip(ctx, rng)
    for i in range(300 if ctx.tier == 'quick' else 3000):
        sc = scenario(rng, Pose, np, maxdeg=180.0, maxt=5.0, min_off=0.3)
        check_align(ctx, sc, 'random out-of-domain scenario %d' % i, stats=stats, in_domain=False)
    ctx.count('search:ood-converged', stats.get('ood-converged', 0))
    ctx.count('search:ood-unconverged', stats.get('ood-unconverged', 0))
    # (1a') reference samples / base stations handed over as ints, int arrays, whole floats, float32 arrays
    for i in range(120 if ctx.tier == 'quick' else 1200):
        sc = scenario_in_class(rng, Pose, np)
        ctx.count('search:align-class:' + sc['value_class'])
        check_align(ctx, sc, 'in-domain scenario %d with %s inputs' % (i, sc['value_class']), stats=stats)
    # (1c) several calls in flight: the operations must not communicate through shared state
    for i in range(40 if ctx.tier == 'quick' else 400):
        check_overlapping_aligns(ctx, rng, i, stats)
    for i in range(40 if ctx.tier == 'quick' else 400):
        check_overlapping_scales(ctx, rng, i)
    # (2) scaling
    for i in range(300 if ctx.tier == 'quick' else 3000):
        check_scale(ctx, rng)
    for i in range(150 if ctx.tier == 'quick' else 1500):
        check_scale_diagonals(ctx, rng)

"""C17 - flight helpers (MotionCommander, PositionHlCommander) always end on the ground command and track motion.

Tie A: constants (VELOCITY, RATE, UPDATE_PERIOD, estimator-reset sleeps, HL defaults), the direction tables of the
wrappers (translated argument expressions), the height formula of the set-point thread, the distance / duration
expressions, the statement skeletons of take_off / land / __enter__ / __exit__ / run and the presence of the
try/finally (try/except) protection of the descent are re-extracted from cflib/positioning into Gen/C17.lean.
Tie B: the real MotionCommander (with its real _SetPointThread) runs under harness/vsched (virtual time, explored
interleavings) against a recording commander; the observed schedule is replayed on the Lean machine (Driver/C17.lean),
which must accept it and produce the same timed commander trace.  The real PositionHlCommander runs against a recording
high-level commander with a virtual clock and is compared with the Lean interpreter.
"""
import ast
import contextlib
import io
import math
from decimal import Decimal
from fractions import Fraction

from harness.lib import extract as X
from harness.lib.common import ExtractError  # noqa: F401

PID = 'C17'
LEAN_TARGETS = ['CfVerif.Props.C17']
PROPS_MODULES = ['CfVerif.Props.C17']
DRIVER = 'Driver/C17.lean'
REQUIRED_THEOREMS = ['CfVerif.C17.' + n for n in (
    'mc_ends_stopped', 'mc_ends_stopped_current', 'mc_no_deadlock', 'mc_unrepaired_counterexample_takeoff',
    'mc_unrepaired_counterexample_land', 'hover_stream_period', 'hover_stream_period_current', 'height_integrates',
    'primitive_displacement', 'sleep_is_exact', 'blocking_primitive_tracks', 'go_is_move',
    'turn_displacement', 'circle_displacement', 'hl_goto_targets_position_with_duration', 'hl_move_is_goto', 'hl_position_is_sum',
    'hl_ends_stopped', 'hl_ends_stopped_current', 'hl_unrepaired_counterexample', 'gen_mc_protected', 'gen_hl_protected', 'gen_axes')]
TRUSTED = ['harness/corr/c17.py extractor + correspondence',
           'harness/vsched (virtual time; atomicity at yield-point granularity; the explored schedules)',
           'virtual-time idealisation: code takes no time, time passes only when no thread can run',
           'binary64 arithmetic of the real code vs exact rationals in the model (compared to 1e-9; math.sqrt / math.pi are parameters of the model)',
           'queue.Queue is FIFO; Queue.get(timeout) prefers an available item over the timeout; Thread.join returns once run() has returned']
ASSUMPTIONS = ['the commander / high-level commander / param calls themselves do not raise (link errors are outside the model)',
               'one commanding thread per MotionCommander; races inside one loop iteration of the set-point thread are equivalent to the atomic iteration (argued in docs/C17.md)',
               'termination of every schedule (fairness) is not proved; absence of deadlock and quiescence after exit are']
RULE = ('cases = generated MotionCommander programs (<= 8 primitives of all kinds incl. explicit take_off/land, dyadic arguments, zero / negative '
        'distances, velocities, rates, an exception raised at a random body position, context-manager and bare use) x interleavings '
        '(non-preemptive, seeded random, bounded DFS for short programs) replayed on the Lean machine, + PositionHlCommander programs; '
        'distinct + non-trivial = distinct (program, constructor arguments, observed schedule)')

MC = 'cflib/positioning/motion_commander.py'
HL = 'cflib/positioning/position_hl_commander.py'


# =========================================================================================================
# Tie A
# =========================================================================================================
def _body(fn):
    return [s for s in fn.body if not (isinstance(s, ast.Expr) and isinstance(s.value, ast.Constant) and isinstance(s.value.value, str))]


def _stmts(body):
    return [ast.unparse(s) for s in body if not (isinstance(s, ast.Expr) and isinstance(s.value, ast.Constant)
                                                   and isinstance(s.value.value, str))]


def _frac_of_literal(node):
    """exact rational meaning of a numeric literal as written in the source (0.2 -> 1/5, not the binary64 value)"""
    seg = ast.unparse(node)
    try:
        return Fraction(Decimal(seg))
    except Exception:
        raise ExtractError('not a decimal literal: %s' % seg)


def lrat(fr):
    fr = Fraction(fr)
    s = '(%d : Rat)' % abs(fr.numerator) if fr.denominator == 1 else '((%d : Rat) / %d)' % (abs(fr.numerator), fr.denominator)
    return s if fr >= 0 else '(-%s)' % s


def const_value(node, consts=None):
    """evaluate a constant numeric expression (literals, + - * /, names of earlier constants) exactly"""
    consts = consts or {}
    if isinstance(node, ast.Constant) and isinstance(node.value, (int, float)) and not isinstance(node.value, bool):
        return _frac_of_literal(node)
    if isinstance(node, ast.Name) and node.id in consts:
        return consts[node.id]
    if isinstance(node, ast.UnaryOp) and isinstance(node.op, ast.USub):
        return -const_value(node.operand, consts)
    if isinstance(node, ast.BinOp):
        a, b = const_value(node.left, consts), const_value(node.right, consts)
        if isinstance(node.op, ast.Add):
            return a + b
        if isinstance(node.op, ast.Sub):
            return a - b
        if isinstance(node.op, ast.Mult):
            return a * b
        if isinstance(node.op, ast.Div) and b != 0:
            return a / b
    raise ExtractError('not a constant numeric expression: %s' % ast.unparse(node))


def rexpr(node, env):
    """translate a division-free (except by non-zero literals) arithmetic expression to a Lean term over Rat.
    env maps python source text of names/attributes/calls to Lean terms."""
    src = ast.unparse(node)
    if src in env:
        return env[src]
    if isinstance(node, ast.Constant) and isinstance(node.value, (int, float)) and not isinstance(node.value, bool):
        return lrat(_frac_of_literal(node))
    if isinstance(node, ast.UnaryOp) and isinstance(node.op, ast.USub):
        return '(-%s)' % rexpr(node.operand, env)
    if isinstance(node, ast.BinOp):
        a = rexpr(node.left, env)
        if isinstance(node.op, ast.Div):
            d = const_value(node.right)          # only division by a literal is translated (never raises in Python)
            X.expect(d != 0, 'division by literal zero: ' + src)
            return '(%s / %s)' % (a, lrat(d))
        b = rexpr(node.right, env)
        for t, o in ((ast.Add, '+'), (ast.Sub, '-'), (ast.Mult, '*')):
            if isinstance(node.op, t):
                return '(%s %s %s)' % (a, o, b)
    if isinstance(node, ast.Call) and ast.unparse(node.func) == 'abs' and len(node.args) == 1 and not node.keywords:
        e = rexpr(node.args[0], env)
        return '(if (0 : Rat) ≤ %s then %s else (-%s))' % (e, e, e)
    raise ExtractError('untranslatable arithmetic expression: %s' % src)


def _single_call(fn, callee, where):
    """the wrapper `fn` must consist of exactly one statement `self.<callee>(args...)`; returns the arg nodes"""
    b = _body(fn)
    X.expect(len(b) == 1 and isinstance(b[0], ast.Expr) and isinstance(b[0].value, ast.Call)
             and ast.unparse(b[0].value.func) == 'self.' + callee and not b[0].value.keywords,
             '%s: expected the single statement self.%s(...), found %s' % (where, callee, _stmts(b)))
    return b[0].value.args


def _assign_map(fn):
    return {ast.unparse(n.targets[0]): n.value for n in ast.walk(fn) if isinstance(n, ast.Assign) and len(n.targets) == 1}


def _defaults(fn):
    """{arg name: default node} of a function definition"""
    a = fn.args
    names = [x.arg for x in a.args]
    return dict(zip(names[len(names) - len(a.defaults):], a.defaults))


def _try_shape(stmts, where):
    """(prefix statements, try node or None, suffix statements) of a statement list holding at most one try"""
    trys = [s for s in stmts if isinstance(s, ast.Try)]
    X.expect(len(trys) <= 1, where + ': more than one try statement')
    if not trys:
        return stmts, None, []
    i = stmts.index(trys[0])
    return stmts[:i], trys[0], stmts[i + 1:]


def _lbool(b):
    return 'true' if b else 'false'


DIRS = ('left', 'right', 'forward', 'back', 'up', 'down')


def extract(ctx):
    g = X.GenFile(PID, [MC, HL])
    tree = X.parse(MC)
    mc = X.find(tree, 'MotionCommander')
    sp = X.find(tree, '_SetPointThread')

    # ---- constants -----------------------------------------------------------------------------------
    consts = {}
    for cls, names in ((mc, ('VELOCITY', 'RATE')), (sp, ('UPDATE_PERIOD',))):
        for s in cls.body:
            if isinstance(s, ast.Assign) and len(s.targets) == 1 and isinstance(s.targets[0], ast.Name) and s.targets[0].id in names:
                consts[s.targets[0].id] = const_value(s.value, consts)
    for n in ('VELOCITY', 'RATE', 'UPDATE_PERIOD'):
        X.expect(n in consts, 'constant %s not found' % n)
        g.raw('def %s : Rat := %s' % (n, lrat(consts[n])))
    ints = X.int_assigns(sp)
    X.expect('ABS_Z_INDEX' in ints, '_SetPointThread.ABS_Z_INDEX not found')
    g.nat('ABS_Z_INDEX', ints['ABS_Z_INDEX'])
    ini = X.find(sp, '__init__')
    g.string('threadPeriodDefault', ast.unparse(_defaults(ini).get('update_period', ast.Constant(None))))
    g.strings('threadInit', [s for s in _stmts(_body(ini)) if s.startswith('self._') or s.startswith('self.update_period')])
    dflt = _defaults(X.find(mc, '__init__')).get('default_height')
    X.expect(dflt is not None, 'MotionCommander.__init__: default_height has no default')
    g.raw('def mcDefaultHeight : Rat := %s' % lrat(const_value(dflt)))

    # default velocity / rate arguments of every primitive are the class constants
    dv = {}
    for name in DIRS + ('move_distance', 'circle_left', 'circle_right', 'take_off', 'land') + tuple('start_' + d for d in DIRS) + \
            ('start_circle_left', 'start_circle_right'):
        d = _defaults(X.find(mc, name))
        X.expect('velocity' in d, 'MotionCommander.%s: no default velocity' % name)
        dv[name] = ast.unparse(d['velocity'])
    g.strings('mcVelocityDefaults', sorted(set(dv.values())))
    dr = {}
    for name in ('turn_left', 'turn_right', 'start_turn_left', 'start_turn_right'):
        d = _defaults(X.find(mc, name))
        X.expect('rate' in d, 'MotionCommander.%s: no default rate' % name)
        dr[name] = ast.unparse(d['rate'])
    g.strings('mcRateDefaults', sorted(set(dr.values())))
    for name in ('circle_left', 'circle_right'):
        d = _defaults(X.find(mc, name))
        X.expect('angle_degrees' in d, 'MotionCommander.%s: no default angle' % name)
    g.raw('def circleDefaultAngle : Rat := %s' % lrat(const_value(_defaults(X.find(mc, 'circle_left'))['angle_degrees'])))
    g.raw('def circleDefaultAngleR : Rat := %s' % lrat(const_value(_defaults(X.find(mc, 'circle_right'))['angle_degrees'])))
    g.string('startLinearYawDefault', ast.unparse(_defaults(X.find(mc, 'start_linear_motion')).get('rate_yaw', ast.Constant(None))))

    # ---- direction tables: the wrappers are single calls with translated argument expressions ---------------
    for d in DIRS:
        a = _single_call(X.find(mc, d), 'move_distance', 'MotionCommander.' + d)
        X.expect(len(a) == 4 and ast.unparse(a[3]) == 'velocity', 'MotionCommander.%s: arguments %s' % (d, [ast.unparse(x) for x in a]))
        g.raw('def mcGo_%s (d : Rat) : Rat × Rat × Rat := (%s, %s, %s)' % ((d,) + tuple(rexpr(x, {'distance_m': 'd'}) for x in a[:3])))
        a = _single_call(X.find(mc, 'start_' + d), 'start_linear_motion', 'MotionCommander.start_' + d)
        X.expect(len(a) == 3, 'MotionCommander.start_%s: arguments' % d)
        g.raw('def mcStart_%s (v : Rat) : Rat × Rat × Rat := (%s, %s, %s)' % ((d,) + tuple(rexpr(x, {'velocity': 'v'}) for x in a)))
    a = _single_call(X.find(mc, 'start_linear_motion'), '_set_vel_setpoint', 'start_linear_motion')
    g.strings('startLinearArgs', [ast.unparse(x) for x in a])
    a = _single_call(X.find(mc, 'stop'), '_set_vel_setpoint', 'MotionCommander.stop')
    X.expect(len(a) == 4, 'MotionCommander.stop: arguments')
    g.raw('def mcStopSP : Rat × Rat × Rat × Rat := (%s, %s, %s, %s)' % tuple(rexpr(x, {}) for x in a))
    for side in ('left', 'right'):
        a = _single_call(X.find(mc, 'start_turn_' + side), '_set_vel_setpoint', 'start_turn_' + side)
        X.expect(len(a) == 4, 'start_turn_%s: arguments' % side)
        g.raw('def mcStartTurn_%s (rate : Rat) : Rat × Rat × Rat × Rat := (%s, %s, %s, %s)' % ((side,) + tuple(rexpr(x, {'rate': 'rate'}) for x in a)))
        # start_circle_x: circumference / rate expressions + the set-point tuple
        f = X.find(mc, 'start_circle_' + side)
        am = _assign_map(f)
        X.expect('circumference' in am and 'rate' in am, 'start_circle_%s: circumference / rate assignments' % side)
        g.raw('def mcCircumference_%s (r pi : Rat) : Rat := %s' % (side, rexpr(am['circumference'], {'radius_m': 'r', 'math.pi': 'pi'})))
        rt = am['rate']
        X.expect(isinstance(rt, ast.BinOp) and isinstance(rt.op, ast.Div) and ast.unparse(rt.right) == 'circumference',
                 'start_circle_%s: rate is not <expr> / circumference: %s' % (side, ast.unparse(rt)))
        g.raw('def mcCircleRateNum_%s (v : Rat) : Rat := %s' % (side, rexpr(rt.left, {'velocity': 'v'})))
        calls = [s for s in _body(f) if isinstance(s, ast.Expr) and isinstance(s.value, ast.Call)]
        X.expect(len(calls) == 1 and ast.unparse(calls[0].value.func) == 'self._set_vel_setpoint' and len(calls[0].value.args) == 4
                 and len(_body(f)) == 3, 'start_circle_%s: expected two assignments and one _set_vel_setpoint call' % side)
        g.raw('def mcStartCircle_%s (v rate : Rat) : Rat × Rat × Rat × Rat := (%s, %s, %s, %s)' %
              ((side,) + tuple(rexpr(x, {'velocity': 'v', 'rate': 'rate'}) for x in calls[0].value.args)))
        # circle_x: distance expression, flight time, call sequence
        f = X.find(mc, 'circle_' + side)
        am = _assign_map(f)
        X.expect('distance' in am and 'flight_time' in am, 'circle_%s: distance / flight_time assignments' % side)
        g.raw('def mcCircleDistance_%s (r pi a : Rat) : Rat := %s' %
              (side, rexpr(am['distance'], {'radius_m': 'r', 'math.pi': 'pi', 'angle_degrees': 'a'})))
        g.strings('mcCircle_%s' % side, _stmts(_body(f))[1:])
        f = X.find(mc, 'turn_' + side)
        g.strings('mcTurn_%s' % side, _stmts(_body(f)))

    # ---- move_distance ------------------------------------------------------------------------------------
    f = X.find(mc, 'move_distance')
    am = _assign_map(f)
    X.expect('distance' in am and isinstance(am['distance'], ast.Call) and ast.unparse(am['distance'].func) == 'math.sqrt'
             and len(am['distance'].args) == 1, 'move_distance: distance is not math.sqrt(<expr>)')
    env3 = {'distance_x_m': 'dx', 'distance_y_m': 'dy', 'distance_z_m': 'dz'}
    g.raw('def mcMoveNorm2 (dx dy dz : Rat) : Rat := %s' % rexpr(am['distance'].args[0], env3))
    g.strings('mcMoveBody', _stmts(_body(f))[1:])
    g.strings('mcSetVel', _stmts(_body(X.find(mc, '_set_vel_setpoint'))))

    # ---- take_off / land / context manager ---------------------------------------------------------------------
    rs = _body(X.find(mc, '_reset_position_estimator'))
    g.strings('mcResetShape', [ast.unparse(s.value.func) if isinstance(s, ast.Expr) and isinstance(s.value, ast.Call) else '?' for s in rs])
    sl = [s.value.args[0] for s in rs if isinstance(s, ast.Expr) and isinstance(s.value, ast.Call) and ast.unparse(s.value.func) == 'time.sleep']
    X.expect(len(sl) == 2, '_reset_position_estimator: expected two sleeps')
    g.raw('def mcResetSleep1 : Rat := %s' % lrat(const_value(sl[0])))
    g.raw('def mcResetSleep2 : Rat := %s' % lrat(const_value(sl[1])))
    g.strings('mcResetParams', [ast.unparse(s.value.args[0]) + '=' + ast.unparse(s.value.args[1]) for s in rs
                                if isinstance(s, ast.Expr) and isinstance(s.value, ast.Call) and ast.unparse(s.value.func).endswith('set_value')])
    to = _body(X.find(mc, 'take_off'))
    pre, tr, post = _try_shape(to, 'MotionCommander.take_off')
    g.strings('mcTakeoffPre', _stmts(pre))
    if tr is None:
        g.raw('def mcTakeoffGuarded : Bool := false')
        g.strings('mcTakeoffTry', [])
        g.strings('mcTakeoffHandler', [])
    else:
        X.expect(len(tr.handlers) == 1 and not tr.finalbody and not tr.orelse and not post, 'take_off: unexpected try shape')
        h = tr.handlers[0]
        g.raw('def mcTakeoffGuarded : Bool := true')
        g.strings('mcTakeoffTry', _stmts(tr.body))
        g.strings('mcTakeoffHandler', ['except ' + (ast.unparse(h.type) if h.type is not None else '')] + _stmts(h.body))
    ld = _body(X.find(mc, 'land'))
    X.expect(len(ld) == 1 and isinstance(ld[0], ast.If) and not ld[0].orelse, 'MotionCommander.land: expected a single `if self._is_flying:` block')
    g.string('mcLandGuard', ast.unparse(ld[0].test))
    pre, tr, post = _try_shape(_body(ld[0]), 'MotionCommander.land')
    if tr is None:
        g.raw('def mcLandFinally : Bool := false')
        g.strings('mcLandDescent', _stmts(pre[:1]))
        g.strings('mcLandCleanup', _stmts(pre[1:]))
    else:
        X.expect(not pre and not post and not tr.handlers and not tr.orelse and tr.finalbody, 'MotionCommander.land: unexpected try shape')
        g.raw('def mcLandFinally : Bool := true')
        g.strings('mcLandDescent', _stmts(tr.body))
        g.strings('mcLandCleanup', _stmts(tr.finalbody))
    g.strings('mcEnter', _stmts(_body(X.find(mc, '__enter__'))))
    g.strings('mcExit', _stmts(_body(X.find(mc, '__exit__'))))

    # ---- the set-point thread --------------------------------------------------------------------------------
    cz = _body(X.find(sp, '_current_z'))
    X.expect(len(cz) == 2 and isinstance(cz[1], ast.Return) and ast.unparse(cz[0]) == 'now = time.time()', '_current_z: shape')
    g.raw('def spCurrentZ (zBase zVel zT now : Rat) : Rat := %s' %
          rexpr(cz[1].value, {'self._z_base': 'zBase', 'self._z_velocity': 'zVel', 'self._z_base_time': 'zT', 'now': 'now'}))
    g.strings('spNewSetpoint', _stmts(_body(X.find(sp, '_new_setpoint'))))
    g.strings('spUpdateZ', _stmts(_body(X.find(sp, '_update_z_in_setpoint'))))
    g.strings('spGetHeight', _stmts(_body(X.find(sp, 'get_height'))))
    g.strings('spStop', _stmts(_body(X.find(sp, 'stop'))))
    g.strings('spSetVel', _stmts(_body(X.find(sp, 'set_vel_setpoint'))))
    run = _body(X.find(sp, 'run'))
    X.expect(len(run) == 1 and isinstance(run[0], ast.While) and ast.unparse(run[0].test) == 'True', '_SetPointThread.run: expected `while True:`')
    lb = run[0].body
    X.expect(len(lb) == 3 and isinstance(lb[0], ast.Try) and len(lb[0].handlers) == 1 and not lb[0].finalbody and not lb[0].orelse,
             '_SetPointThread.run: loop body shape')
    g.strings('spRunTry', _stmts(lb[0].body))
    g.string('spRunHandler', ast.unparse(lb[0].handlers[0].type) + ': ' + '; '.join(_stmts(lb[0].handlers[0].body)))
    g.strings('spRunTail', _stmts(lb[1:]))

    # ---- PositionHlCommander ------------------------------------------------------------------------------------
    ht = X.parse(HL)
    hl = X.find(ht, 'PositionHlCommander')
    d = _defaults(X.find(hl, '__init__'))
    for py, ln in (('x', 'hlX0'), ('y', 'hlY0'), ('z', 'hlZ0'), ('default_velocity', 'hlDefaultVelocity'), ('default_height', 'hlDefaultHeight'),
                   ('default_landing_height', 'hlDefaultLandingHeight')):
        X.expect(py in d, 'PositionHlCommander.__init__: no default for ' + py)
        g.raw('def %s : Rat := %s' % (ln, lrat(const_value(d[py]))))
    g.strings('hlInit', [s for s in _stmts(_body(X.find(hl, '__init__'))) if s.startswith('self._') and 'crazyflie' not in s and '_cf' not in s.split('=')[0]])
    g.strings('hlActivate', _stmts(_body(X.find(hl, '_activate_controller'))))
    for d_ in DIRS:
        a = _single_call(X.find(hl, d_), 'move_distance', 'PositionHlCommander.' + d_)
        X.expect(len(a) == 4 and ast.unparse(a[3]) == 'velocity', 'PositionHlCommander.%s: arguments' % d_)
        g.raw('def hlGo_%s (d : Rat) : Rat × Rat × Rat := (%s, %s, %s)' % ((d_,) + tuple(rexpr(x, {'distance_m': 'd'}) for x in a[:3])))
    f = X.find(hl, 'move_distance')
    am = _assign_map(f)
    envp = {'self._x': 'x', 'self._y': 'y', 'self._z': 'z', 'distance_x_m': 'dx', 'distance_y_m': 'dy', 'distance_z_m': 'dz'}
    X.expect(all(k in am for k in 'xyz'), 'PositionHlCommander.move_distance: x/y/z assignments')
    g.raw('def hlMoveTarget (x y z dx dy dz : Rat) : Rat × Rat × Rat := (%s, %s, %s)' % tuple(rexpr(am[k], envp) for k in 'xyz'))
    g.strings('hlMoveCall', [s for s in _stmts(_body(f)) if 'go_to' in s])
    f = X.find(hl, 'go_to')
    am = _assign_map(f)
    X.expect(all(k in am for k in ('z', 'dx', 'dy', 'dz', 'distance')), 'go_to: assignments')
    envg = {'self._x': 'x0', 'self._y': 'y0', 'self._z': 'z0', 'x': 'x', 'y': 'y', 'z': 'z'}
    g.raw('def hlDelta (x0 y0 z0 x y z : Rat) : Rat × Rat × Rat := (%s, %s, %s)' % tuple(rexpr(am[k], envg) for k in ('dx', 'dy', 'dz')))
    X.expect(isinstance(am['distance'], ast.Call) and ast.unparse(am['distance'].func) == 'math.sqrt', 'go_to: distance is not math.sqrt(...)')
    g.raw('def hlNorm2 (dx dy dz : Rat) : Rat := %s' % rexpr(am['distance'].args[0], {'dx': 'dx', 'dy': 'dy', 'dz': 'dz'}))
    g.strings('hlGoTo', _stmts(_body(f)))
    # take_off
    f = X.find(hl, 'take_off')
    g.strings('hlTakeoff', _stmts(_body(f)))
    am = _assign_map(f)
    X.expect('hold_back' in am, 'take_off: hold_back')
    g.raw('def hlHoldBack (initTime now : Rat) : Rat := %s' % rexpr(am['hold_back'], {'self._init_time': 'initTime', 'now': 'now'}))
    # land
    ld = _body(X.find(hl, 'land'))
    X.expect(len(ld) == 1 and isinstance(ld[0], ast.If) and not ld[0].orelse, 'PositionHlCommander.land: expected a single `if self._is_flying:` block')
    g.string('hlLandGuard', ast.unparse(ld[0].test))
    pre, tr, post = _try_shape(_body(ld[0]), 'PositionHlCommander.land')
    if tr is None:
        descent, cleanup = pre[:-2], pre[-2:]
        g.raw('def hlLandFinally : Bool := false')
    else:
        X.expect(not pre and not post and not tr.handlers and not tr.orelse and tr.finalbody, 'PositionHlCommander.land: unexpected try shape')
        descent, cleanup = tr.body, tr.finalbody
        g.raw('def hlLandFinally : Bool := true')
    g.strings('hlLandDescent', _stmts(descent))
    g.strings('hlLandCleanup', _stmts(cleanup))
    dm = {ast.unparse(s.targets[0]): s.value for s in descent if isinstance(s, ast.Assign) and len(s.targets) == 1}
    X.expect('duration_s' in dm and isinstance(dm['duration_s'], ast.BinOp) and isinstance(dm['duration_s'].op, ast.Div)
             and ast.unparse(dm['duration_s'].right) == 'self._velocity(velocity)', 'PositionHlCommander.land: duration_s is not <expr> / self._velocity(velocity)')
    g.raw('def hlLandNumer (z lh : Rat) : Rat := %s' % rexpr(dm['duration_s'].left, {'self._z': 'z', 'landing_height': 'lh'}))
    g.strings('hlEnter', _stmts(_body(X.find(hl, '__enter__'))))
    g.strings('hlExit', _stmts(_body(X.find(hl, '__exit__'))))
    for n in ('_velocity', '_height', '_landing_height', 'set_default_velocity', 'set_default_height', 'set_landing_height', 'get_position'):
        g.strings('hl' + ''.join(w.capitalize() for w in n.strip('_').split('_')), _stmts(_body(X.find(hl, n))))
    return {'C17.lean': g.render()}


# =========================================================================================================
# Programs (shared by the real-code runners, the Lean lines and the spec twin)
# =========================================================================================================
# A primitive is a tuple (op, args...) with floats / None (= argument omitted, the method's default applies):
#  MotionCommander: ('go', dir, d, v) ('mv', dx, dy, dz, v) ('turn', side, angle, rate) ('circ', side, r, v, angle)
#                   ('st', dir, v) ('sl', vx, vy, vz, yaw) ('stt', side, rate) ('stc', side, r, v) ('stop',) ('wait', d)
#                   ('to', h, v) ('land', v) ('raise',)
#  PositionHlCommander: ('go', dir, d, v) ('mv', dx, dy, dz, v) ('goto', x, y, z, v) ('sdv', v) ('sdh', h) ('slh', h)
#                   ('to', h, v) ('land', v, lh) ('wait', d) ('raise',)
DIRNAME = {'l': 'left', 'r': 'right', 'f': 'forward', 'b': 'back', 'u': 'up', 'd': 'down'}
SIDENAME = {'l': 'left', 'r': 'right'}


class Injected(Exception):
    """the exception raised by the body of the with block"""


def _kw(**kw):
    return {k: v for k, v in kw.items() if v is not None}


def apply_mc(mc, p, sleep):
    op = p[0]
    if op == 'go':
        getattr(mc, DIRNAME[p[1]])(p[2], **_kw(velocity=p[3]))
    elif op == 'mv':
        mc.move_distance(p[1], p[2], p[3], **_kw(velocity=p[4]))
    elif op == 'turn':
        getattr(mc, 'turn_' + SIDENAME[p[1]])(p[2], **_kw(rate=p[3]))
    elif op == 'circ':
        getattr(mc, 'circle_' + SIDENAME[p[1]])(p[2], **_kw(velocity=p[3], angle_degrees=p[4]))
    elif op == 'st':
        getattr(mc, 'start_' + DIRNAME[p[1]])(**_kw(velocity=p[2]))
    elif op == 'sl':
        mc.start_linear_motion(p[1], p[2], p[3], **_kw(rate_yaw=p[4]))
    elif op == 'stt':
        getattr(mc, 'start_turn_' + SIDENAME[p[1]])(**_kw(rate=p[2]))
    elif op == 'stc':
        getattr(mc, 'start_circle_' + SIDENAME[p[1]])(p[2], **_kw(velocity=p[3]))
    elif op == 'stop':
        mc.stop()
    elif op == 'wait':
        sleep(p[1])
    elif op == 'to':
        mc.take_off(**_kw(height=p[1], velocity=p[2]))
    elif op == 'land':
        mc.land(**_kw(velocity=p[1]))
    elif op == 'raise':
        raise Injected()
    else:
        raise AssertionError('unknown primitive %r' % (p,))


def apply_hl(pc, p, sleep):
    op = p[0]
    if op == 'go':
        getattr(pc, DIRNAME[p[1]])(p[2], **_kw(velocity=p[3]))
    elif op == 'mv':
        pc.move_distance(p[1], p[2], p[3], **_kw(velocity=p[4]))
    elif op == 'goto':
        pc.go_to(p[1], p[2], **_kw(z=p[3], velocity=p[4]))
    elif op == 'sdv':
        pc.set_default_velocity(p[1])
    elif op == 'sdh':
        pc.set_default_height(p[1])
    elif op == 'slh':
        pc.set_landing_height(p[1])
    elif op == 'to':
        pc.take_off(**_kw(height=p[1], velocity=p[2]))
    elif op == 'land':
        pc.land(**_kw(velocity=p[1], landing_height=p[2]))
    elif op == 'wait':
        sleep(p[1])
    elif op == 'raise':
        raise Injected()
    else:
        raise AssertionError('unknown primitive %r' % (p,))


def exc_name(e):
    if e is None:
        return 'none'
    if isinstance(e, Injected):
        return 'injected'
    if isinstance(e, ZeroDivisionError):
        return 'zero_div'
    if isinstance(e, ValueError):
        return 'value_error'
    if type(e) is Exception:
        m = str(e)
        if m.startswith('Can not move on the ground'):
            return 'not_flying'
        if m == 'Already flying':
            return 'already_flying'
        if m == 'Crazyflie is not connected':
            return 'not_connected'
    return 'other:' + type(e).__name__


def rat(x):
    """rational text of a float / int argument: its shortest decimal representation read exactly (0.2 -> 1/5), the same
    convention as for the literals of the source (dyadic arguments are unaffected; for the others the binary64 run
    and the exact model differ by rounding only, which the stated tolerances absorb)"""
    fr = x if isinstance(x, Fraction) else Fraction(Decimal(repr(x)))
    return '%d' % fr.numerator if fr.denominator == 1 else '%d/%d' % (fr.numerator, fr.denominator)


def opt(x):
    return '_' if x is None else rat(x)


def prim_text(p):
    op = p[0]
    if op in ('stop', 'raise'):
        return op
    out = [op]
    for i, a in enumerate(p[1:]):
        if isinstance(a, str):
            out.append(a)
        elif a is None:
            out.append('_')
        else:
            out.append(rat(a))
    return ':'.join(out)


def prog_text(prog):
    return ';'.join(prim_text(p) for p in prog) if prog else '-'


# =========================================================================================================
# Real code under the virtual scheduler
# =========================================================================================================
TRACE_POINTS = [('land', 'self._thread.get_height()')]
MAIN_OPS = ('sleep', 'start', 'put', 'join', 'trace')
MAIN_EMITS = ('param', 'stop', 'notify')


WIRE_VERSIONS = (6, 7, 8, 9, 10)      # both sides of the hover switch (<= 8 legacy) and of the go_to switch (< 8 legacy)


def _wire_cf(vsched, connected, ver):
    """the REAL Commander / HighLevelCommander / PlatformService / Crazyflie.send_packet (C08's stub Crazyflie, built from the
    modules imported inside the vsched session) over a recording link: what is observed is the packet handed to the link driver"""
    import warnings
    from harness.corr import c08
    warnings.simplefilter('ignore', DeprecationWarning)   # cflib/__init__ switches them to 'always' when it is (re)imported; the legacy hover branch warns per packet
    saved = c08._STUB.pop('cls', None)          # C08 caches the class of the modules it imported outside the session
    try:
        cls = c08._stub_class()
    finally:
        c08._STUB.pop('cls', None)
        if saved is not None:
            c08._STUB['cls'] = saved

    class Link:
        needs_resending = False

        def send_packet(self, pk):
            vsched.emit('pkt', vsched.now(), pk.header, bytes(pk.data))

    class Param:
        def set_value(self, name, value):
            vsched.emit('param', vsched.now(), name, value)
    cf = cls(ver)
    cf.link = Link()
    cf.param = Param()
    cf.is_connected = lambda: connected
    return cf


def decode_packet(ver, t, header, data):
    """firmware-side view of one packet (C08's decoder twin) as a C17 event; anything unexpected is a '?' event"""
    from harness.corr import c08
    from harness.lib.common import bits_f32
    w = c08.fw_decode(ver, header, data).split(' ')
    v = [int(x) for x in w[1:]] if all(x.lstrip('-').isdigit() for x in w[1:]) else None
    if w[0] == 'hover' and v:
        return (t, 'H') + tuple(bits_f32(b) for b in v)
    if w[0] == 'stop':
        return (t, 'S')
    if w[0] == 'notifySetpointsStop' and v:
        return (t, 'N', v[0])
    if w[0] in ('hlTakeoff2', 'hlLand2') and v and v[0] == 0 and (v[3] == 1 or bits_f32(v[2]) == 0.0):   # all groups; current yaw or yaw 0.0 (the API default)
        return ('hl', t, 'T' if w[0] == 'hlTakeoff2' else 'L', bits_f32(v[1]), bits_f32(v[4]))
    if w[0] == 'hlGoTo2' and v and v[0] == 0 and v[2] == 0:                        # all groups, not linear
        return ('hl', t, 'G') + tuple(bits_f32(b) for b in v[3:6]) + (bits_f32(v[6]), bits_f32(v[7]), bool(v[1]))
    if w[0] == 'hlGoTo' and v and v[0] == 0:
        return ('hl', t, 'G') + tuple(bits_f32(b) for b in v[2:5]) + (bits_f32(v[5]), bits_f32(v[6]), bool(v[1]))
    if w[0] == 'hlStop' and v and v[0] == 0:
        return ('hl', t, 'S')
    return (t, '?', ' '.join(w), header, bytes(data).hex())


def observed(res, wire):
    """the run's trace with every packet replaced by what the firmware of protocol version `wire` decodes from it"""
    for tid, kind, label, info in res.trace:
        if kind == 'emit' and info[0] == 'pkt':
            e = decode_packet(wire, info[1], info[2], info[3])
            if e[0] == 'hl':
                yield tid, 'emit', label, e
            elif e[1] == 'H':
                yield tid, 'emit', label, ('hover',) + (e[0],) + e[2:]
            elif e[1] == 'S':
                yield tid, 'emit', label, ('stop', e[0])
            elif e[1] == 'N':
                yield tid, 'emit', label, ('notify', e[0], e[2])
            else:
                yield tid, 'emit', label, ('undecodable', e[0]) + e[2:]
        else:
            yield tid, kind, label, info


def _fake_cf(vsched, connected, wire=None):
    if wire is not None:
        return _wire_cf(vsched, connected, wire)

    class Commander:
        def send_hover_setpoint(self, vx, vy, yawrate, zdistance):
            vsched.emit('hover', vsched.now(), vx, vy, yawrate, zdistance)

        def send_stop_setpoint(self):
            vsched.emit('stop', vsched.now())

        def send_notify_setpoint_stop(self, remain_valid_milliseconds=0):
            vsched.emit('notify', vsched.now(), remain_valid_milliseconds)

    class HighLevel:
        def takeoff(self, absolute_height_m, duration_s, group_mask=0, yaw=0.0):
            vsched.emit('hl', vsched.now(), 'T', absolute_height_m, duration_s)

        def land(self, absolute_height_m, duration_s, group_mask=0, yaw=0.0):
            vsched.emit('hl', vsched.now(), 'L', absolute_height_m, duration_s)

        def go_to(self, x, y, z, yaw, duration_s, relative=False, linear=False, group_mask=0):
            vsched.emit('hl', vsched.now(), 'G', x, y, z, yaw, duration_s, relative)

        def stop(self, group_mask=0):
            vsched.emit('hl', vsched.now(), 'S')

    class Param:
        def set_value(self, name, value):
            vsched.emit('param', vsched.now(), name, value)

    class CF:
        def __init__(self):
            self.commander = Commander()
            self.high_level_commander = HighLevel()
            self.param = Param()

        def is_connected(self):
            return connected
    return CF()


def mc_main(vsched, prog, mode, default_height, connected, state, instrument=False, wire=None):
    """the function run as the controlled main thread; `state` receives what the run leaves behind.
    instrument=True (failing-input search only): the set-points handed to the thread and the primitive boundaries are logged"""
    def main():
        import cflib.positioning.motion_commander as m
        base = getattr(m._SetPointThread, '_c17_base', m._SetPointThread)
        if instrument:
            class Rec(base):
                _c17_base = base

                def set_vel_setpoint(self, velocity_x, velocity_y, velocity_z, rate_yaw):
                    base.set_vel_setpoint(self, velocity_x, velocity_y, velocity_z, rate_yaw)
                    vsched.emit('cmd', vsched.now(), velocity_x, velocity_y, velocity_z, rate_yaw)   # same atomic block as the put
            m._SetPointThread = Rec
        else:
            m._SetPointThread = base
        state['period'] = base.UPDATE_PERIOD
        cf = _fake_cf(vsched, connected, wire)
        mc = m.MotionCommander(cf) if default_height is None else m.MotionCommander(cf, default_height=default_height)
        state['mc'] = mc
        state['entered'] = False
        sleep = vsched.time.sleep

        def body():
            state['entered'] = True
            for i, p in enumerate(prog):
                if instrument:
                    vsched.emit('prim', vsched.now(), i, 'begin')
                apply_mc(mc, p, sleep)
                if instrument:
                    vsched.emit('prim', vsched.now(), i, 'end')
        if mode == 'with':
            with mc:
                body()
        else:
            body()
    return main


def digest_mc(res, state, wire=None):
    """canonical observation of one real run: result, schedule (model letters), timed events
    (wire = protocol version: the events are what the firmware decodes from the packets handed to the link)"""
    sched, events, params = [], [], []
    last_clock = 0.0
    threads = set()
    ties = 0
    reads = []             # was the height read by land() stale (a set-point put by the main thread not yet taken by the thread)?
    pending = 0
    for tid, kind, label, info in (res.trace if wire is None else observed(res, wire)):
        if tid == -1 and kind == 'clock':
            if info - last_clock > 1e-7:       # a float-rounding "tie" is a tie of the exact model: no time passes
                sched.append('2')
            else:
                ties += 1
            last_clock = info
        elif tid == 0:
            if kind == 'put':
                pending += 1
            elif kind == 'trace':
                reads.append('stale' if pending else 'fresh')
            elif kind == 'start':
                pending = 0
            if kind in MAIN_OPS:
                sched.append('0')
            elif kind == 'emit' and info[0] in MAIN_EMITS:
                sched.append('0')
                if info[0] == 'param':
                    params.append((info[1], info[2], info[3]))
                else:
                    events.append((info[1], 'S' if info[0] == 'stop' else 'N') + tuple(info[2:]))
        elif tid >= 1:
            threads.add(tid)
            if kind == 'get':
                sched.append('1')
                if info is None:
                    pending = max(0, pending - 1)
            elif kind == 'emit' and info[0] == 'hover':
                events.append((info[1], 'H') + tuple(info[2:]))
        if kind == 'emit' and info[0] == 'undecodable':
            events.append((info[1], '?') + tuple(info[2:]))
    mc = state.get('mc')
    th = getattr(mc, '_thread', None) if mc is not None else None
    alive = bool(th is not None and th.is_alive()) if res.outcome != 'ok' else False
    return {'exc': exc_name(res.exc), 'outcome': res.outcome, 'alive': res.outcome == 'step-limit' or alive,
            'flying': bool(getattr(mc, '_is_flying', False)), 'sched': ''.join(sched) or '-', 'events': events, 'params': params,
            'now': res.now, 'deaths': [(n, repr(e)) for n, e in res.deaths], 'ties': ties, 'reads': reads}


class McRunner:
    """runs MotionCommander programs on the REAL classes inside one vsched session"""

    def __init__(self, step_limit=4000):
        from harness import vsched
        self.vsched = vsched
        self.step_limit = step_limit
        self.session = None

    def __enter__(self):
        import logging
        logging.disable(logging.CRITICAL)
        from harness.corr import c08  # noqa: F401  (its firmware decoder / stub Crazyflie are used in wire mode; import before any filter is set)
        self.session = self.vsched.Session(step_limit=self.step_limit, yield_on_time=False, trace_points=TRACE_POINTS)
        self.session.__enter__()
        # run-time setting only (nothing in harness/vsched is edited): virtual time.time() starts at 0 instead of 1.6e9,
        # so that `now - z_base_time` is not polluted by the 2.4e-7 s ulp of a 2020 timestamp and traces compare to 1e-9
        self._epoch = self.vsched.core.EPOCH
        self.vsched.core.EPOCH = 0.0
        return self

    def __exit__(self, *a):
        self.vsched.core.EPOCH = self._epoch
        return self.session.__exit__(*a)

    def run(self, prog, mode='with', default_height=None, connected=True, policy=None, instrument=False, wire=None, **kw):
        import warnings
        state = {}
        with contextlib.redirect_stdout(io.StringIO()), warnings.catch_warnings():
            warnings.simplefilter('ignore')
            res = self.session.run(mc_main(self.vsched, prog, mode, default_height, connected, state, instrument, wire), policy=policy, **kw)
        d = digest_mc(res, state, wire)
        d['entered'] = state.get('entered', False)
        d['period'] = state.get('period')
        d['wire'] = wire
        return d, res

    def explore(self, prog, mode='with', default_height=None, connected=True, max_preemptions=None, max_runs=None, wire=None, **kw):
        import warnings
        state = {}
        ex = self.session.explore(mc_main(self.vsched, prog, mode, default_height, connected, state, False, wire),
                                  max_preemptions=max_preemptions, max_runs=max_runs, **kw)
        with warnings.catch_warnings():
            warnings.simplefilter('ignore')
            for res in ex:
                d = digest_mc(res, state, wire)
                d['wire'] = wire
                yield d, res
        self.last_complete = ex.complete


def hl_main(vsched, prog, mode, ctor, connected, state, wire=None):
    def main():
        import cflib.positioning.position_hl_commander as m
        cf = _fake_cf(vsched, connected, wire)
        pc = m.PositionHlCommander(cf, **ctor)
        state['pc'] = pc
        state['positions'] = []
        sleep = vsched.time.sleep

        def body():
            for p in prog:
                apply_hl(pc, p, sleep)
                state['positions'].append(pc.get_position())
        if mode == 'with':
            with pc:
                body()
        else:
            body()
    return main


class HlRunner(McRunner):
    def run(self, prog, mode='with', ctor=None, connected=True, wire=None):
        import warnings
        state = {}
        with contextlib.redirect_stdout(io.StringIO()), warnings.catch_warnings():
            warnings.simplefilter('ignore')
            res = self.session.run(hl_main(self.vsched, prog, mode, ctor or {}, connected, state, wire))
        pc = state.get('pc')
        events = []
        for tid, kind, label, info in (res.trace if wire is None else observed(res, wire)):
            if kind == 'emit' and info[0] == 'hl':
                events.append((info[1],) + tuple(info[2:]))
            elif kind == 'emit' and info[0] == 'param':
                events.append((info[1], 'C', info[2], info[3]))
            elif kind == 'emit' and info[0] in ('undecodable', 'hover', 'stop', 'notify'):
                events.append((info[1], '?', info[0]) + tuple(info[2:]))
        return {'exc': exc_name(res.exc), 'outcome': res.outcome, 'flying': bool(getattr(pc, '_is_flying', False)),
                'now': res.now, 'pos': pc.get_position() if pc is not None else None, 'events': events,
                'positions': list(state.get('positions', [])), 'wire': wire}


# =========================================================================================================
# Comparison with the Lean replies
# =========================================================================================================
TOL_T = 1e-9      # virtual time stamps (binary64 sums of 0.2 s periods vs exact rationals)
TOL_V = 1e-9      # heights, velocities, durations (binary64 rounding; the driver's sqrt is correct to 1e-12)
TOL_W = 1e-6      # the same quantities as decoded by the firmware from the packets (binary32 fields: 2^-24 relative)


def fr(s):
    return float(Fraction(s))


def parse_mc_reply(line):
    w = line.split(' ')
    if w[0] not in ('ok', 'stuck'):
        return {'status': line}
    if w[0] == 'stuck':
        return {'status': 'stuck', 'at': int(w[1]), 'rest': ' '.join(w[2:])[:300]}
    d = {'status': 'ok', 'exc': w[1]}
    for x in w[2:]:
        k, v = x.split('=', 1)
        d[k] = v
    ev = []
    if d['T'] != '-':
        for e in d['T'].split(','):
            f = e.split('|')
            ev.append((fr(f[0]), f[1]) + tuple(fr(x) for x in f[2:]))
    d['events'] = ev
    d['params'] = [] if d['P'] == '-' else [(fr(e.split('|')[0]), int(e.split('|')[1])) for e in d['P'].split(',')]
    return d


def close(a, b, tol):
    return abs(a - b) <= tol * max(1.0, abs(a), abs(b))


def diff_events(model, real, tol_v=TOL_V):
    """None when equal up to the stated tolerances, else a short description of the first difference"""
    if len(model) != len(real):
        return 'event count model=%d real=%d' % (len(model), len(real))
    for i, (m, r) in enumerate(zip(model, real)):
        if m[1] != r[1] or len(m) != len(r[:len(m)]):
            return 'event %d kind model=%s real=%s' % (i, m[1], r[1])
        if not close(m[0], r[0], TOL_T):
            return 'event %d (%s) time model=%r real=%r' % (i, m[1], m[0], r[0])
        for j in range(2, len(m)):
            if not close(m[j], float(r[j]), tol_v):
                return 'event %d (%s) field %d model=%r real=%r' % (i, m[1], j, m[j], r[j])
        if r[1] == 'N' and len(r) > 2 and r[2] != 0:
            return 'event %d: notify_setpoint_stop with remain_valid_milliseconds=%r' % (i, r[2])
    return None


def diff_mc(reply, real):
    if reply.get('status') != 'ok':
        return 'model does not accept the observed schedule: %r' % (reply,)
    if reply['exc'] != real['exc']:
        return 'exception model=%s real=%s' % (reply['exc'], real['exc'])
    if (reply['alive'] == '1') != real['alive']:
        return 'set-point thread alive model=%s real=%s' % (reply['alive'], real['alive'])
    if (reply['flying'] == '1') != real['flying']:
        return '_is_flying model=%s real=%s' % (reply['flying'], real['flying'])
    if real['outcome'] == 'ok' and reply['left'] != '0':
        return 'real main thread finished, model has %s instructions left' % reply['left']
    d = diff_events(reply['events'], real['events'], TOL_V if real.get('wire') is None else TOL_W)
    if d:
        return d
    rp = [(t, int(v)) for t, n, v in real['params'] if n == 'kalman.resetEstimation']
    if len(rp) != len(real['params']) or len(rp) != len(reply['params']) or \
            any(a[1] != b[1] or not close(a[0], b[0], TOL_T) for a, b in zip(reply['params'], rp)):
        return 'param calls model=%r real=%r' % (reply['params'], real['params'])
    return None


def parse_hl_reply(line):
    w = line.split(' ')
    if w[0] != 'ok':
        return {'status': line}
    d = {'status': 'ok', 'exc': w[1]}
    for x in w[2:]:
        k, v = x.split('=', 1)
        d[k] = v
    ev = []
    if d['T'] != '-':
        for e in d['T'].split(','):
            f = e.split('|')
            ev.append((fr(f[0]), f[1]) + tuple(fr(x) for x in f[2:]))
    d['events'] = ev
    d['position'] = tuple(fr(x) for x in d['pos'].split('|'))
    d['positions'] = [] if d['B'] == '-' else [tuple(fr(x) for x in e.split('|')) for e in d['B'].split(',')]
    return d


def diff_hl(reply, real):
    if reply.get('status') != 'ok':
        return 'model reply %r' % (reply,)
    if reply['exc'] != real['exc']:
        return 'exception model=%s real=%s' % (reply['exc'], real['exc'])
    if (reply['flying'] == '1') != real['flying']:
        return '_is_flying model=%s real=%s' % (reply['flying'], real['flying'])
    if not close(fr(reply['now']), real['now'], TOL_T):
        return 'end time model=%s real=%r' % (reply['now'], real['now'])
    ev = []
    for e in real['events']:
        if e[1] == 'C':
            if e[2] != 'stabilizer.controller':
                return 'unexpected param ' + repr(e)
            ev.append((e[0], 'C', float(e[3])))
        elif e[1] == 'G':
            if e[7] is not False:
                return 'relative go_to ' + repr(e)
            ev.append(e[:7])
        else:
            ev.append(e)
    d = diff_events(reply['events'], ev, TOL_V if real.get('wire') is None else TOL_W)
    if d:
        return d
    for name, a, b in [('final position', [reply['position']], [real['pos']]), ('positions', reply['positions'], real['positions'])]:
        if len(a) != len(b) or any(not close(x, y, TOL_V) for p, q in zip(a, b) for x, y in zip(p, q)):
            return '%s model=%r real=%r' % (name, a, b)
    return None


# =========================================================================================================
# Generators
# =========================================================================================================
DIST = [0.125, 0.25, 0.375, 0.5, 0.75, 1.0, 1.5]
VEL = [None, None, 0.25, 0.5, 1.0]
ANGLE = [22.5, 45.0, 90.0, 180.0, 360.0]
RATEV = [None, None, 45.0, 90.0]
RADIUS = [0.25, 0.5, 1.0]
WAIT = [0.125, 0.2, 0.25, 0.4, 0.5, 1.0]
TRIPLES = [(3, 4, 0), (0, 3, 4), (4, 0, 3), (1, 2, 2), (2, 1, 2), (2, 3, 6), (6, 2, 3)]


def gen_dist(rng, odd=0.12):
    r = rng.random()
    if r < odd / 3:
        return 0.0
    d = rng.choice(DIST)
    return -d if r < odd else d


def gen_vel(rng, odd=0.08):
    r = rng.random()
    if r < odd / 2:
        return 0.0
    if r < odd:
        return -0.5
    return rng.choice(VEL)


def gen_mc_prim(rng, odd=0.1):
    k = rng.random()
    if k < 0.30:
        return ('go', rng.choice('lrfbud'), gen_dist(rng, odd), gen_vel(rng, odd))
    if k < 0.40:
        t = rng.choice(TRIPLES)
        s = rng.choice([0.125, 0.25, 0.5])
        sg = [rng.choice([1, -1]) for _ in range(3)]
        h = math.sqrt(sum(x * x for x in t))
        v = rng.choice([None, h * 0.125, h * 0.25, 0.5]) if rng.random() > odd else gen_vel(rng, 1.0)
        return ('mv', sg[0] * t[0] * s, sg[1] * t[1] * s, sg[2] * t[2] * s, v)
    if k < 0.47:
        return ('turn', rng.choice('lr'), rng.choice(ANGLE) if rng.random() > odd else rng.choice([0.0, -45.0]),
                rng.choice(RATEV) if rng.random() > odd else rng.choice([0.0, -90.0]))
    if k < 0.54:
        return ('circ', rng.choice('lr'), rng.choice(RADIUS) if rng.random() > odd else 0.0, gen_vel(rng, odd),
                rng.choice([None, 90.0, 180.0, 45.0]))
    if k < 0.62:
        return ('st', rng.choice('lrfbud'), gen_vel(rng, odd))
    if k < 0.67:
        return ('sl', rng.choice([0.0, 0.25, -0.5]), rng.choice([0.0, 0.5]), rng.choice([0.0, 0.25, -0.25]), rng.choice([None, 45.0]))
    if k < 0.71:
        return ('stt', rng.choice('lr'), rng.choice(RATEV))
    if k < 0.75:
        return ('stc', rng.choice('lr'), rng.choice(RADIUS) if rng.random() > odd else 0.0, gen_vel(rng, odd))
    if k < 0.81:
        return ('stop',)
    if k < 0.93:
        return ('wait', rng.choice(WAIT) if rng.random() > odd / 2 else -1.0)
    if k < 0.965:
        return ('land', rng.choice([None, 0.25, 0.5]))
    return ('to', rng.choice([None, 0.25, 0.5, 0.0]), rng.choice([None, 0.25]))


def gen_mc_program(rng, maxlen=8):
    n = rng.choice([0, 1, 1, 2, 2, 3, 3, 4, 5, 6, 8])
    n = min(n, maxlen)
    odd = rng.choice([0.0, 0.0, 0.1, 0.3])
    prog = [gen_mc_prim(rng, odd) for _ in range(n)]
    if rng.random() < 0.35:
        prog.insert(rng.randrange(len(prog) + 1), ('raise',))      # the body raises at this position
    dh = rng.choice([None, None, 0.5, 0.25, 0.125, 1.0, 0.03125] + ([0.0] if rng.random() < 0.15 else []))
    mode = 'with' if rng.random() < 0.85 else 'bare'
    if mode == 'bare':
        prog = [('to', rng.choice([None, 0.5]), rng.choice([None, 0.25]))] + prog + ([('land', None)] if rng.random() < 0.7 else [])
    connected = rng.random() > 0.03
    return prog, mode, dh, connected


def gen_hl_prim(rng, odd=0.1):
    k = rng.random()
    if k < 0.35:
        return ('go', rng.choice('lrfbud'), gen_dist(rng, odd), gen_vel(rng, odd))
    if k < 0.50:
        t = rng.choice(TRIPLES)
        s = rng.choice([0.125, 0.25, 0.5])
        sg = [rng.choice([1, -1]) for _ in range(3)]
        return ('mv', sg[0] * t[0] * s, sg[1] * t[1] * s, sg[2] * t[2] * s, gen_vel(rng, odd))
    if k < 0.68:
        return ('goto', rng.choice([0.0, 0.5, -1.0, 1.5]), rng.choice([0.0, 0.25, -0.75]), rng.choice([None, 0.5, 1.0, 0.25, -0.25, 0.0]), gen_vel(rng, odd))
    if k < 0.76:
        return ('sdv', rng.choice([0.25, 0.5, 1.0, 2.0]) if rng.random() > odd else rng.choice([0.0, -1.0]))
    if k < 0.82:
        return ('sdh', rng.choice([0.25, 0.5, 1.0, 0.0]))
    if k < 0.88:
        return ('slh', rng.choice([0.0, 0.25, 0.5, 1.0, -0.25]))
    if k < 0.94:
        return ('wait', rng.choice(WAIT) if rng.random() > odd / 2 else -1.0)
    if k < 0.97:
        return ('land', rng.choice([None, 0.25]), rng.choice([None, 0.125]))
    return ('to', rng.choice([None, 0.75, 0.0]), rng.choice([None, 0.25]))


def gen_hl_program(rng):
    n = rng.choice([0, 1, 2, 2, 3, 3, 4, 5, 6, 8])
    odd = rng.choice([0.0, 0.0, 0.1, 0.3])
    prog = [gen_hl_prim(rng, odd) for _ in range(n)]
    if rng.random() < 0.35:
        prog.insert(rng.randrange(len(prog) + 1), ('raise',))
    ctor = {}
    if rng.random() < 0.5:
        ctor.update(x=rng.choice([0.0, 1.0, -0.5]), y=rng.choice([0.0, 0.25]), z=rng.choice([0.0, 0.0, 0.125]))
    if rng.random() < 0.4:
        ctor['default_velocity'] = rng.choice([0.25, 1.0, 0.5] + ([0.0, -0.5] if odd else []))
    if rng.random() < 0.4:
        ctor['default_height'] = rng.choice([0.25, 1.0, 0.75] + ([0.0, -0.5] if odd else []))
    if rng.random() < 0.3:
        ctor['default_landing_height'] = rng.choice([0.0, 0.25, 1.0])
    if rng.random() < 0.3:
        ctor['controller'] = rng.choice([1, 2])
    mode = 'with' if rng.random() < 0.85 else 'bare'
    if mode == 'bare':
        prog = [('to', None, None)] + prog + ([('land', None, None)] if rng.random() < 0.7 else [])
    connected = rng.random() > 0.03
    return prog, mode, ctor, connected


def hl_line(prog, mode, ctor, connected):
    g = X.parse(HL)
    d = _defaults(X.find(X.find(g, 'PositionHlCommander'), '__init__'))

    def dflt(name):
        return ctor[name] if name in ctor else const_value(d[name])
    c = ctor.get('controller')
    return 'hl %d %s %s %s %s %s %s %s %s %s' % (1 if connected else 0, rat(dflt('x')), rat(dflt('y')), rat(dflt('z')), rat(dflt('default_velocity')),
                                               rat(dflt('default_height')), rat(dflt('default_landing_height')),
                                               '_' if c is None else str(c), mode, prog_text(prog))


def mc_line(prog, mode, dh, connected, sched):
    if dh is None:
        g = X.parse(MC)
        dh = const_value(_defaults(X.find(X.find(g, 'MotionCommander'), '__init__'))['default_height'])
    return 'mc %d %s %s %s %s %s' % (1 if connected else 0, rat(dh), rat(math.pi), mode, prog_text(prog), sched)


def tiny_sleep(res):
    """a sleep of (0, 1e-9) s in the real run: a quantity that is exactly 0 for the exact model came out as a rounding residue
    (e.g. a landing descent from a height of 1e-16 m), so model (ZeroDivisionError) and binary64 run legitimately differ"""
    for tid, kind, label, info in res.trace:
        if kind == 'sleep':
            try:
                v = float(label)
            except ValueError:
                continue
            if 0.0 < v < 1e-9:
                return True
    return False


# =========================================================================================================
# Tie B
# =========================================================================================================
def correspond(ctx):
    from harness import vsched
    rng = ctx.rng
    thorough = ctx.tier == 'thorough'
    cases = []          # (line, real digest, desc, key)
    n_prog = 700 if thorough else 120
    with McRunner() as r:
        for i in range(n_prog):
            prog, mode, dh, connected = gen_mc_program(rng)
            runs = []
            # observation level: the commander API (recording commander) or the wire (REAL Commander + Crazyflie.send_packet over a
            # recording link, decoded by the firmware twin of C08 for a protocol version on either side of the hover switch)
            wires = [None] + [rng.choice(WIRE_VERSIONS) for _ in range(8)]
            d, res = r.run(prog, mode, dh, connected, wire=wires[i % 2])
            runs.append((d, res, 'np'))
            for j in range(4 if thorough else 2):
                d, res = r.run(prog, mode, dh, connected, policy=vsched.Random(rng.randrange(2 ** 32), stay=rng.choice([0.0, 0.5, 0.8])),
                               wire=wires[2 + j] if (i + j) % 2 == 0 else None)
                runs.append((d, res, 'random'))
            if len(prog) <= 3 and (thorough or i % 4 == 0):
                k = 0
                for d, res in r.explore(prog, mode, dh, connected, max_preemptions=2, max_runs=60 if thorough else 25,
                                        wire=wires[7] if i % 8 == 0 else None):
                    runs.append((d, res, 'dfs'))
                    k += 1
                ctx.count('mc:dfs-tree-enumerated-completely' if r.last_complete else 'mc:dfs-cut-at-max-runs')
            seen = set()
            for d, res, how in runs:
                if (d['sched'], d['wire']) in seen:
                    continue
                seen.add((d['sched'], d['wire']))
                if d['outcome'] not in ('ok', 'step-limit') or d['deaths']:
                    ctx.disagree('mc-run', prog_text(prog), 'n/a', 'outcome %s deaths %s' % (d['outcome'], d['deaths']))
                    continue
                if tiny_sleep(res):
                    ctx.count('mc:skipped-rounding-residue')
                    continue
                cases.append((mc_line(prog, mode, dh, connected, d['sched']), d,
                              {'kind': 'mc', 'prog': prog_text(prog), 'mode': mode, 'default_height': dh, 'schedule_len': len(d['sched']), 'policy': how,
                               'observed': 'commander API' if d['wire'] is None else 'packets decoded for protocol version %d' % d['wire']},
                              ('mc', prog_text(prog), mode, dh, connected, d['sched'], d['wire'])))
                ctx.count('mc:policy:' + how)
                ctx.count('mc:observed:' + ('api' if d['wire'] is None else 'wire-v%d' % d['wire']))
    n_hl = 3000 if thorough else 500
    hcases = []
    with HlRunner() as r:
        for i in range(n_hl):
            prog, mode, ctor, connected = gen_hl_program(rng)
            wire = None if i % 2 == 0 else rng.choice(WIRE_VERSIONS)
            d = r.run(prog, mode, ctor, connected, wire=wire)
            ctx.count('hl:observed:' + ('api' if wire is None else 'wire-v%d' % wire))
            hcases.append((hl_line(prog, mode, ctor, connected), d, {'kind': 'hl', 'prog': prog_text(prog), 'mode': mode, 'ctor': ctor, 'wire': wire},
                           ('hl', prog_text(prog), mode, tuple(sorted(ctor.items())), connected, wire)))
    replies = ctx.lean(DRIVER, [c[0] for c in cases] + [c[0] for c in hcases])
    for (line, d, desc, key), rep in zip(cases, replies[:len(cases)]):
        ctx.case(desc, key)
        ctx.count('mc:exc:' + d['exc'])
        ctx.count('mc:outcome:' + d['outcome'])
        ctx.count('mc:events', len(d['events']))
        ctx.count('mc:float-ties-merged', d['ties'])
        for rd in d['reads']:
            ctx.count('mc:land-height-read:' + rd)
        if any(a[0] == b[0] and a[1] == b[1] == 'H' for a, b in zip(d['events'], d['events'][1:])):
            ctx.count('mc:same-instant-hovers')
        diff = diff_mc(parse_mc_reply(rep), d)
        if diff:
            ctx.disagree('motion-commander', line[:400], diff[:400], 'exc=%s outcome=%s events=%d' % (d['exc'], d['outcome'], len(d['events'])))
    for (line, d, desc, key), rep in zip(hcases, replies[len(cases):]):
        ctx.case(desc, key)
        ctx.count('hl:exc:' + d['exc'])
        ctx.count('hl:events', len(d['events']))
        diff = diff_hl(parse_hl_reply(rep), d)
        if diff:
            ctx.disagree('position-hl-commander', line[:400], diff[:400], repr(d)[:400])




# =========================================================================================================
# Failing-input search: the property itself, evaluated on the REAL code's observable behaviour (no Lean)
# =========================================================================================================
GO_AXIS = {'l': (0, 1, 0), 'r': (0, -1, 0), 'f': (1, 0, 0), 'b': (-1, 0, 0), 'u': (0, 0, 1), 'd': (0, 0, -1)}   # x forward, y left, z up
EPS = 1e-9


def spec_mc(prog, mode, d, res):
    """list of (key, what) violations of the MotionCommander clauses in one real run"""
    bad = []
    ev = d['events']
    kinds = ''.join(e[1] for e in ev)
    period = d['period']
    wire = d.get('wire')
    tol = 1e-9 if wire is None else TOL_W          # binary32 fields when the observation is the decoded packet
    trace = list(res.trace if wire is None else observed(res, wire))
    where = '' if wire is None else ' [as decoded by a protocol-version-%d firmware]' % wire
    if '?' in kinds:
        bad.append(('mc-wire', 'a packet of the flight is not a hover / stop / notify-setpoint-stop command for the firmware: %r%s' %
                    ([e for e in ev if e[1] == '?'][0][2:], where)))
    if any(e[1] == 'N' and len(e) > 2 and e[2] != 0 for e in ev):
        bad.append(('mc-wire', 'notify_setpoint_stop with a non-zero validity' + where))
    started = any(tid == 0 and kind == 'start' for tid, kind, label, info in res.trace)
    cause = 'D15' if d['exc'] in ('zero_div', 'value_error') else 'mc-ends-stopped'
    # -- ends on the ground command ----------------------------------------------------------------------------
    main_done = any(tid == 0 and kind == 'end' for tid, kind, label, info in res.trace)
    landed_last = mode == 'with' or (prog and prog[-1][0] == 'land' and d['exc'] in ('none', 'zero_div', 'value_error') and
                                     _reached_last(res, len(prog)))
    if main_done and landed_last and started:
        if d['alive'] or d['outcome'] != 'ok':
            bad.append((cause, 'commanding thread has left (exception: %s) but the set-point thread is still streaming hover set-points; '
                               'stop / notify_setpoint_stop never sent' % d['exc']))
        elif not kinds.endswith('SN'):
            bad.append((cause, 'commander trace does not end with stop, notify_setpoint_stop: ...%s' % kinds[-6:]))
        if d['flying'] and not d['alive']:
            bad.append((cause, '_is_flying left True'))
    if main_done and (d['alive'] or d['outcome'] == 'step-limit') and mode == 'with' and not d['entered'] and started:
        bad.append(('D15', 'take_off failed inside __enter__ (%s): the set-point thread is left streaming and __exit__ is never reached' % d['exc']))
    import re
    if not d['alive'] and d['outcome'] == 'ok' and not re.fullmatch(r'(H*SN)*', kinds) and (mode == 'with' or landed_last):
        bad.append((cause, 'commander trace is not (hover* stop notify)*: %s' % kinds[-12:]))
    i_s = kinds.rfind('S')
    if i_s >= 0 and landed_last and not d['alive'] and 'H' in kinds[i_s:]:
        bad.append((cause, 'hover set-point after the final stop'))
    # -- stream period -------------------------------------------------------------------------------------------
    for a, b in zip(ev, ev[1:]):
        if a[1] == 'H' and b[1] in 'HS' and b[0] - a[0] > period + EPS:
            bad.append(('mc-stream-period', 'gap of %.6f s (> update period %.3f) after the hover set-point at t=%.6f' % (b[0] - a[0], period, a[0])))
            break
    # a flight that is never ended must keep streaming as well (checked on the observed prefix)
    # -- height integrates the commanded vertical velocity; hover set-point = commanded set-point -----------------------------
    cmds = []           # per thread lifetime
    z = vz = 0.0
    t_prev = None
    cur = (0.0, 0.0, 0.0)
    at_t = []
    have_cmd = any(kind == 'emit' and info[0] == 'cmd' for tid, kind, label, info in res.trace)
    if have_cmd:
        for tid, kind, label, info in trace:
            if tid == 0 and kind == 'start':
                z, vz, t_prev, cur, at_t = 0.0, 0.0, None, (0.0, 0.0, 0.0), []
            elif kind == 'emit' and info[0] == 'cmd':
                t = info[1]
                if t_prev is not None:
                    z += vz * (t - t_prev)
                t_prev = t
                vz = info[4]
                at_t = [c for c in at_t if abs(c[0] - t) <= EPS] + [(t, cur)]      # set-points in force just before this instant
                cur = (info[2], info[3], info[5])
                cmds.append(info[1:])
            elif kind == 'emit' and info[0] == 'hover':
                t, vx, vy, yaw, zz = info[1:6]
                if t_prev is None:
                    want = 0.0
                else:
                    # a command put at this very instant may not have reached the thread yet: both heights coincide at the instant
                    want = z + vz * (t - t_prev)
                if abs(zz - want) > tol * max(1.0, abs(want)):
                    bad.append(('mc-height-integrates', 'hover height %.12g at t=%.6f, integral of the commanded vertical velocity is %.12g%s' % (zz, t, want, where)))
                    break
                allowed = [cur] + [c[1] for c in at_t if abs(c[0] - t) <= EPS]
                if not any(all(abs(p - q) <= (1e-12 if wire is None else tol) * max(1.0, abs(q)) for p, q in zip((vx, vy, yaw), c)) for c in allowed):
                    bad.append(('mc-hover-setpoint', 'hover set-point (vx, vy, yaw rate) = (%r, %r, %r) at t=%.6f is not the commanded one %r%s' % (vx, vy, yaw, t, cur, where)))
                    break
        # -- each blocking primitive: velocity * duration = requested displacement, in the requested direction -------------------------
        spans = {}
        for tid, kind, label, info in res.trace:
            if kind == 'emit' and info[0] == 'prim':
                spans.setdefault(info[2], {})[info[3]] = info[1]
        for i, sp in spans.items():
            p = prog[i]
            if 'end' not in sp or p[0] not in ('go', 'mv', 'turn', 'circ'):
                continue
            cs = [c for c in _cmds_between(res, i)]
            if len(cs) != 2 or any(abs(x) > 0 for x in cs[1][1:]):
                bad.append(('mc-primitive-shape', 'primitive %s did not command exactly one motion set-point followed by a zero set-point: %r' % (prim_text(p), cs)))
                continue
            T = cs[1][0] - cs[0][0]
            vx, vy, vz_, yaw = cs[0][1:]
            if p[0] in ('go', 'mv'):
                want = tuple(a * p[2] for a in GO_AXIS[p[1]]) if p[0] == 'go' else (p[1], p[2], p[3])
                got = (vx * T, vy * T, vz_ * T)
                if any(abs(g - w) > 1e-9 * max(1.0, abs(w)) for g, w in zip(got, want)) or abs(yaw) > 0 or T < 0:
                    bad.append(('mc-primitive-displacement', '%s: velocity x duration = %r, requested displacement %r (duration %r)' % (prim_text(p), got, want, T)))
            elif p[0] == 'turn':
                want = p[2] if p[1] == 'l' else -p[2]
                if abs(yaw * T - want) > 1e-9 * max(1.0, abs(want)) or vx or vy or vz_ or T < 0:
                    bad.append(('mc-primitive-displacement', '%s: yaw rate x duration = %r, requested angle %r' % (prim_text(p), yaw * T, want)))
            else:
                ang = 360.0 if p[4] is None else p[4]
                arc = 2 * math.pi * p[2] * ang / 360.0
                want = ang if p[1] == 'l' else -ang
                if abs(vx * T - arc) > 1e-9 * max(1.0, abs(arc)) or abs(yaw * T - want) > 1e-9 * max(1.0, abs(want)) or vy or vz_ or T < 0:
                    bad.append(('mc-primitive-displacement', '%s: arc %r (want %r), turned %r (want %r)' % (prim_text(p), vx * T, arc, yaw * T, want)))
    return bad


def _reached_last(res, n):
    return any(kind == 'emit' and info[0] == 'prim' and info[2] == n - 1 and info[3] == 'begin' for tid, kind, label, info in res.trace)


def _cmds_between(res, i):
    inside = False
    for tid, kind, label, info in res.trace:
        if kind == 'emit' and info[0] == 'prim' and info[2] == i:
            inside = info[3] == 'begin'
        elif inside and kind == 'emit' and info[0] == 'cmd':
            yield info[1:]


def spec_hl(prog, mode, ctor, connected, d):
    """violations of the PositionHlCommander clauses in one real run (twin of the spec: dead-reckoning by hand)"""
    bad = []
    x, y, z = ctor.get('x', 0.0), ctor.get('y', 0.0), ctor.get('z', 0.0)
    dv, dh, dl = ctor.get('default_velocity', 0.5), ctor.get('default_height', 0.5), ctor.get('default_landing_height', 0.0)
    flying = False
    ev = [e for e in d['events'] if e[1] != 'C']
    gi = 0          # index of the next unexplained event
    wire = d.get('wire')
    tolw = 1e-9 if wire is None else TOL_W
    where = '' if wire is None else ' [as decoded by a protocol-version-%d firmware]' % wire

    def expect(kind, fields, what):
        nonlocal gi
        if gi >= len(ev) or ev[gi][1] != kind or any(abs(a - b) > tolw * max(1.0, abs(b)) for a, b in zip(ev[gi][2:], fields)) \
                or (kind == 'G' and ev[gi][7] is not False):
            bad.append(('hl-command', '%s: expected %s%r, observed %r%s' % (what, kind, tuple(fields), ev[gi] if gi < len(ev) else None, where)))
            return False
        gi += 1
        return True

    def goto(tx, ty, tz, v, what):
        nonlocal x, y, z
        dist = math.sqrt((tx - x) ** 2 + (ty - y) ** 2 + (tz - z) ** 2)
        if dist > 0:
            vel = dv if v is None else v
            if vel == 0:
                return 'raise'
            if not expect('G', (tx, ty, tz, 0, dist / vel), what):      # targets the position, duration = distance / velocity
                return 'bad'
            if dist / vel < 0:
                return 'raise'
            x, y, z = tx, ty, tz
        return None

    def takeoff(h, v):
        nonlocal z, flying
        if flying or not connected:
            return 'raise'
        flying = True
        hh = dh if h is None else h
        vel = dv if v is None else v
        if vel == 0:
            return 'raise'
        if not expect('T', (hh, hh / vel), 'take_off'):
            return 'bad'
        if hh / vel < 0:
            return 'raise'
        z = hh
        return None
    seq = ([('to', None, None)] if mode == 'with' else []) + list(prog)
    entered = mode != 'with'
    explicit_land = False
    stopped_by = None
    for k, p in enumerate(seq):
        op = p[0]
        r = None
        if op == 'to':
            r = takeoff(p[1], p[2])
        elif op == 'go':
            a = GO_AXIS[p[1]]
            r = goto(x + a[0] * p[2], y + a[1] * p[2], z + a[2] * p[2], p[3], prim_text(p))
        elif op == 'mv':
            r = goto(x + p[1], y + p[2], z + p[3], p[4], prim_text(p))
        elif op == 'goto':
            r = goto(p[1], p[2], dh if p[3] is None else p[3], p[4], prim_text(p))
        elif op == 'sdv':
            dv = p[1]
        elif op == 'sdh':
            dh = p[1]
        elif op == 'slh':
            dl = p[1]
        elif op == 'wait':
            r = 'raise' if p[1] < 0 else None
        elif op == 'raise':
            r = 'raise'
        elif op == 'land':
            explicit_land = True
            r = 'stop-here'       # the landing itself is judged below (ends-stopped clause), not by this twin
        if r == 'bad':
            return bad
        if r == 'stop-here':
            stopped_by = k
            break
        if mode == 'with' and k == 0:
            if r == 'raise':
                return bad          # __enter__ failed: nothing more to check here
            entered = True
            continue
        if r == 'raise':
            break
        # position reported after the primitive = start + sum of the commanded displacements
        j = k - (1 if mode == 'with' else 0)
        if j < len(d['positions']):
            got = d['positions'][j]
            if any(abs(a - b) > 1e-9 * max(1.0, abs(b)) for a, b in zip(got, (x, y, z))):
                bad.append(('hl-position', 'after %s get_position() = %r, start + sum of displacements = %r' % (prim_text(p), got, (x, y, z))))
                return bad
    # -- ends on the ground command (bodies made of motion primitives and default changes: no explicit land) ---------------------
    if mode == 'with' and entered and not explicit_land:
        kinds = ''.join(e[1] for e in ev)
        cause = 'D14' if d['exc'] in ('zero_div', 'value_error') else 'hl-ends-stopped'
        if not kinds.endswith('S'):
            bad.append((cause, 'leaving the context (exception: %s) did not end with the stop command: ...%s' % (d['exc'], kinds[-5:])))
        elif d['flying']:
            bad.append((cause, '_is_flying left True'))
    return bad


# one representative of every kind of primitive (all directions / sides), for the systematic kind x protocol-version sweep
MC_KIND_SAMPLES = [('go', k, 0.25, 0.25) for k in 'lrfbud'] + [('mv', 0.375, -0.5, 0.0, 0.625), ('turn', 'l', 45.0, None), ('turn', 'r', 45.0, 90.0),
                   ('circ', 'l', 0.5, 0.5, 90.0), ('circ', 'r', 0.25, None, 45.0)]
HL_KIND_SAMPLES = [('go', k, 0.25, None) for k in 'lrfbud'] + [('mv', 0.375, -0.5, 0.25, 0.25), ('goto', 0.5, -0.75, 1.0, None), ('goto', 1.5, 0.25, None, 1.0)]


def _corpus():
    import glob
    import json
    import os
    here = os.path.join(os.path.dirname(os.path.dirname(os.path.abspath(__file__))), 'corpus', 'c17')
    out = []
    for f in sorted(glob.glob(os.path.join(here, '*.json'))):
        e = json.load(open(f))
        e['file'] = os.path.basename(f)
        out.append(e)
    return out


def _tup(prog):
    return [tuple(p) for p in prog]


def search(ctx):
    from harness import vsched
    rng = ctx.rng
    thorough = ctx.tier == 'thorough'
    corpus = _corpus()
    seen = set()

    def report(key, what, inp):
        k = (key, what[:60], inp.get('prog_text'))
        if k in seen or sum(1 for s in seen if s[0] == key) >= 6:
            return
        seen.add(k)
        ctx.witness(key, what, inp)
    with McRunner() as r:
        jobs = [(_tup(e['prog']), e.get('mode', 'with'), e.get('default_height'), e.get('connected', True), e['file'], e.get('choices'))
                for e in corpus if e['kind'] == 'mc']
        for i in range(400 if thorough else 70):
            jobs.append(gen_mc_program(rng) + (None, None))
        sweep = len(jobs)
        for p in MC_KIND_SAMPLES:                 # every kind of primitive, observed on the wire for every protocol version of the sweep
            jobs.append(([p], 'with', 0.5, True, None, None))
        for n, (prog, mode, dh, connected, src, choices) in enumerate(jobs):
            pols = [None] + [vsched.Random(rng.randrange(2 ** 32), stay=rng.choice([0.0, 0.6])) for _ in range(3 if thorough else 2)]
            if choices is not None:
                pols.insert(0, vsched.Replay(list(choices)))       # the recorded interleaving of a corpus witness
            wires = [None, rng.choice(WIRE_VERSIONS), None, rng.choice(WIRE_VERSIONS), rng.choice(WIRE_VERSIONS)]
            if n >= sweep:
                pols = [None] * len(WIRE_VERSIONS)
                wires = list(WIRE_VERSIONS)
            for k, pol in enumerate(pols):
                fine = k == len(pols) - 1 and n < sweep          # one schedule with yield points at every time.time() call as well
                d, res = r.run(prog, mode, dh, connected, policy=pol, instrument=True, yield_on_time=fine, wire=wires[k % len(wires)])
                ctx.count('search:mc-runs')
                ctx.count('search:mc-observed:' + ('api' if d['wire'] is None else 'wire'))
                if d['deaths']:
                    report('mc-thread-death', 'set-point thread died: %s' % d['deaths'], {'kind': 'mc', 'prog': prog, 'mode': mode, 'default_height': dh})
                for key, what in spec_mc(prog, mode, d, res):
                    report(key, what, {'kind': 'mc', 'prog': [list(p) for p in prog], 'prog_text': prog_text(prog), 'mode': mode, 'default_height': dh,
                                       'connected': connected, 'choices': list(res.choices), 'corpus': src, 'protocol_version': d['wire']})
    with HlRunner() as r:
        jobs = [(_tup(e['prog']), e.get('mode', 'with'), e.get('ctor', {}), e.get('connected', True), e['file']) for e in corpus if e['kind'] == 'hl']
        for i in range(4000 if thorough else 600):
            jobs.append(gen_hl_program(rng) + (None,))
        sweep = len(jobs)
        for p in HL_KIND_SAMPLES:
            for v in WIRE_VERSIONS:
                jobs.append(([p], 'with', {}, True, None))
        for n, (prog, mode, ctor, connected, src) in enumerate(jobs):
            wire = (None if n % 2 == 0 else rng.choice(WIRE_VERSIONS)) if n < sweep else WIRE_VERSIONS[(n - sweep) % len(WIRE_VERSIONS)]
            d = r.run(prog, mode, ctor, connected, wire=wire)
            ctx.count('search:hl-runs')
            ctx.count('search:hl-observed:' + ('api' if wire is None else 'wire'))
            for key, what in spec_hl(prog, mode, ctor, connected, d):
                report(key, what, {'kind': 'hl', 'prog': [list(p) for p in prog], 'prog_text': prog_text(prog), 'mode': mode, 'ctor': ctor,
                                   'connected': connected, 'corpus': src, 'protocol_version': wire})

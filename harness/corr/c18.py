"""C18 - CPX framing and routing preserve packets under any stream fragmentation.

Tie A: the CPX header bit expressions, enum values, struct formats and the receive-loop expressions are
re-extracted from cflib/cpx and cflib/crtp/tcpdriver.py into Gen/C18.lean.
Tie B: real CPXPacket / SocketTransport / CPXRouter / TcpDriver (over a scripted fake socket) vs the Lean
model (Driver/C18.lean) on generated packets, streams and *all* cut patterns of short streams.
"""
import ast
import itertools
import queue
import struct

from harness.lib import extract as X
from harness.lib.common import ExtractError, exc_enum, hexs

PID = 'C18'
LEAN_TARGETS = ['CfVerif.Props.C18']
PROPS_MODULES = ['CfVerif.Props.C18']
DRIVER = 'Driver/C18.lean'
REQUIRED_THEOREMS = ['CfVerif.C18.router_survives_rejected_packets', 'CfVerif.C18.unwire_wire', 'CfVerif.C18.version_rejected', 'CfVerif.C18.reassembly',
                     'CfVerif.C18.router_fifo_per_function', 'CfVerif.C18.links_isolated', 'CfVerif.C18.crtp_uplink_id', 'CfVerif.C18.crtp_downlink_id']
TRUSTED = ['harness/corr/c18.py extractor + correspondence', 'socket.recv(n) modelled as: returns 1..n bytes from the head of the stream',
           "native 'H' = little-endian u16", 'queue.Queue is FIFO']
ASSUMPTIONS = ['EOF on the socket (recv returning b"") is outside the model: the real read loop spins',
               'UART transport is not modelled']
RULE = ('cases = CPX header combinations x payloads (wire/unwire), byte streams of 1..4 framed packets cut at EVERY '
        'subset of byte boundaries for short streams and random cuts beyond, router registration/arrival scripts, CRTP tunnel '
        'packets incl. zero-length payload; non-trivial = distinct (kind, input) with a stream cut inside a packet or header, '
        'or a header combination not seen before')


def extract(ctx):
    g = X.GenFile(PID, ['cflib/cpx/__init__.py', 'cflib/cpx/transports.py', 'cflib/crtp/tcpdriver.py'])
    tree = X.parse('cflib/cpx/__init__.py')
    # enums
    for cls in ('CPXTarget', 'CPXFunction'):
        vals = X.int_assigns(X.find(tree, cls))
        X.expect(vals, 'no values in ' + cls)
        g.nats(cls[3:].lower() + 'Values', sorted(vals.values()))
    pk = X.find(tree, 'CPXPacket')
    g.nat('cpxVersion', X.int_assigns(pk)['CPX_VERSION'])
    # wire side
    w = X.find(pk, '_get_wire_data')
    assigns = {ast.unparse(n.targets[0]): n.value for n in ast.walk(w) if isinstance(n, ast.Assign) and len(n.targets) == 1}
    env = {'self.source.value': 'src', 'self.destination.value': 'dst', 'self.function.value': 'fn', 'self.version': 'ver'}
    X.expect('targetsAndFlags' in assigns and 'functionAndVersion' in assigns, '_get_wire_data: header expressions not found')
    g.raw('def tfExpr (src dst : Nat) : Nat := ' + X.expr_to_lean(assigns['targetsAndFlags'], env))
    g.raw('def fvExpr (fn ver : Nat) : Nat := ' + X.expr_to_lean(assigns['functionAndVersion'], env))
    aug = [n for n in ast.walk(w) if isinstance(n, ast.AugAssign)]
    X.expect(len(aug) == 1 and isinstance(aug[0].op, ast.BitOr) and ast.unparse(aug[0].target) == 'targetsAndFlags',
             '_get_wire_data: expected exactly `targetsAndFlags |= <const>`')
    g.nat('lastFlag', ast.literal_eval(aug[0].value))
    sc = X.struct_calls(w)
    X.expect(len(sc) == 1, '_get_wire_data: expected one struct call')
    g.string('wireFmt', sc[0]['fmt'] or '?')
    g.strings('wireArgs', sc[0]['args'])
    # unwire side
    u = X.find(pk, '_set_wire_data')
    uas = {ast.unparse(n.targets[0]): n.value for n in ast.walk(u) if isinstance(n, ast.Assign) and len(n.targets) == 1}
    env2 = {'targetsAndFlags': 'tf', 'functionAndVersion': 'fv'}

    def arg_of_call(e, name):
        X.expect(isinstance(e, ast.Call) and ast.unparse(e.func) == name and len(e.args) == 1, 'expected %s(...) got %s' % (name, ast.unparse(e)))
        return e.args[0]
    g.raw('def verExpr (fv : Nat) : Nat := ' + X.expr_to_lean(uas['self.version'], env2))
    g.raw('def srcExpr (tf : Nat) : Nat := ' + X.expr_to_lean(arg_of_call(uas['self.source'], 'CPXTarget'), env2))
    g.raw('def dstExpr (tf : Nat) : Nat := ' + X.expr_to_lean(arg_of_call(uas['self.destination'], 'CPXTarget'), env2))
    g.raw('def fnExpr (fv : Nat) : Nat := ' + X.expr_to_lean(arg_of_call(uas['self.function'], 'CPXFunction'), env2))
    lp = uas['self.lastPacket']
    X.expect(isinstance(lp, ast.Compare) and isinstance(lp.ops[0], ast.NotEq) and ast.literal_eval(lp.comparators[0]) == 0,
             '_set_wire_data: lastPacket expression changed: ' + ast.unparse(lp))
    g.raw('def lastExpr (tf : Nat) : Nat := ' + X.expr_to_lean(lp.left, env2))
    sc = X.struct_calls(u)
    g.string('unwireFmt', sc[0]['fmt'] or '?')
    g.strings('unwireArgs', sc[0]['args'])
    # router: the only decision is "queue exists for this function?"
    r = X.find(tree, 'CPXRouter')
    g.strings('routerRunCompares', X.compares(X.find(r, 'run')))
    g.strings('routerReceiveCompares', X.compares(X.find(r, 'receivePacket')))
    # the read loop's exception handling: which classes are caught, and that the handler does not leave the loop
    rrun = X.find(r, 'run')
    tries = [n for n in ast.walk(rrun) if isinstance(n, ast.Try)]
    X.expect(len(tries) == 1 and len(tries[0].handlers) == 1, 'CPXRouter.run: expected one try with one handler')
    h = tries[0].handlers[0]
    if h.type is None:
        names = ['BaseException']
    elif isinstance(h.type, ast.Tuple):
        names = [ast.unparse(t) for t in h.type.elts]
    else:
        names = [ast.unparse(h.type)]
    g.strings('routerHandlers', names)
    loops = [n for n in ast.walk(rrun) if isinstance(n, ast.While)]
    X.expect(len(loops) == 1, 'CPXRouter.run: expected one loop')
    g.strings('routerStateOutsideLoop', [ast.unparse(n) for n in rrun.body if not isinstance(n, (ast.While, ast.Expr))])
    g.strings('routerQueueReads', sorted({ast.unparse(n) for n in ast.walk(loops[0]) if isinstance(n, (ast.Subscript, ast.Call, ast.Compare)) and '_rxQueues' in ast.unparse(n) and 'put' not in ast.unparse(n)}))
    g.raw('def routerHandlerLeavesLoop : Bool := ' + ('true' if any(isinstance(n, (ast.Break, ast.Return, ast.Raise)) for b in h.body for n in ast.walk(b)) else 'false'))
    g.raw('def routerTryInsideLoop : Bool := ' + ('true' if any(isinstance(n, ast.While) and tries[0] in n.body for n in ast.walk(rrun)) else 'false'))
    # the router OBJECT's state: parameters of __init__ (with defaults), where the queue table comes from, class-level
    # attributes, and how the library constructs routers (a table handed in / shared would join two links)
    rinit = X.find(r, '__init__')
    a = rinit.args
    pos = a.posonlyargs + a.args
    defaults = [None] * (len(pos) - len(a.defaults)) + list(a.defaults)
    params = [x.arg + ('=' + ast.unparse(d) if d is not None else '') for x, d in zip(pos, defaults)]
    params += ['*' + a.vararg.arg] if a.vararg else []
    params += [x.arg + ('=' + ast.unparse(d) if d is not None else '') for x, d in zip(a.kwonlyargs, a.kw_defaults)]
    params += ['**' + a.kwarg.arg] if a.kwarg else []
    g.strings('routerInitParams', params)
    g.strings('routerInitQueues', [ast.unparse(n) for fn in r.body if isinstance(fn, ast.FunctionDef) for n in ast.walk(fn)
                                   if isinstance(n, (ast.Assign, ast.AugAssign, ast.AnnAssign)) and '_rxQueues' in
                                   ' '.join(ast.unparse(t) for t in (n.targets if isinstance(n, ast.Assign) else [n.target]))
                                   and not any(isinstance(t, ast.Subscript) for t in (n.targets if isinstance(n, ast.Assign) else [n.target]))])
    g.strings('routerClassLevel', [ast.unparse(n) for n in r.body if not isinstance(n, (ast.FunctionDef, ast.Expr))])
    ctor = []
    for f in ('cflib/cpx/__init__.py', 'cflib/cpx/transports.py', 'cflib/crtp/tcpdriver.py'):
        ctor += [ast.unparse(n) for n in ast.walk(X.parse(f)) if isinstance(n, ast.Call) and ast.unparse(n.func).split('.')[-1] == 'CPXRouter']
    g.strings('routerCtorCalls', ctor)
    # socket transport: length prefix format/argument, the recv() argument and the loop condition
    t = X.find(X.parse('cflib/cpx/transports.py'), 'SocketTransport')
    sc = X.struct_calls(X.find(t, 'writePacket'))
    X.expect(len(sc) == 1, 'writePacket: expected one struct call')
    g.string('sockWriteFmt', sc[0]['fmt'] or '?')
    g.strings('sockWriteArgs', sc[0]['args'])
    rd = X.find(t, '_readData')
    loops = [n for n in ast.walk(rd) if isinstance(n, ast.While)]
    X.expect(len(loops) == 1, '_readData: expected one while loop')
    g.string('sockLoopCond', ast.unparse(loops[0].test))
    recvs = [n for n in ast.walk(rd) if isinstance(n, ast.Call) and ast.unparse(n.func).endswith('.recv')]
    X.expect(len(recvs) == 1 and len(recvs[0].args) == 1, '_readData: expected one recv(arg) call')
    g.string('sockRecvArg', ast.unparse(recvs[0].args[0]))
    # the transport object's state: which attributes each method stores (a receive buffer kept on the object would
    # survive disconnect()/connect())
    stores = []
    for fn in t.body:
        if isinstance(fn, ast.FunctionDef):
            tg = sorted({ast.unparse(x) for n in ast.walk(fn) for x in ((n.targets if isinstance(n, ast.Assign) else [n.target] if isinstance(n, (ast.AugAssign, ast.AnnAssign)) else []))
                         if ast.unparse(x).startswith('self.')})
            muts = sorted({ast.unparse(n.func.value) for n in ast.walk(fn) if isinstance(n, ast.Call) and isinstance(n.func, ast.Attribute)
                           and n.func.attr in ('extend', 'append', 'clear', 'pop', 'insert', 'remove') and ast.unparse(n.func.value).startswith('self.')})
            dels = sorted({ast.unparse(x) for n in ast.walk(fn) if isinstance(n, ast.Delete) for x in n.targets if ast.unparse(x).startswith('self.')})
            stores.append('%s: %s' % (fn.name, ','.join(tg + ['mut ' + m for m in muts] + ['del ' + d for d in dels]) or '-'))
    g.strings('sockObjectState', stores)
    g.strings('sockClassLevel', [ast.unparse(n) for n in t.body if not isinstance(n, (ast.FunctionDef, ast.Expr))])
    rp = X.find(t, 'readPacket')
    sc = X.struct_calls(rp)
    X.expect(len(sc) == 1, 'readPacket: expected one struct call')
    g.string('sockReadFmt', sc[0]['fmt'] or '?')
    g.strings('sockReadArgs', sc[0]['args'])
    g.strings('sockReadDataCalls', [ast.unparse(n) for n in sorted((m for m in ast.walk(rp) if isinstance(m, ast.Call) and ast.unparse(m.func).endswith('_readData')), key=lambda m: (m.lineno, m.col_offset))])
    # tcp driver tunnel
    d = X.parse('cflib/crtp/tcpdriver.py')
    sp = X.find(d, 'TcpDriver.send_packet')
    sas = {ast.unparse(n.targets[0]): n.value for n in ast.walk(sp) if isinstance(n, ast.Assign) and len(n.targets) == 1}
    X.expect('raw' in sas, 'TcpDriver.send_packet: raw = ... not found')
    g.string('tunnelSendRaw', ast.unparse(sas['raw']))
    calls = [n for n in ast.walk(sp) if isinstance(n, ast.Call) and ast.unparse(n.func) == 'CPXPacket']
    X.expect(len(calls) == 1, 'TcpDriver.send_packet: expected one CPXPacket(...)')
    g.strings('tunnelSendKw', sorted('%s=%s' % (k.arg, ast.unparse(k.value)) for k in calls[0].keywords))
    run = X.find(d, '_CPXReceiveThread.run')
    g.strings('tunnelRecvCompares', X.compares(run))
    calls = [n for n in ast.walk(run) if isinstance(n, ast.Call) and ast.unparse(n.func) == 'CRTPPacket']
    X.expect(len(calls) == 1, '_CPXReceiveThread.run: expected one CRTPPacket(...)')
    g.strings('tunnelRecvCtorArgs', [ast.unparse(a) for a in calls[0].args])
    # CRTPPacket constructor header logic
    c = X.find(X.parse('cflib/crtp/crtpstack.py'), 'CRTPPacket.__init__')
    cas = {ast.unparse(n.targets[0]): n.value for n in ast.walk(c) if isinstance(n, ast.Assign) and len(n.targets) == 1}
    envh = {'header': 'h'}
    g.raw('def crtpHeaderExpr (h : Nat) : Nat := ' + X.expr_to_lean(cas['self.header'], envh))
    g.raw('def crtpPortExpr (h : Nat) : Nat := ' + X.expr_to_lean(cas['self._port'], envh))
    g.raw('def crtpChanExpr (h : Nat) : Nat := ' + X.expr_to_lean(cas['self._channel'], envh))
    return {'C18.lean': g.render()}


# ------------------------------------------------------------------------------------------------------
class FakeSocket:
    """recv(n) returns at most n bytes from the head chunk (a chunk models one TCP segment delivery)"""

    def __init__(self, chunks):
        self.chunks = [bytes(c) for c in chunks]
        self.sent = []

    def recv(self, n):
        while self.chunks and len(self.chunks[0]) == 0:
            self.chunks.pop(0)
        if not self.chunks:
            raise BlockingIOError('would block forever')
        c = self.chunks[0]
        if len(c) <= n:
            self.chunks.pop(0)
            return c
        self.chunks[0] = c[n:]
        return c[:n]

    def send(self, data):
        self.sent.append(bytes(data))

    def connect(self, addr):
        self.connected_to = addr

    def shutdown(self, how):
        pass

    def close(self):
        self.closed = True


class _SocketFactory:
    """stands in for the `socket` module inside cflib.cpx.transports: hands out the prepared fake sockets in order"""
    AF_INET = SOCK_STREAM = SHUT_WR = 0

    def __init__(self, socks):
        self.socks = list(socks)

    def socket(self, *a):
        return self.socks.pop(0)


def make_transport(socks):
    """a REAL SocketTransport built through its own __init__/connect() on fake sockets"""
    import contextlib
    import io
    _, tr = _cpx()
    saved = tr.socket
    tr.socket = _SocketFactory(socks)
    try:
        with contextlib.redirect_stdout(io.StringIO()):
            t = tr.SocketTransport('127.0.0.1', 5000)
    finally:
        fac = tr.socket
        tr.socket = saved
    t._verif_factory = fac
    return t


def reconnect(t):
    """disconnect() + connect() on the same transport object (next prepared socket)"""
    import contextlib
    import io
    _, tr = _cpx()
    saved = tr.socket
    tr.socket = t._verif_factory
    try:
        with contextlib.redirect_stdout(io.StringIO()):
            t.disconnect()
            t.connect()
    finally:
        tr.socket = saved


def _cpx():
    import logging
    logging.disable(logging.CRITICAL)
    import cflib.cpx as cpx
    import cflib.cpx.transports as tr
    return cpx, tr


def real_wire(src, dst, fn, last, ver, data):
    cpx, _ = _cpx()
    try:
        p = cpx.CPXPacket(function=cpx.CPXFunction(fn), destination=cpx.CPXTarget(dst), source=cpx.CPXTarget(src), data=bytearray(data))
        p.lastPacket = last
        p.version = ver
        return 'ok ' + hexs(p.wireData)
    except Exception as e:
        return 'err ' + exc_enum(e)


def fmt_pkt(p):
    return '%d,%d,%d,%d,%s' % (p.source.value, p.destination.value, p.function.value, 1 if p.lastPacket else 0, hexs(p.data))


def real_unwire(raw):
    cpx, _ = _cpx()
    p = cpx.CPXPacket()
    try:
        p.wireData = bytearray(raw)
        return 'ok ' + fmt_pkt(p)
    except RuntimeError:
        return 'err version'
    except Exception as e:
        return 'err ' + exc_enum(e)


def real_read_packets(chunks, n, before=None):
    """read n packets through a real SocketTransport.  `before` = (chunks1, k1): first read k1 packets from an
    earlier connection on the SAME transport object (possibly leaving bytes unread / a packet half read),
    then disconnect() + connect() and read from the new connection only."""
    if before is not None:
        t = make_transport([FakeSocket(before[0]), FakeSocket(chunks)])
        for _ in range(before[1]):
            try:
                t.readPacket()
            except Exception:
                break
        reconnect(t)
    else:
        t = make_transport([FakeSocket(chunks)])
    out = []
    for _ in range(n):
        try:
            out.append(fmt_pkt(t.readPacket()))
        except BlockingIOError:
            out.append('blocked')
            break
        except RuntimeError:
            out.append('E:version')
        except Exception as e:
            out.append('E:' + exc_enum(e))
    rest = b''.join(t._socket.chunks)
    if out and out[-1] == 'blocked':
        return 'ok ' + ';'.join(out)      # bytes consumed by the interrupted read are not observable
    return 'ok ' + ';'.join(out) + ' rest=' + hexs(rest)


def real_frame(src, dst, fn, last, data):
    cpx, tr = _cpx()
    t = make_transport([FakeSocket([])])
    try:
        p = cpx.CPXPacket(function=cpx.CPXFunction(fn), destination=cpx.CPXTarget(dst), source=cpx.CPXTarget(src), data=bytearray(data))
        p.lastPacket = last
        t.writePacket(p)
        return 'ok ' + hexs(b''.join(t._socket.sent))
    except Exception as e:
        return 'err ' + exc_enum(e)


class ScriptTransport:
    """feeds CPXRouter.run() ONE continuous run: registrations scripted between two packets are performed from inside
    readPacket(), i.e. while the router thread's loop is alive (as a receiver thread calling receivePacket would)"""

    def __init__(self, script, router, do_reg):
        self.script = list(script)
        self.router = router
        self.do_reg = do_reg

    def readPacket(self):
        while self.script and self.script[0][0] == 'reg':
            self.do_reg(self.script.pop(0)[1])
        op = self.script.pop(0)
        if not any(o[0] == 'pkt' for o in self.script):
            self.router._connected = False      # last packet: the loop condition ends run()
        return op[1]


def real_router(script):
    """script: list of ('reg', fn) | ('pkt', fn, tag).  Registration creates the queue (receivePacket with timeout 0)."""
    import contextlib
    import io
    cpx, _ = _cpx()
    r = cpx.CPXRouter(None)       # the real constructor: the queue table is whatever it creates

    def do_reg(fn):
        if fn in r._rxQueues:
            return        # a further blocking receive on an existing queue: consumption is done at the end
        try:
            r.receivePacket(cpx.CPXFunction(fn), timeout=0.0)
        except queue.Empty:
            pass
    died = False
    with contextlib.redirect_stdout(io.StringIO()):
        ops = []
        for op in script:
            if op[0] == 'reg':
                ops.append(op)
            else:
                ops.append(('pkt', cpx.CPXPacket(function=cpx.CPXFunction(op[1]), destination=cpx.CPXTarget.HOST, data=bytearray([op[2]]))))
        if any(o[0] == 'pkt' for o in ops):
            t = ScriptTransport(ops, r, do_reg)
            r._transport = t
            try:
                r.run()
            except BaseException:
                died = True
            ops = t.script
        for op in ops:            # registrations before the first / after the last packet
            if op[0] == 'reg':
                do_reg(op[1])
    out = []
    for fnv in sorted(r._rxQueues):
        items = []
        while True:
            try:     # consume through the public receive path
                items.append(str(r.receivePacket(cpx.CPXFunction(fnv), timeout=0.0).data[0]))
            except queue.Empty:
                break
        out.append('%d:%s' % (fnv, ','.join(items) if items else '-'))
    return 'ok ' + (' '.join(out) if out else '-') + (' DIED' if died else '')


class OnePacketTransport:
    """hands the router loop exactly one packet, then ends the loop"""

    def __init__(self, router, pkt):
        self.router, self.pkt = router, pkt

    def readPacket(self):
        self.router._connected = False
        return self.pkt


def real_world(n, ops):
    """n CPX links alive in one process, each with its own REAL CPXRouter (real constructor, all built up front);
    ops: list of (link, ('reg', fn) | ('pkt', fn, tag)) in global order.  A packet of link j is routed by link j's
    router loop (one loop pass per packet; the continuous loop is covered by real_router)."""
    import contextlib
    import io
    cpx, _ = _cpx()
    routers = [cpx.CPXRouter(None) for _ in range(n)]
    died = False
    with contextlib.redirect_stdout(io.StringIO()):
        for link, op in ops:
            r = routers[link]
            if op[0] == 'reg':
                if op[1] not in r._rxQueues:
                    try:
                        r.receivePacket(cpx.CPXFunction(op[1]), timeout=0.0)
                    except queue.Empty:
                        pass
            else:
                r._connected = True
                r._transport = OnePacketTransport(r, cpx.CPXPacket(function=cpx.CPXFunction(op[1]), destination=cpx.CPXTarget.HOST,
                                                                   data=bytearray([op[2]])))
                try:
                    r.run()
                except BaseException:
                    died = True
    outs = []
    for r in routers:
        out = []
        for fnv in sorted(r._rxQueues):
            items = []
            while True:
                try:
                    items.append(str(r.receivePacket(cpx.CPXFunction(fnv), timeout=0.0).data[0]))
                except queue.Empty:
                    break
            out.append('%d:%s' % (fnv, ','.join(items) if items else '-'))
        outs.append(' '.join(out) if out else '-')
    return 'ok ' + ' | '.join(outs) + (' DIED' if died else '')


def gen_world(rng):
    n = rng.choice([2, 2, 3])
    fns = rng.sample(FUNCS, rng.choice([1, 2, 3]))      # few functions: the links listen on the SAME ones
    ops = []
    for _ in range(rng.randrange(1, 18)):
        link = rng.randrange(n)
        if rng.random() < 0.35:
            ops.append((link, ('reg', rng.choice(fns))))
        else:
            ops.append((link, ('pkt', rng.choice(fns), rng.randrange(256))))
    return n, ops


def world_line(n, ops):
    return 'world %d %s' % (n, ','.join(('%dr%d' % (l, o[1])) if o[0] == 'reg' else ('%dp%d:%d' % (l, o[1], o[2])) for l, o in ops) or '-')


class StreamSocket(FakeSocket):
    """FakeSocket that ends the router's loop cleanly when the stream is exhausted: it clears the router's
    `_connected` flag and the transport's socket, so `_readData` returns short and the loop condition stops the thread."""

    def __init__(self, chunks, router, transport):
        FakeSocket.__init__(self, chunks)
        self.router, self.transport = router, transport

    def recv(self, n):
        while self.chunks and len(self.chunks[0]) == 0:
            self.chunks.pop(0)
        if not self.chunks:
            self.router._connected = False
            self.transport._socket = None
            return b''
        return FakeSocket.recv(self, n)


def real_router_stream(regs, chunks):
    """the REAL CPXRouter.run reading through the REAL SocketTransport from a scripted socket"""
    import contextlib
    import io
    cpx, tr = _cpx()
    r = cpx.CPXRouter(None)
    sock = StreamSocket(chunks, r, None)
    t = make_transport([sock])
    sock.transport = t
    r._transport = t
    # guard against a read loop that spins without consuming the stream (would hang the check)
    budget = [4 * (sum(len(c) for c in chunks) + 4)]
    real_read = t.readPacket

    def counted_read():
        budget[0] -= 1
        if budget[0] < 0:
            r._connected = False
            raise KeyboardInterrupt('router loop spins without consuming the stream')
        return real_read()
    t.readPacket = counted_read
    died = None
    with contextlib.redirect_stdout(io.StringIO()), contextlib.redirect_stderr(io.StringIO()):
        for f in regs:
            try:
                r.receivePacket(cpx.CPXFunction(f), timeout=0.0)
            except queue.Empty:
                pass
        try:
            r.run()
        except BaseException as e:      # an exception escaping run() kills the router thread
            died = e
    out = []
    for fnv in sorted(r._rxQueues):
        items = []
        while True:
            try:
                p = r._rxQueues[fnv].get(block=False)
                items.append(str(p.data[0]) if len(p.data) else '256')
            except queue.Empty:
                break
        out.append('%d:%s' % (fnv, ','.join(items) if items else '-'))
    return 'ok %s %s' % (' '.join(out) if out else '-', 'died' if died is not None else 'alive')


def real_tunnel_up(header, data):
    import cflib.crtp.tcpdriver as td
    from cflib.crtp.crtpstack import CRTPPacket
    sent = []

    class C:
        def sendPacket(self, p):
            sent.append(p)
    d = td.TcpDriver.__new__(td.TcpDriver)
    d.cpx = C()
    pk = CRTPPacket()
    pk.header = header
    pk._data = bytearray(data)
    try:
        d.send_packet(pk)
        p = sent[0]
        p.data = bytearray(p.data)
        return 'ok %d,%d,%d,%s' % (p.source.value, p.destination.value, p.function.value, hexs(p.wireData[2:]))
    except Exception as e:
        return 'err ' + exc_enum(e)


def real_tunnel_down(payloads):
    """payloads: list of bytes objects = data of CPX packets on function CRTP; returns the CRTP packets queued"""
    import cflib.cpx as cpx
    import cflib.crtp.tcpdriver as td
    inq = queue.Queue()
    errs = []
    pend = [bytes(p) for p in payloads]
    th = [None]

    class C:
        def receivePacket(self, fn, timeout=None):
            assert fn == cpx.CPXFunction.CRTP
            if not pend:
                th[0].sp = True
                raise queue.Empty()
            return cpx.CPXPacket(function=fn, data=bytearray(pend.pop(0)))
    t = td._CPXReceiveThread(C(), inq, lambda m: errs.append(m))
    th[0] = t
    t.run()
    out = []
    while not inq.empty():
        pk = inq.get()
        out.append('%d/%d/%d/%s' % (pk.header, pk.port, pk.channel, hexs(pk.data)))
    return 'ok ' + (';'.join(out) if out else '-') + ' errs=%d' % len(errs)


# ------------------------------------------------------------------------------------------------------
TARGETS = [1, 2, 3, 4]
FUNCS = [1, 2, 3, 4, 5, 14, 15]


def all_cuts(stream, cutmask):
    chunks, cur = [], bytearray()
    for i, b in enumerate(stream):
        cur.append(b)
        if i < len(stream) - 1 and (cutmask >> i) & 1:
            chunks.append(bytes(cur))
            cur = bytearray()
    chunks.append(bytes(cur))
    return chunks


def gen_cases(ctx):
    rng = ctx.rng
    thorough = ctx.tier == 'thorough'
    cases = []   # (kind, lean_line, real_thunk, desc, nontrivial_key)
    # wire / unwire: every header combination
    for src in TARGETS:
        for dst in TARGETS:
            for fn in FUNCS:
                for last in (0, 1):
                    data = bytes(rng.randrange(256) for _ in range(rng.choice([0, 1, 2, 5, 30, 100])))
                    cases.append(('wire', 'wire %d %d %d %d 0 %s' % (src, dst, fn, last, hexs(data)),
                                  lambda s=src, d=dst, f=fn, l=last, da=data: real_wire(s, d, f, bool(l), 0, da),
                                  {'op': 'wire', 'src': src, 'dst': dst, 'fn': fn, 'last': last, 'len': len(data)}, ('wire', src, dst, fn, last)))
    # unwire: all 65536 two-byte headers in thorough, sample in quick (+ short inputs)
    hdrs = range(65536) if thorough else sorted(set(list(range(0, 65536, 97)) + [rng.randrange(65536) for _ in range(600)]))
    for h in hdrs:
        raw = bytes([h & 0xFF, h >> 8]) + bytes(rng.randrange(256) for _ in range(rng.choice([0, 0, 1, 3, 9])))
        cases.append(('unwire', 'unwire ' + hexs(raw), lambda r=raw: real_unwire(r), {'op': 'unwire', 'raw': raw.hex()}, ('unwire', h)))
    for raw in (b'', b'\x01'):
        cases.append(('unwire', 'unwire ' + hexs(raw), lambda r=raw: real_unwire(r), {'op': 'unwire', 'raw': raw.hex()}, ('unwire-short', len(raw))))
    # framing
    for _ in range(40):
        src, dst, fn, last = rng.choice(TARGETS), rng.choice(TARGETS), rng.choice(FUNCS), rng.randrange(2)
        data = bytes(rng.randrange(256) for _ in range(rng.choice([0, 1, 2, 30, 255, 1022])))
        cases.append(('frame', 'frame %d %d %d %d %s' % (src, dst, fn, last, hexs(data)),
                      lambda s=src, d=dst, f=fn, l=last, da=data: real_frame(s, d, f, bool(l), da),
                      {'op': 'frame', 'len': len(data)}, ('frame', len(data), src, dst, fn, last)))
    big = bytes(65534)
    cases.append(('frame', 'frame 3 1 3 0 ' + hexs(big), lambda: real_frame(3, 1, 3, False, big), {'op': 'frame', 'len': 65534}, ('frame-too-big',)))
    # reassembly: short streams, EVERY cut pattern
    def mkstream(npk, maxlen, valid=True):
        pk = []
        for _ in range(npk):
            src, dst, fn, last = rng.choice(TARGETS), rng.choice(TARGETS), rng.choice(FUNCS), rng.randrange(2)
            data = bytes(rng.randrange(256) for _ in range(rng.randrange(0, maxlen + 1)))
            tf = (src << 3) | dst | (0x40 if last else 0)
            fv = fn if valid or rng.random() < 0.7 else rng.randrange(256)
            body = bytes([tf, fv]) + data
            pk.append(struct.pack('<H', len(body)) + body)
        return b''.join(pk), npk
    nshort = 6 if thorough else 3
    maxbits = 15 if thorough else 12
    for k in range(nshort):
        stream, npk = mkstream(rng.choice([1, 2, 3]), 2)
        stream = stream[:maxbits + 1] if len(stream) > maxbits + 1 else stream
        for mask in range(1 << (len(stream) - 1)):
            chunks = all_cuts(stream, mask)
            line = 'read %d %s' % (npk, ','.join(hexs(c) for c in chunks))
            cases.append(('read', line, lambda c=chunks, n=npk: real_read_packets(c, n),
                          {'op': 'read', 'stream': stream.hex(), 'cutmask': mask}, ('read', stream, mask)))
    for k in range(2000 if thorough else 300):
        stream, npk = mkstream(rng.choice([1, 2, 3, 4, 6]), rng.choice([0, 3, 40, 300]), valid=rng.random() < 0.85)
        if rng.random() < 0.1:
            stream = stream[:rng.randrange(len(stream))] or stream   # truncated stream: reader blocks
        ncuts = rng.choice([0, 1, 2, 5, 20])
        pts = sorted({rng.randrange(1, len(stream)) for _ in range(ncuts)} if len(stream) > 1 else set())
        chunks = [stream[a:b] for a, b in zip([0] + pts, pts + [len(stream)])]
        line = 'read %d %s' % (npk, ','.join(hexs(c) for c in chunks))
        cases.append(('read', line, lambda c=chunks, n=npk: real_read_packets(c, n),
                      {'op': 'read', 'len': len(stream), 'cuts': pts[:8]}, ('readr', stream, tuple(pts))))
    # reconnect on the same transport object: whatever the old connection left unread must not leak into the new one
    for k in range(300 if thorough else 60):
        s1, n1 = mkstream(rng.choice([1, 2, 3]), rng.choice([0, 3, 20]))
        cutoff = rng.choice([len(s1), rng.randrange(0, len(s1) + 1), max(0, len(s1) - 1), 1])   # link may drop mid-packet
        s1 = s1[:cutoff]
        pts1 = sorted({rng.randrange(1, len(s1)) for _ in range(rng.choice([0, 1, 4]))} if len(s1) > 1 else set())
        ch1 = [s1[a:b] for a, b in zip([0] + pts1, pts1 + [len(s1)])] if s1 else []
        k1 = rng.randrange(0, n1 + 1)
        s2, n2 = mkstream(rng.choice([1, 2, 3]), rng.choice([0, 3, 40]))
        pts2 = sorted({rng.randrange(1, len(s2)) for _ in range(rng.choice([0, 2, 6]))} if len(s2) > 1 else set())
        ch2 = [s2[a:b] for a, b in zip([0] + pts2, pts2 + [len(s2)])]
        line = 'read %d %s' % (n2, ','.join(hexs(c) for c in ch2))
        cases.append(('reconnect', line, lambda c=ch2, n=n2, b=(ch1, k1): real_read_packets(c, n, before=b),
                      {'op': 'reconnect', 'old_stream': s1.hex(), 'old_read': k1, 'new_len': len(s2)}, ('reconnect', s1, k1, s2, tuple(pts2))))
    # router
    for k in range(400 if thorough else 120):
        script = []
        for _ in range(rng.randrange(0, 14)):
            if rng.random() < 0.3:
                script.append(('reg', rng.choice(FUNCS)))
            else:
                script.append(('pkt', rng.choice(FUNCS), rng.randrange(256)))
        line = 'router ' + (','.join('r%d' % o[1] if o[0] == 'reg' else 'p%d:%d' % (o[1], o[2]) for o in script) or '-')
        cases.append(('router', line, lambda s=script: real_router(s), {'op': 'router', 'script': script}, ('router', tuple(script))))
    # several links in one process, every router built by the real constructor
    for k in range(400 if thorough else 120):
        n, ops = gen_world(rng)
        cases.append(('world', world_line(n, ops), lambda n_=n, o=ops: real_world(n_, o), {'op': 'world', 'links': n, 'ops': ops},
                      ('world', n, tuple(ops))))
    # router thread on byte streams with rejected packets in between good ones
    for k in range(600 if thorough else 150):
        regs = sorted({rng.choice(FUNCS) for _ in range(rng.randrange(0, 4))})
        frames = []
        for _ in range(rng.randrange(1, 7)):
            src, dst, fn = rng.choice(TARGETS), rng.choice(TARGETS), rng.choice(regs + FUNCS) if regs else rng.choice(FUNCS)
            data = bytes(rng.randrange(256) for _ in range(rng.choice([0, 1, 1, 2, 5])))
            tf = (src << 3) | dst | (0x40 if rng.random() < 0.3 else 0)
            kind = rng.random()
            if kind < 0.62:
                body = bytes([tf, fn]) + data                                   # good packet
            elif kind < 0.74:
                body = bytes([tf, fn | (rng.choice([1, 2, 3]) << 6)]) + data      # unsupported version
            elif kind < 0.84:
                body = bytes([rng.choice([0, 5, 6, 7]) << 3 | dst, fn]) + data     # unknown target
            elif kind < 0.92:
                body = bytes([tf, rng.choice([0, 6, 13, 40])]) + data             # unknown function
            else:
                body = bytes([tf][:rng.randrange(0, 2)])                          # short packet (0 or 1 bytes)
            frames.append(struct.pack('<H', len(body)) + body)
        stream = b''.join(frames)
        ncuts = rng.choice([0, 1, 3, 8])
        pts = sorted({rng.randrange(1, len(stream)) for _ in range(ncuts)} if len(stream) > 1 else set())
        chunks = [stream[a:b] for a, b in zip([0] + pts, pts + [len(stream)])]
        line = 'rstream %s %s' % (','.join(map(str, regs)) or '-', ','.join(hexs(c) for c in chunks))
        cases.append(('rstream', line, lambda rg=regs, c=chunks: real_router_stream(rg, c),
                      {'op': 'rstream', 'regs': regs, 'frames': len(frames), 'cuts': pts[:6]}, ('rstream', tuple(regs), stream, tuple(pts))))
    # CRTP tunnel
    for h in range(256):
        data = bytes(rng.randrange(256) for _ in range(rng.choice([0, 0, 1, 7, 30, 31])))
        cases.append(('up', 'up %d %s' % (h, hexs(data)), lambda hh=h, d=data: real_tunnel_up(hh, d), {'op': 'tunnel-up', 'header': h, 'len': len(data)}, ('up', h, len(data))))
    for k in range(200 if thorough else 60):
        pl = []
        for _ in range(rng.randrange(0, 6)):
            pl.append(bytes(rng.randrange(256) for _ in range(rng.choice([0, 1, 1, 2, 5, 31]))))
        line = 'down ' + (','.join(hexs(p) for p in pl) or '-')
        cases.append(('down', line, lambda p=pl: real_tunnel_down(p), {'op': 'tunnel-down', 'lens': [len(p) for p in pl]}, ('down', tuple(pl))))
    return cases


def correspond(ctx):
    cases = gen_cases(ctx)
    replies = ctx.lean(DRIVER, [c[1] for c in cases])
    for (kind, line, thunk, desc, key), model in zip(cases, replies):
        real = thunk()
        ctx.count('op:' + kind)
        ctx.count('result:' + real.split(' ')[0] + (':' + real.split(' ')[1] if real.startswith('err') else ''))
        ctx.case(desc, key)
        if real != model:
            ctx.disagree(kind, line[:300], model[:300], real[:300])


# ---- direct evaluation of the property on the real code (failing-input search) -------------------------
def search(ctx):
    """Spec twin in Python: the property itself, evaluated on the real code's outputs."""
    import cflib.cpx as cpx
    rng = ctx.rng
    # (1) encode/decode survives for every combination; (2) unsupported versions rejected
    for src in TARGETS:
        for dst in TARGETS:
            for fn in FUNCS:
                for last in (False, True):
                    for n in (0, 1, 17):
                        data = bytes(rng.randrange(256) for _ in range(n))
                        try:
                            p = cpx.CPXPacket(function=cpx.CPXFunction(fn), destination=cpx.CPXTarget(dst), source=cpx.CPXTarget(src), data=bytearray(data))
                            p.lastPacket = last
                            raw = p.wireData
                            q = cpx.CPXPacket()
                            q.wireData = raw
                            got = (q.source.value, q.destination.value, q.function.value, q.lastPacket, bytes(q.data))
                        except Exception as e:
                            got = repr(e)
                        if got != (src, dst, fn, last, data):
                            ctx.witness('roundtrip', 'CPX packet does not survive encode/decode', {'src': src, 'dst': dst, 'fn': fn, 'last': last, 'data': data.hex()}, got=str(got))
    for ver in (1, 2, 3):
        raw = bytes([(3 << 3) | 1, 3 | (ver << 6), 7])
        r = real_unwire(raw)
        if r != 'err version':
            ctx.witness('version', 'packet with unsupported version accepted', {'raw': raw.hex()}, got=r)
    # (3) any fragmentation re-assembles exactly the sent sequence (sent by the real writePacket)
    _, tr = _cpx()
    for trial in range(150 if ctx.tier == 'quick' else 1500):
        pk = []
        for _ in range(rng.choice([1, 2, 3, 5])):
            pk.append((rng.choice(TARGETS), rng.choice(TARGETS), rng.choice(FUNCS), rng.random() < 0.5,
                       bytes(rng.randrange(256) for _ in range(rng.choice([0, 1, 2, 5, 40])))))
        t = make_transport([FakeSocket([])])
        for (s, d, f, l, da) in pk:
            p = cpx.CPXPacket(function=cpx.CPXFunction(f), destination=cpx.CPXTarget(d), source=cpx.CPXTarget(s), data=bytearray(da))
            p.lastPacket = l
            t.writePacket(p)
        stream = b''.join(t._socket.sent)
        if len(stream) <= 11:
            masks = range(1 << (len(stream) - 1))
        else:
            masks = [0, (1 << (len(stream) - 1)) - 1] + [rng.getrandbits(len(stream) - 1) for _ in range(6)] + \
                    [1 << rng.randrange(len(stream) - 1) for _ in range(6)]
        for m in masks:
            chunks = all_cuts(stream, m)
            want = 'ok ' + ';'.join('%d,%d,%d,%d,%s' % (s, d, f, 1 if l else 0, hexs(da)) for (s, d, f, l, da) in pk) + ' rest=-'
            got = real_read_packets(chunks, len(pk))
            if got != want:
                ctx.witness('reassembly', 'fragmented stream not re-assembled into the sent packet sequence',
                            {'packets': [(s, d, f, l, da.hex()) for (s, d, f, l, da) in pk], 'chunks': [c.hex() for c in chunks]}, got=got[:300], want=want[:300])
                break
    # (3b) a new connection on the same transport object delivers exactly the new stream (nothing left over from the old one)
    for trial in range(60 if ctx.tier == 'quick' else 600):
        def frames(n):
            out, pk = [], []
            for _ in range(n):
                sdfl = (rng.choice(TARGETS), rng.choice(TARGETS), rng.choice(FUNCS), rng.random() < 0.5)
                da = bytes(rng.randrange(256) for _ in range(rng.choice([0, 1, 3, 9])))
                body = bytes([(sdfl[0] << 3) | sdfl[1] | (0x40 if sdfl[3] else 0), sdfl[2]]) + da
                out.append(struct.pack('<H', len(body)) + body)
                pk.append(sdfl + (da,))
            return out, pk
        f1, _ = frames(rng.choice([1, 2, 3]))
        old = b''.join(f1)
        old = old[:rng.choice([len(old), max(1, len(old) - rng.randrange(1, 4)), rng.randrange(1, len(old) + 1)])]
        k1 = rng.randrange(0, len(f1) + 1)
        f2, p2 = frames(rng.choice([1, 2, 3]))
        new = b''.join(f2)
        pts = sorted({rng.randrange(1, len(new)) for _ in range(rng.choice([0, 2, 5]))})
        ch2 = [new[a:b] for a, b in zip([0] + pts, pts + [len(new)])]
        want = 'ok ' + ';'.join('%d,%d,%d,%d,%s' % (s_, d_, f_, 1 if l_ else 0, hexs(da)) for (s_, d_, f_, l_, da) in p2) + ' rest=-'
        try:
            got = real_read_packets(ch2, len(p2), before=([old], k1))
        except Exception as e:
            got = 'exception ' + repr(e)
        if got != want:
            ctx.witness('reconnect-leftover', 'after disconnect()+connect() on the same transport the new stream is not re-assembled into exactly the packets sent on the new connection',
                        {'old_stream': old.hex(), 'packets_read_from_old': k1, 'new_chunks': [c.hex() for c in ch2]}, got=got[:300], want=want[:300])
            break
    # (4) router: per function FIFO, only to receivers of that function
    for trial in range(100):
        script, expect = [], {}
        for _ in range(rng.randrange(1, 16)):
            if rng.random() < 0.3:
                f = rng.choice(FUNCS)
                script.append(('reg', f))
                expect.setdefault(f, [])
            else:
                f, tag = rng.choice(FUNCS), rng.randrange(256)
                script.append(('pkt', f, tag))
                if f in expect:
                    expect[f].append(tag)
        want = 'ok ' + (' '.join('%d:%s' % (f, ','.join(map(str, expect[f])) or '-') for f in sorted(expect)) or '-')
        got = real_router(script)
        if got != want:
            ctx.witness('router', 'router queue contents differ from per-function arrival order', {'script': script}, got=got, want=want)
    # (4a) several links in one process: each link's receivers get exactly that link's packets, per function in order
    for trial in range(100 if ctx.tier == 'quick' else 600):
        n, ops = gen_world(rng)
        expect = [dict() for _ in range(n)]
        for link, op in ops:
            if op[0] == 'reg':
                expect[link].setdefault(op[1], [])
            elif op[1] in expect[link]:
                expect[link][op[1]].append(op[2])
        want = 'ok ' + ' | '.join((' '.join('%d:%s' % (f, ','.join(map(str, e[f])) or '-') for f in sorted(e)) or '-') for e in expect)
        got = real_world(n, ops)
        if got != want:
            ctx.witness('links-not-isolated', 'with several CPX links alive in one process a link\'s receivers are not handed exactly that link\'s packets',
                        {'links': n, 'ops': ops}, got=got, want=want)
            break
    # (4b) a rejected packet (bad version / unknown target or function) neither kills the router nor stops later packets
    for trial in range(80):
        good = [(rng.choice(FUNCS), rng.randrange(256)) for _ in range(rng.randrange(2, 6))]
        regs = sorted({f for f, _ in good})
        pos = rng.randrange(0, len(good))
        bad = rng.choice([bytes([(3 << 3) | 1, 3 | (rng.choice([1, 2, 3]) << 6), 9]), bytes([(7 << 3) | 1, 3, 9]), bytes([(3 << 3) | 1, 0, 9])])
        frames = [struct.pack('<H', 3) + bytes([(3 << 3) | 3, f, tag]) for f, tag in good]
        frames.insert(pos, struct.pack('<H', len(bad)) + bad)
        stream = b''.join(frames)
        pts = sorted({rng.randrange(1, len(stream)) for _ in range(rng.choice([0, 2, 6]))})
        chunks = [stream[a:b] for a, b in zip([0] + pts, pts + [len(stream)])]
        want = 'ok ' + ' '.join('%d:%s' % (f, ','.join(str(t) for ff, t in good if ff == f)) for f in regs) + ' alive'
        got = real_router_stream(regs, chunks)
        if got != want:
            ctx.witness('router-rejected-packet', 'a rejected packet stopped the routing of later packets / killed the router thread',
                        {'registered': regs, 'frames': [fr.hex() for fr in frames], 'rejected_at': pos, 'chunks': [c.hex() for c in chunks]}, got=got, want=want)
    # (5) CRTP tunnel identity both ways (downlink: reserved header bits 2-3 forced to 1 by CRTPPacket, as on every link)
    for h in range(256):
        for n in (0, 1, 30):
            data = bytes(rng.randrange(256) for _ in range(n))
            up = real_tunnel_up(h, data)
            want = 'ok 3,1,3,' + hexs(bytes([h]) + data)
            if up != want:
                ctx.witness('tunnel-up', 'uplink CRTP packet changed by tunnelling', {'header': h, 'data': data.hex()}, got=up, want=want)
            down = real_tunnel_down([bytes([h]) + data])
            want = 'ok %d/%d/%d/%s errs=0' % (h | 0x0C, h >> 4, h & 3, hexs(data))
            if down != want:
                ctx.witness('tunnel-down', 'downlink CRTP packet changed or dropped by tunnelling', {'header': h, 'data': data.hex()}, got=down, want=want)

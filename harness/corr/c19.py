"""C19 - swarm-wide actions run once per Crazyflie with the right arguments and error report.

Tie A: the loop / spawn / join / raise skeleton of Swarm.parallel_safe, the thread wrapper, the Reporter, the
argument processing, sequential / parallel / open_links / close_links and the open/close guards of SyncCrazyflie are
re-extracted from cflib/crazyflie/swarm.py and syncCrazyflie.py into Gen/C19.lean.
Tie B: the real Swarm with real SyncCrazyflie members (over an instrumented fake Crazyflie) runs under the
deterministic scheduler harness/vsched on every interleaving of small swarms and random interleavings of larger ones,
for every failing subset; the observed step sequence is replayed on the Lean model (Driver/C19.lean), which must
accept it and produce the same events, result and final member states (trace acceptance + result equality).
"""
import ast

from harness.lib import extract as X
from harness.lib.common import ExtractError  # noqa: F401

PID = 'C19'
LEAN_TARGETS = ['CfVerif.Props.C19']
PROPS_MODULES = ['CfVerif.Props.C19']
DRIVER = 'Driver/C19.lean'
REQUIRED_THEOREMS = ['CfVerif.C19.' + t for t in (
    'each_once_with_own_args', 'sequential_in_order', 'parallel_safe_returns_after_all', 'raises_iff_some_failed', 'cause_in_trace',
    'parallel_never_raises', 'open_failure_closes_all_and_raises', 'no_double_open', 'open_twice_raises', 'no_deadlock',
    'schedule_bounded', 'never_index_error', 'mkSwarm_nodup', 'mkSwarm_of_nodup', 'gen_spawn_loop', 'gen_join_loop', 'gen_raise',
    'gen_wrapper', 'gen_reporter', 'gen_process_args', 'gen_sequential', 'gen_parallel', 'gen_open_links', 'gen_open_guard_position',
    'gen_close_links', 'call_state', 'history_state', 'fresh_wf', 'gen_process_args_no_alias', 'args_dict_unchanged',
    'shared_dict_history',
    'gen_ctor', 'gen_sync_crazyflie', 'gen_constants')]
TRUSTED = ['harness/corr/c19.py extractor + correspondence (incl. the mapping of observed events to model steps)',
           'Driver/C19.lean: eager insertion of main\'s silent steps when replaying an observed step sequence',
           'harness/vsched: the schedules explored on the real code; atomicity at yield-point granularity plus the two trace points '
           'inside Reporter.report_error',
           'CPython: attribute stores and list.append are atomic; Thread.join returns only after the target has returned; dict iteration = insertion order']
ASSUMPTIONS = ['actions raise only Exception subclasses (a BaseException such as SystemExit kills the member thread unreported) and terminate',
               'the argument dictionary is None/empty or has an entry (a list/tuple) for every URI; with a missing entry parallel_safe raises '
               'KeyError while already started threads keep running (modelled: Exc.keyError; outside the property; parallel still never raises)',
               'one swarm-wide call at a time per Swarm object; cf.close_link() does not raise or block',
               'SyncCrazyflie is modelled by its _is_link_open flag and the open/close guards; its event waiting (and defect D1, C02) is outside']
RULE = ('cases = real Swarm (real SyncCrazyflie members over an instrumented fake Crazyflie) under vsched: for 1-2 members EVERY interleaving '
        'x EVERY failing subset of parallel_safe / parallel / open_links, for 3-4 members every failing subset with bounded preemptions '
        '(thorough: all interleavings for <= 1 failure), plus random multi-call scenarios (0-6 members, repeated URIs, None/empty/partial '
        'argument dictionaries, open/close/pre-open sequences) and random HISTORIES of 3-10 open/close calls on one swarm (failing, rejected and repeated opens, actions in between; link flags and _is_open compared after EVERY call) under random schedules; the observed step sequence is replayed on the '
        'Lean model, which must accept it and yield the same events, result, chained cause and link flags; distinct+non-trivial = '
        'distinct (scenario, schedule choice list)')

SWARM = 'cflib/crazyflie/swarm.py'
SCF = 'cflib/crazyflie/syncCrazyflie.py'


# ---- Tie A -----------------------------------------------------------------------------------------------
def _stmts(body):
    return [ast.unparse(s) for s in body if not (isinstance(s, ast.Expr) and isinstance(s.value, ast.Constant)
                                                   and isinstance(s.value.value, str))]


def _body(fn):
    return [s for s in fn.body if not (isinstance(s, ast.Expr) and isinstance(s.value, ast.Constant) and isinstance(s.value.value, str))]


def _bool_assign(stmts, target, where):
    for s in stmts:
        if isinstance(s, ast.Assign) and len(s.targets) == 1 and ast.unparse(s.targets[0]) == target \
                and isinstance(s.value, ast.Constant) and isinstance(s.value.value, bool):
            return s.value.value
    raise ExtractError('%s: no `%s = True|False`' % (where, target))


def _lbool(b):
    return 'true' if b else 'false'


def extract(ctx):
    g = X.GenFile(PID, [SWARM, SCF])
    tree = X.parse(SWARM)
    sw = X.find(tree, 'Swarm')

    # --- parallel_safe: spawn loop, join loop, raise
    ps = _body(X.find(sw, 'parallel_safe'))
    loops = [s for s in ps if isinstance(s, ast.For)]
    X.expect(len(loops) == 2, 'parallel_safe: expected exactly two for loops (spawn, join), found %d' % len(loops))
    spawn, join = loops
    X.expect(ps.index(spawn) < ps.index(join), 'parallel_safe: loop order')
    g.string('psSpawnIter', ast.unparse(spawn.iter))
    g.string('psSpawnTarget', ast.unparse(spawn.target))
    g.strings('psSpawnBody', _stmts(spawn.body))
    X.expect(not spawn.orelse and not join.orelse, 'parallel_safe: for/else')
    g.string('psJoinIter', ast.unparse(join.iter))
    g.string('psJoinTarget', ast.unparse(join.target))
    g.strings('psJoinBody', _stmts(join.body))
    g.strings('psBeforeSpawn', _stmts(ps[:ps.index(spawn)]))
    g.strings('psBetween', _stmts(ps[ps.index(spawn) + 1:ps.index(join)]))
    tail = ps[ps.index(join) + 1:]
    X.expect(len(tail) == 1 and isinstance(tail[0], ast.If) and not tail[0].orelse,
             'parallel_safe: expected exactly one `if` after the join loop')
    g.string('psRaiseCond', ast.unparse(tail[0].test))
    raises = [s for s in ast.walk(tail[0]) if isinstance(s, ast.Raise)]
    X.expect(len(raises) == 1 and raises[0].cause is not None and isinstance(raises[0].exc, ast.Call),
             'parallel_safe: expected one `raise X(...) from cause`')
    g.string('psRaiseClass', ast.unparse(raises[0].exc.func))
    g.string('psRaiseCause', ast.unparse(raises[0].cause))
    cause_src = None
    for s in tail[0].body:
        if isinstance(s, ast.Assign) and len(s.targets) == 1 and ast.unparse(s.targets[0]) == ast.unparse(raises[0].cause):
            cause_src = s.value
    X.expect(cause_src is not None and isinstance(cause_src, ast.Subscript) and isinstance(cause_src.slice, ast.Constant)
             and isinstance(cause_src.slice.value, int) and cause_src.slice.value >= 0,
             'parallel_safe: cause is not `<errors>[<non-negative int literal>]`')
    g.string('psCauseList', ast.unparse(cause_src.value))
    g.nat('errIndex', cause_src.slice.value)
    g.strings('psIfBody', _stmts(tail[0].body)[:1])

    # --- thread wrapper
    wr = _body(X.find(sw, '_thread_function_wrapper'))
    trys = [s for s in wr if isinstance(s, ast.Try)]
    X.expect(len(trys) == 1 and len(trys[0].handlers) == 1 and not trys[0].finalbody and not trys[0].orelse,
             '_thread_function_wrapper: expected one try/except')
    g.strings('wrapTry', _stmts(trys[0].body))
    h = trys[0].handlers[0]
    g.string('wrapHandlerType', ast.unparse(h.type) if h.type is not None else '')
    g.strings('wrapHandlerBody', _stmts(h.body))

    # --- Reporter
    rp = X.find(sw, 'Reporter')
    g.strings('reporterClassAttrs', [ast.unparse(s) for s in rp.body if isinstance(s, (ast.Assign, ast.AnnAssign, ast.AugAssign))])
    rinit = _body(X.find(rp, '__init__'))
    g.strings('reporterInit', _stmts(rinit))
    g.raw('def reporterInitFlag : Bool := ' + _lbool(_bool_assign(rinit, 'self.error_reported', 'Reporter.__init__')))
    rrep = _body(X.find(rp, 'report_error'))
    g.strings('reportBody', _stmts(rrep))
    g.raw('def reportFlagValue : Bool := ' + _lbool(_bool_assign(rrep, 'self.error_reported', 'Reporter.report_error')))
    g.strings('reporterIsErr', _stmts(_body(X.find(rp, 'is_error_reported'))))
    g.strings('reporterErrors', _stmts(_body(X.find(rp, 'errors'))))

    # --- argument processing, sequential, parallel
    g.strings('procArgs', _stmts(_body(X.find(sw, '_process_args_dict'))))
    # aliasing: which objects does _process_args_dict change in place, and are they its own fresh lists or the caller's?
    pfn = X.find(sw, '_process_args_dict')
    params = [a.arg for a in pfn.args.args]
    X.expect(len(params) == 4, '_process_args_dict: expected (self, scf, uri, args_dict)')
    caller = params[3]

    def root(e):
        while isinstance(e, (ast.Subscript, ast.Attribute)):
            e = e.value
        return e.id if isinstance(e, ast.Name) else None
    aliases, fresh = {caller}, set()
    for _ in range(3):                                   # tiny fixpoint over simple assignments
        for n in ast.walk(pfn):
            if isinstance(n, ast.Assign) and len(n.targets) == 1 and isinstance(n.targets[0], ast.Name):
                v, t = n.value, n.targets[0].id
                if isinstance(v, (ast.Name, ast.Subscript, ast.Attribute)) and root(v) in aliases:
                    aliases.add(t)                       # bound to (a part of) the caller's dictionary without a copy
                elif isinstance(v, ast.Call) and isinstance(v.func, ast.Attribute) and v.func.attr in ('get', 'setdefault', 'pop') \
                        and root(v.func.value) in aliases:
                    aliases.add(t)
                elif isinstance(v, (ast.List, ast.ListComp, ast.BinOp, ast.Call, ast.Tuple)):
                    fresh.add(t)
    mutated = set()
    MUT = ('insert', 'append', 'extend', 'pop', 'remove', 'clear', 'sort', 'reverse', 'update', 'setdefault', 'popitem', '__iadd__', '__setitem__')
    for n in ast.walk(pfn):
        if isinstance(n, ast.AugAssign):
            mutated.add(ast.unparse(n.target))
        elif isinstance(n, ast.Call) and isinstance(n.func, ast.Attribute) and n.func.attr in MUT:
            mutated.add(ast.unparse(n.func.value))
        elif isinstance(n, ast.Delete):
            mutated.update(ast.unparse(t.value) if isinstance(t, ast.Subscript) else ast.unparse(t) for t in n.targets)
        elif isinstance(n, ast.Assign):
            mutated.update(ast.unparse(t.value) for t in n.targets if isinstance(t, ast.Subscript))

    def is_caller(expr):
        try:
            return root(ast.parse(expr, mode='eval').body) in aliases
        except SyntaxError:
            return True
    g.strings('procMutated', sorted(mutated))
    g.strings('procFresh', sorted(fresh - aliases))
    g.strings('procMutatedCaller', sorted(m for m in mutated if is_caller(m)))
    sq = _body(X.find(sw, 'sequential'))
    X.expect(len(sq) == 1 and isinstance(sq[0], ast.For), 'sequential: expected a single for loop')
    g.string('seqIter', ast.unparse(sq[0].iter))
    g.string('seqTarget', ast.unparse(sq[0].target))
    g.strings('seqBody', _stmts(sq[0].body))
    pa = _body(X.find(sw, 'parallel'))
    X.expect(len(pa) == 1 and isinstance(pa[0], ast.Try) and len(pa[0].handlers) == 1 and not pa[0].finalbody and not pa[0].orelse,
             'parallel: expected a single try/except')
    g.strings('parTry', _stmts(pa[0].body))
    g.string('parHandlerType', ast.unparse(pa[0].handlers[0].type) if pa[0].handlers[0].type is not None else '')
    g.strings('parHandlerBody', _stmts(pa[0].handlers[0].body))

    # --- open_links / close_links / __init__
    ol = _body(X.find(sw, 'open_links'))
    trys = [s for s in ol if isinstance(s, ast.Try)]
    X.expect(len(trys) == 1 and len(trys[0].handlers) == 1 and not trys[0].finalbody and not trys[0].orelse,
             'open_links: expected exactly one try/except')
    otry = trys[0]

    def is_guard(st):
        return isinstance(st, ast.If) and not st.orelse and any(isinstance(x, ast.Raise) for x in st.body)
    before = ol[:ol.index(otry)]
    inside = [st for st in otry.body if is_guard(st)]
    outside = [st for st in before if is_guard(st)]
    X.expect(len(inside) + len(outside) == 1 and (not inside or otry.body[0] is inside[0]),
             'open_links: expected exactly one `if <guard>: raise ...`, before the try or as its first statement')
    guard = (inside + outside)[0]
    # WHERE the "already opened" guard sits relative to the try decides whether its raise runs the failure clean-up
    g.raw('def openGuardInTry : Bool := ' + _lbool(bool(inside)))
    g.strings('openShape', [type(st).__name__ for st in ol])
    g.string('openGuard', ast.unparse(guard.test))
    g.strings('openGuardBody', _stmts(guard.body))
    g.strings('openTry', _stmts([st for st in otry.body if st is not guard]))
    g.strings('openAfterTry', _stmts(ol[ol.index(otry) + 1:]))
    g.raw('def openSetsFlag : Bool := ' + _lbool(_bool_assign(otry.body, 'self._is_open', 'open_links try body')))
    ol = [guard, otry]
    oh = ol[1].handlers[0]
    g.string('openHandler', '%s as %s' % (ast.unparse(oh.type) if oh.type is not None else '', oh.name))
    g.strings('openHandlerBody', _stmts(oh.body))
    cl = _body(X.find(sw, 'close_links'))
    X.expect(len(cl) == 2 and isinstance(cl[0], ast.For), 'close_links: expected a for loop and one statement')
    g.string('closeIter', ast.unparse(cl[0].iter))
    g.string('closeTarget', ast.unparse(cl[0].target))
    g.strings('closeBody', _stmts(cl[0].body))
    g.strings('closeTail', _stmts(cl[1:]))
    g.raw('def closeSetsFlag : Bool := ' + _lbool(_bool_assign(cl[1:], 'self._is_open', 'close_links')))
    ini = _body(X.find(sw, '__init__'))
    g.raw('def initIsOpen : Bool := ' + _lbool(_bool_assign(ini, 'self._is_open', 'Swarm.__init__')))
    fl = [s for s in ini if isinstance(s, ast.For)]
    X.expect(len(fl) == 1, 'Swarm.__init__: expected one for loop')
    g.string('ctorLoop', ast.unparse(fl[0]).replace('\n', ' ').replace('    ', ''))
    g.strings('ctorCfsInit', [s for s in _stmts(ini) if s.startswith('self._cfs =')])
    g.strings('enterBody', _stmts(_body(X.find(sw, '__enter__'))))
    g.strings('exitBody', _stmts(_body(X.find(sw, '__exit__'))))

    # --- SyncCrazyflie: the open / close guards and the flag the callbacks set
    sc = X.find(X.parse(SCF), 'SyncCrazyflie')
    so = _body(X.find(sc, 'open_link'))
    X.expect(isinstance(so[0], ast.If) and isinstance(so[-1], ast.If), 'SyncCrazyflie.open_link: expected leading and trailing `if`')
    g.string('scfOpenGuard', ast.unparse(so[0].test))
    g.strings('scfOpenGuardBody', _stmts(so[0].body))
    g.string('scfOpenFailCond', ast.unparse(so[-1].test))
    g.strings('scfOpenFailRaise', [ast.unparse(s) for s in so[-1].body if isinstance(s, ast.Raise)])
    g.strings('scfOpenCalls', [s for s in _stmts(so[1:-1]) if 'open_link' in s or '.wait(' in s])
    scl = _body(X.find(sc, 'close_link'))
    X.expect(len(scl) == 1 and isinstance(scl[0], ast.If) and not scl[0].orelse, 'SyncCrazyflie.close_link: expected a single guarded block')
    g.string('scfCloseGuard', ast.unparse(scl[0].test))
    g.strings('scfCloseCalls', [s for s in _stmts(scl[0].body) if 'close_link' in s or '.wait(' in s])
    g.strings('scfIsOpen', _stmts(_body(X.find(sc, 'is_link_open'))))
    g.raw('def scfInitIsOpen : Bool := ' + _lbool(_bool_assign(_body(X.find(sc, '__init__')), 'self._is_link_open', 'SyncCrazyflie.__init__')))
    g.raw('def scfConnectedSets : Bool := ' + _lbool(_bool_assign(_body(X.find(sc, '_connected')), 'self._is_link_open', '_connected')))
    g.raw('def scfFailedSets : Bool := ' + _lbool(_bool_assign(_body(X.find(sc, '_connection_failed')), 'self._is_link_open', '_connection_failed')))
    g.raw('def scfDisconnectedSets : Bool := ' + _lbool(_bool_assign(_body(X.find(sc, '_disconnected')), 'self._is_link_open', '_disconnected')))
    return {'C19.lean': g.render()}


# ---- the real code under vsched -----------------------------------------------------------------------------
# A scenario = {'uris': [int...], 'ops': [op...]}, op =
#   ('ps'|'par', argsdict|None, {u: n}[, {u: secs}])   parallel_safe / parallel with a user action; member u raises UserErr(n);
#                                         members in the optional 4th field run for that many virtual seconds
#   ('seq', argsdict|None, {u: n})        sequential
#   ('open', [u...])                      open_links(); the members listed fail to connect
#   ('close',)                            close_links()
#   ('preopen', i)                        the user opens member i's SyncCrazyflie directly (outside the swarm calls)
# argsdict = {u: [int...]} (may lack members: KeyError path), None, or {}.
class UserErr(Exception):
    def __init__(self, n):
        Exception.__init__(self, 'user error %d' % n)
        self.n = n


def ad_of(scenario, x):
    """the argument dictionary of an op: a literal (None / dict) or the NAME of one of the scenario's shared dictionaries
    (scenario['shared'] = {'D0': {u: [...]}}): ops naming the same dictionary pass the very same dict object, as a caller
    does who re-uses one args_dict for several swarm-wide actions"""
    if isinstance(x, str):
        return scenario.get('shared', {})[x]
    return x


def canon_arg(a):
    return a if isinstance(a, (int, float, str)) and not isinstance(a, bool) else 'OBJ:' + type(a).__name__


def uri_s(u):
    return 'uri%d' % u


def uri_n(s):
    return int(str(s)[3:])


def report_points():
    """trace points for the two statements of Reporter.report_error, from the current source"""
    try:
        body = _stmts(_body(X.find(X.find(X.parse(SWARM), 'Swarm'), 'Reporter.report_error')))
    except ExtractError:
        body = []
    return [('report_error', s) for s in body if '\n' not in s]


class Env:
    """shared between the instrumented members / actions of one run"""

    def __init__(self, vs):
        self.vs = vs
        self.members = []         # constructed objects, ordinal = index
        self.connfail = set()
        self.op = -1
        self.raised = {}          # op index -> [exception objects raised by actions in that op]

    def ordinal(self, obj):
        for k, m in enumerate(self.members):
            if m is obj:
                return k
        return -1

    def tag(self, e, label):
        try:
            e._c19 = label
        except Exception:
            pass
        self.raised.setdefault(self.op, []).append(e)


def make_classes(env):
    from cflib.crazyflie.syncCrazyflie import SyncCrazyflie
    from cflib.utils.callbacks import Caller
    vs = env.vs

    class FakeCf:
        """what SyncCrazyflie needs of a Crazyflie: the four Callers, open_link, close_link"""

        def __init__(self, uri):
            self.uri = uri
            self.connected = Caller()
            self.connection_failed = Caller()
            self.disconnected = Caller()
            self.fully_connected = Caller()

        def open_link(self, uri):
            vs.yield_now('connect')
            if uri_n(uri) in env.connfail:
                self.connection_failed.call(uri, 'no answer from ' + uri)
            else:
                self.connected.call(uri)

        def close_link(self):
            self.disconnected.call(self.uri)

    class Member(SyncCrazyflie):
        def open_link(self):
            u = uri_n(self._link_uri)
            op = env.op
            vs.emit('call', op, u, env.ordinal(self), ())
            try:
                SyncCrazyflie.open_link(self)
            except Exception as e:
                label = ('lao%d' % u) if e.args == ('Link already open',) else ('cf%d' % u)
                env.tag(e, label)
                vs.emit('raised', op, u, label)
                raise
            vs.emit('ret', op, u)

        def close_link(self):
            vs.emit('close', env.op, uri_n(self._link_uri), bool(self.is_link_open()))
            SyncCrazyflie.close_link(self)

    class Factory:
        def construct(self, uri):
            m = Member(uri, cf=FakeCf(uri))
            env.members.append(m)
            return m
    return Factory


def make_action(env, fails, slow=None):
    vs = env.vs
    op = env.op
    slow = slow or {}

    def act(scf, *args):
        u = uri_n(getattr(scf, '_link_uri', 'uri-1'))
        vs.emit('call', op, u, env.ordinal(scf), tuple(canon_arg(a) for a in args))
        if u in slow:
            vs.time.sleep(slow[u])          # a long-running action (virtual seconds)
        else:
            vs.yield_now('act')
        if u in fails:
            e = UserErr(fails[u])
            env.tag(e, 'u%d' % fails[u])
            vs.emit('raised', op, u, 'u%d' % fails[u])
            raise e
        vs.emit('ret', op, u)
    return act


def result_label(env, opidx, e):
    if e is None:
        return 'ok'
    if isinstance(e, UserErr):
        return 'user:u%d' % e.n
    if isinstance(e, KeyError):
        return 'keyerr:%s' % (str(e.args[0])[3:] if e.args else '?')
    if isinstance(e, IndexError):
        return 'indexerr'
    if type(e) is Exception and e.args == ('Already opened',) and e.__cause__ is None:
        return 'already'
    if type(e) is Exception and e.__cause__ is not None:
        c = e.__cause__
        if any(c is o for o in env.raised.get(opidx, [])):
            return 'chained:' + getattr(c, '_c19', 'untagged')
        return 'chained:FOREIGN(%s)' % getattr(c, '_c19', type(c).__name__)     # an error not raised by this call's actions
    return 'other:' + type(e).__name__


def make_main(vs, Swarm, scenario, out):
    """main_fn for vsched: builds ALL state afresh, runs the ops; per-op results go to out['ops']"""
    def main():
        env = Env(vs)
        out['env'] = env
        out['ops'] = []
        Factory = make_classes(env)
        sw = Swarm([uri_s(u) for u in scenario['uris']], factory=Factory())
        out['cfs'] = [(uri_n(k), env.ordinal(v)) for k, v in sw._cfs.items()]
        import copy
        shared = {name: {uri_s(u): list(a) for u, a in d.items()} for name, d in scenario.get('shared', {}).items()}
        for idx, op in enumerate(scenario['ops']):
            env.op = idx
            vs.emit('op', idx)
            exc = None
            ad = before = None
            try:
                kind = op[0]
                if kind in ('ps', 'par', 'seq'):
                    if isinstance(op[1], str):
                        ad = shared[op[1]]                 # the SAME dict (and list) objects as in the other ops naming it
                    else:
                        ad = None if op[1] is None else {uri_s(u): list(a) for u, a in op[1].items()}
                    before = copy.deepcopy(ad)
                    fn = {'ps': sw.parallel_safe, 'par': sw.parallel, 'seq': sw.sequential}[kind]
                    fn(make_action(env, op[2], op[3] if len(op) > 3 else None), ad)
                elif kind == 'open':
                    env.connfail = set(op[1])
                    sw.open_links()
                elif kind == 'close':
                    sw.close_links()
                elif kind == 'preopen':
                    env.connfail = set()
                    list(sw._cfs.values())[op[1]].open_link()
            except Exception as e:      # vsched.Abort is a BaseException and passes through
                exc = e
            vs.emit('opend', idx)
            same = True
            if before is not None:
                try:
                    same = (ad == before) and all(type(ad[k]) is type(before[k]) for k in before)
                except Exception:
                    same = False
            out['ops'].append({'res': result_label(env, idx, exc), 'open': bool(sw._is_open), 'dict_same': same,
                               'dict_now': None if same else {str(k): [canon_arg(x) for x in v] for k, v in ad.items()},
                               'mem': [bool(m.is_link_open()) for m in sw._cfs.values()]})
        return len(out['ops'])
    return main


def split_ops(res, nops):
    """per op: the slice of the vsched trace between its 'op' and 'opend' markers, plus everything that belongs to
    threads started in that op (they may run late if the code under test does not join them)"""
    segs = [[] for _ in range(nops)]
    ends = [None] * nops
    cur = None
    started_in = {}          # thread name -> op index
    for pos, t in enumerate(res.trace):
        tid, kind, label, info = t
        if kind == 'emit' and info[0] == 'op':
            cur = info[1]
            continue
        if kind == 'emit' and info[0] == 'opend':
            ends[info[1]] = len(segs[info[1]])
            cur = None
            continue
        if tid == 0:
            if kind == 'start' and cur is not None:
                started_in[label] = cur
            if cur is not None:
                segs[cur].append(t)
        elif tid > 0:
            op = started_in.get(res.thread_names.get(tid))
            if op is not None:
                segs[op].append(t)
    return segs, ends


def visible_schedule(seg, res, points):
    """observed steps of one op as model thread ids (0 = main, i+1 = thread started i-th in this op)"""
    order = {}
    sched = []
    labels = {'%s:%s' % p for p in points}
    for tid, kind, label, info in seg:
        if tid == 0:
            if kind == 'start':
                order[label] = len(order)
                sched.append(0)
            elif kind == 'join' and info is None:
                sched.append(0)
            elif kind == 'emit' and info[0] == 'close':
                sched.append(0)
        else:
            k = order.get(res.thread_names.get(tid), 98)
            if kind == 'emit' and info[0] in ('call', 'ret', 'raised'):
                sched.append(k + 1)
            elif kind == 'trace' and label in labels:
                sched.append(k + 1)
    return sched


def observed_events(seg):
    evs = []
    for tid, kind, label, info in seg:
        if kind != 'emit':
            continue
        if info[0] == 'call':
            evs.append('c%d/%d/%s' % (info[2], info[3], '.'.join(str(a) for a in info[4])))
        elif info[0] == 'ret':
            evs.append('r%d' % info[2])
        elif info[0] == 'raised':
            evs.append('x%d/%s' % (info[2], info[3]))
        elif info[0] == 'close':
            evs.append('k%d/%d' % (info[2], 1 if info[3] else 0))
    return evs


def fmt_args(ad):
    if ad is None:
        return 'none'
    if not ad:
        return '-'
    return ';'.join('%d:%s' % (u, '.'.join(str(x) for x in a)) for u, a in ad.items())


def fmt_fails(f):
    return ','.join('%d:%d' % (u, n) for u, n in f.items()) or '-'


def fmt_sched(s):
    return ','.join(str(t) for t in s) or '-'


def model_lines(scenario, res, out, points):
    """(request lines for the Lean driver, the replies the real run corresponds to)"""
    nops = len(scenario['ops'])
    segs, _ = split_ops(res, nops)
    lines = ['new ' + (','.join(str(u) for u in scenario['uris']) or '-')]
    want = ['ok ' + (','.join('%d:%d' % kv for kv in out['cfs']) or '-')]
    for idx, op in enumerate(scenario['ops']):
        if idx >= len(out['ops']):
            break
        seg = segs[idx]
        sch = fmt_sched(visible_schedule(seg, res, points))
        kind = op[0]
        if kind in ('ps', 'par'):
            lines.append('%s %s %s %s' % (kind, fmt_args(ad_of(scenario, op[1])), fmt_fails(op[2]), sch))
        elif kind == 'seq':
            lines.append('seq %s %s' % (fmt_args(ad_of(scenario, op[1])), fmt_fails(op[2])))
        elif kind == 'open':
            lines.append('open %s %s' % (','.join(str(u) for u in op[1]) or '-', sch))
        elif kind == 'close':
            lines.append('close')
        elif kind == 'preopen':
            lines.append('preopen %d' % op[1])
        o = out['ops'][idx]
        evs = [] if kind == 'preopen' else observed_events(seg)
        want.append('ok res=%s trace=%s open=%d mem=%s' % ('ok' if kind == 'preopen' else o['res'], ','.join(evs) or '-', 1 if o['open'] else 0,
                                                              ''.join('1' if b else '0' for b in o['mem']) or '-'))
    return lines, want


# ---- the property itself, evaluated on the real run (Python twin of the Lean spec; used by search()) -----------------
def args_ok(scenario, ad):
    return not ad or all(u in ad for u in scenario['uris'])


def judge(scenario, res, out):
    """returns [(key, what, detail)] - every way in which this real run violates the property statement"""
    bad = []
    if res.outcome != 'ok':
        bad.append(('run-' + res.outcome, 'swarm call ended in ' + res.outcome, {'blocked': res.blocked, 'deaths': [(n, repr(e)) for n, e in res.deaths]}))
    if res.exc is not None:
        bad.append(('harness', 'unexpected exception in the scenario driver', repr(res.exc)))
        return bad
    ev = [(pos, t[0], t[3]) for pos, t in enumerate(res.trace) if t[1] == 'emit']
    end_pos = {i[1]: pos for pos, _, i in ev if i[0] == 'opend'}
    cfs = out.get('cfs', [])
    # the specification's own view of the swarm over the history of calls (never derived from the real flags)
    exp_open = False
    exp_mem = [False] * len(cfs)
    for idx, op in enumerate(scenario['ops']):
        if idx >= len(out['ops']):
            bad.append(('harness', 'operation did not finish', idx))
            break
        o = out['ops'][idx]
        kind = op[0]
        mine = [(pos, tid, i) for pos, tid, i in ev if i[0] in ('call', 'ret', 'raised') and i[1] == idx]
        calls = [i[2:] for _, _, i in mine if i[0] == 'call']
        raised = [i for _, _, i in mine if i[0] == 'raised']
        fin = [i[2] for _, _, i in mine if i[0] in ('ret', 'raised')]
        late = [i for pos, _, i in mine if pos > end_pos.get(idx, 1 << 60)]
        closes = [i for _, _, i in ev if i[0] == 'close' and i[1] == idx]
        d = {'op': idx, 'kind': kind, 'result': o['res']}
        if kind in ('ps', 'par'):
            opd = ad_of(scenario, op[1])
            ok_args = args_ok(scenario, opd)
            if kind == 'par' and o['res'] != 'ok':
                bad.append(('parallel-raises', 'parallel raised', d))
            if ok_args:
                want = sorted(((u, m, tuple(opd[u]) if opd else ()) for u, m in cfs), key=repr)
                if sorted(calls, key=repr) != want:
                    bad.append(('each-once', 'action not run exactly once per Crazyflie with its own connection and arguments', dict(d, calls=calls, want=want)))
                if late or sorted(fin) != sorted(u for u, _ in cfs):
                    bad.append(('returns-early', 'swarm call returned before every action had finished', dict(d, late=late[:4], finished=fin)))
                if kind == 'ps':
                    if bool(raised) != (o['res'] != 'ok'):
                        bad.append(('raise-iff', 'parallel_safe raises iff some action raised: violated', dict(d, raised=[r[2:] for r in raised])))
                    if o['res'] != 'ok' and (not o['res'].startswith('chained:') or 'FOREIGN' in o['res'] or
                                             o['res'][8:] not in [r[3] for r in raised]):
                        bad.append(('cause', 'parallel_safe did not chain one of the errors raised by its actions', dict(d, raised=[r[2:] for r in raised])))
        elif kind == 'seq':
            opd = ad_of(scenario, op[1])
            if args_ok(scenario, opd):
                want, wres = [], 'ok'
                for u, m in cfs:
                    want.append(('call', idx, u, m, tuple(opd[u]) if opd else ()))
                    if u in op[2]:
                        want.append(('raised', idx, u, 'u%d' % op[2][u]))
                        wres = 'user:u%d' % op[2][u]
                        break
                    want.append(('ret', idx, u))
                if [i for _, _, i in mine] != want or o['res'] != wres:
                    bad.append(('sequential-order', 'sequential did not run the actions one at a time in URI order', dict(d, got=[i for _, _, i in mine][:8], want=want[:8])))
        if kind in ('ps', 'par', 'seq') and not o.get('dict_same', True):
            bad.append(('args-dict-mutated', "the caller's argument dictionary was changed by the swarm-wide action",
                        dict(d, dict_before=ad_of(scenario, op[1]), dict_after=o.get('dict_now'))))
        if kind == 'open':
            if exp_open:
                if o['res'] != 'already' or mine or closes:
                    bad.append(('double-open', 'an open swarm accepted (or acted on) a further open_links', dict(d, events=len(mine), closes=len(closes))))
            else:
                fails = any(u in op[1] for u, _ in cfs) or any(exp_mem)
                exp_open, exp_mem = (False, [False] * len(cfs)) if fails else (True, [True] * len(cfs))
                if late or sorted(fin) != sorted(u for u, _ in cfs) or sorted(c[:2] for c in calls) != sorted(cfs):
                    bad.append(('returns-early', 'open_links returned before every open_link had finished (or not once per member)', dict(d, late=late[:4], finished=fin)))
                if raised:
                    if not o['res'].startswith('chained:') or 'FOREIGN' in o['res'] or o['res'][8:] not in [r[3] for r in raised]:
                        bad.append(('open-failure-not-raised', 'a failed open_link was not raised (chained) by open_links', d))
                    if any(o['mem']) or o['open']:
                        bad.append(('open-failure-not-closed', 'after a failed open_links some link is still open', dict(d, mem=o['mem'], is_open=o['open'])))
                else:
                    if o['res'] != 'ok' or not all(o['mem']) or not o['open']:
                        bad.append(('open-success', 'open_links without failures did not open every link', dict(d, mem=o['mem'], is_open=o['open'])))
        elif kind == 'close':
            exp_open, exp_mem = False, [False] * len(cfs)
            if any(o['mem']) or o['open'] or o['res'] != 'ok':
                bad.append(('close', 'close_links left a link open', dict(d, mem=o['mem'])))
        elif kind == 'preopen':
            if 0 <= op[1] < len(exp_mem):
                exp_mem[op[1]] = True
        # after EVERY call: links open iff the last successful open was not followed by a close / failed open; a rejected
        # open and every action call leave all link states and _is_open as they were
        if o['open'] != exp_open or list(o['mem']) != exp_mem:
            bad.append(('history-state', 'after this call the link states / _is_open are not what the history of open and close calls implies',
                        dict(d, mem=o['mem'], is_open=o['open'], expected_mem=list(exp_mem), expected_open=exp_open)))
            break
    return bad


# ---- scenario generation -----------------------------------------------------------------------------------
def subsets(xs):
    for mask in range(1 << len(xs)):
        yield [x for i, x in enumerate(xs) if (mask >> i) & 1]


class ErrIds:
    """globally unique user-error numbers (so that a stale error of an earlier call is recognisable)"""

    def __init__(self):
        self.n = 0

    def fails(self, us):
        d = {}
        for u in us:
            self.n += 1
            d[u] = self.n
        return d


def rand_args(rng, uris, missing_ok=True):
    r = rng.random()
    if r < 0.25:
        return None
    if r < 0.32:
        return {}
    ad = {u: [rng.randrange(-9, 10) for _ in range(rng.choice([0, 1, 1, 2, 3]))] for u in uris}
    if missing_ok and uris and rng.random() < 0.12:
        ad.pop(rng.choice(uris))
        if not ad:
            ad = {uris[0] + 1000: [1]}
    return ad


def rand_scenario(rng, ids):
    n = rng.choice([0, 1, 2, 2, 3, 3, 4, 5, 6])
    base = rng.sample(range(1, 40), n)
    uris = list(base)
    if n and rng.random() < 0.15:
        uris.insert(rng.randrange(len(uris) + 1), rng.choice(base))     # a repeated URI: dict semantics of Swarm.__init__
    members = list(dict.fromkeys(uris))
    ops = []
    shared = {}
    if members and rng.random() < 0.6:        # the caller re-uses one (or two) dictionaries for several actions
        for k in range(rng.choice([1, 1, 2])):
            shared['D%d' % k] = {u: [rng.randrange(-9, 10) for _ in range(rng.choice([0, 1, 2, 3]))] for u in members}
    def pick_args(rng, members, missing_ok=True):
        if shared and rng.random() < 0.7:
            return rng.choice(sorted(shared))
        return rand_args(rng, members, missing_ok)
    for _ in range(rng.choice([1, 2, 3, 4, 5, 6])):
        r = rng.random()
        fs = [u for u in members if rng.random() < rng.choice([0.0, 0.3, 0.6, 1.0])]
        slow = {u: rng.choice([0.5, 3.0, 60.0, 7200.0]) for u in members if rng.random() < 0.3} if rng.random() < 0.4 else {}
        if r < 0.35:
            ops.append(('ps', pick_args(rng, members), ids.fails(fs), slow))
        elif r < 0.5:
            ops.append(('par', pick_args(rng, members), ids.fails(fs), slow))
        elif r < 0.6:
            ops.append(('seq', pick_args(rng, members, missing_ok=False), ids.fails(fs[:1] if rng.random() < 0.7 else fs)))
        elif r < 0.85:
            ops.append(('open', fs if rng.random() < 0.6 else []))
        elif r < 0.95:
            ops.append(('close',))
        elif members:
            ops.append(('preopen', rng.randrange(len(members))))
    return {'uris': uris, 'ops': ops, 'shared': shared}


def rand_history(rng, ids):
    """a history of 3..10 open / close calls (with failing opens, rejected opens and action calls in between) on ONE swarm"""
    n = rng.choice([1, 2, 2, 3, 4])
    members = rng.sample(range(1, 40), n)
    ops = []
    for _ in range(rng.randrange(3, 11)):
        r = rng.random()
        if r < 0.42:
            ops.append(('open', []))
        elif r < 0.58:
            ops.append(('open', [u for u in members if rng.random() < 0.5] or [rng.choice(members)]))
        elif r < 0.78:
            ops.append(('close',))
        elif r < 0.88:
            ops.append(('ps', None, ids.fails([u for u in members if rng.random() < 0.3])))
        elif r < 0.93:
            ops.append(('par', None, ids.fails([u for u in members if rng.random() < 0.3])))
        elif r < 0.97:
            ops.append(('seq', None, ids.fails([])))
        else:
            ops.append(('preopen', rng.randrange(n)))
    return {'uris': members, 'ops': ops}


def plan(ctx):
    """[(scenario, mode)]: mode = ('dfs', max_preemptions, max_runs) | ('random', n_seeds)"""
    t = ctx.tier == 'thorough'
    ids = ErrIds()
    rng = ctx.rng
    pl = []
    full = {5: [1, -2], 6: [], 7: [3], 8: [0, 0, 7]}
    # every failing subset, every interleaving: swarms of 1 and 2
    for n in (1, 2):
        us = list(range(5, 5 + n))
        for fs in subsets(us):
            for kind in ('ps', 'par'):
                ad = rng.choice([None, {u: full[u] for u in us}])
                pl.append(({'uris': us, 'ops': [(kind, ad, ids.fails(fs))]}, ('dfs', None, None)))
            pl.append(({'uris': us, 'ops': [('open', fs)]}, ('dfs', None if (t or n == 1) else 2, 6000 if t else 700)))
    # swarms of 3: every failing subset; all interleavings when nothing / one member fails (thorough), preemption-bounded otherwise
    us = [5, 6, 7]
    for fs in subsets(us):
        ad = rng.choice([None, {u: full[u] for u in us}])
        if t:
            mode = ('dfs', None, 12000) if len(fs) <= 1 else ('dfs', 2, 4000)
        else:
            mode = ('dfs', 1, 250)
        pl.append(({'uris': us, 'ops': [('ps', ad, ids.fails(fs))]}, mode))
        pl.append(({'uris': us, 'ops': [('open', fs)]}, ('dfs', 1, 1500 if t else 120)))
    # swarms of 4: every failing subset, one preemption
    us = [5, 6, 7, 8]
    for fs in subsets(us):
        if t or rng.random() < 0.4:
            pl.append(({'uris': us, 'ops': [('ps', {u: full[u] for u in us}, ids.fails(fs))]}, ('dfs', 1, 800 if t else 150)))
    # failure followed by another failing call in the same process, open/close cycles, direct pre-open
    pl.append(({'uris': [5, 6], 'ops': [('ps', None, ids.fails([5])), ('ps', None, ids.fails([6])), ('open', [6]), ('open', []), ('open', []),
                                         ('close',), ('preopen', 0), ('open', []), ('seq', {5: [1], 6: [2]}, ids.fails([6]))]}, ('random', 25 if t else 8)))
    # the failing member is joined first while later members still run for a long (virtual) time
    for us, fs, slow in (([5, 6], [5], {6: 3600.0}), ([5, 6, 7], [6], {5: 1.0, 7: 90000.0}), ([5, 6, 7, 8], [5, 8], {6: 0.25, 7: 10.0})):
        pl.append(({'uris': us, 'ops': [('ps', None, ids.fails(fs), slow), ('par', None, ids.fails(fs), slow)]}, ('random', 6 if t else 3)))
    # one argument dictionary re-used for several actions (any mix of sequential / parallel / parallel_safe, with failures in between):
    # every action must get (connection, *own entry) and the caller's dictionary and lists must be left as they were
    sh = {'D0': {5: [1, -2], 6: []}, 'D1': {5: [], 6: [7, 7, 7]}}
    pl.append(({'uris': [5, 6], 'shared': sh, 'ops': [('ps', 'D0', {}), ('ps', 'D0', ids.fails([6])), ('seq', 'D0', {}), ('par', 'D0', ids.fails([5])),
                                                       ('seq', 'D1', ids.fails([6])), ('seq', 'D1', {}), ('ps', 'D1', {}), ('ps', 'D0', {})]},
               ('dfs', 1, 300 if t else 40)))
    # histories of open / close calls on one swarm: state checked after every call
    pl.append(({'uris': [5, 6], 'ops': [('open', []), ('open', []), ('open', [6]), ('close',), ('open', [5]), ('open', []), ('open', []), ('close',), ('open', [])]},
               ('dfs', 1, 400 if t else 60)))
    for _ in range(700 if t else 90):
        pl.append((rand_history(rng, ids), ('random', 1)))
    # random multi-call scenarios under random schedules
    for _ in range(2500 if t else 260):
        pl.append((rand_scenario(rng, ids), ('random', 1)))
    return pl


def corpus():
    """harness/corpus/c19/*.json: fixed scenarios (+ schedule) that are always run first"""
    import glob
    import json
    import os
    res = []
    for f in sorted(glob.glob(os.path.join(os.path.dirname(os.path.dirname(os.path.abspath(__file__))), 'corpus', 'c19', '*.json'))):
        w = json.load(open(f))
        res.append(({'uris': w['uris'], 'ops': [tuple(_unjson(op)) for op in w['ops']],
                     'shared': {k: {int(u): a for u, a in v.items()} for k, v in w.get('shared', {}).items()}}, ('replay', w.get('choices', []))))
    return res


_OBS = {}


def observe_all(ctx):
    """run the plan on the real code under vsched; [(scenario, choices, result, out, lines, want, mode)]"""
    if id(ctx) in _OBS:
        return _OBS[id(ctx)]
    import contextlib
    import io
    import logging
    from harness import vsched
    logging.disable(logging.CRITICAL)
    points = report_points()
    obs = []
    with vsched.Session(step_limit=4000, trace_points=points) as s, contextlib.redirect_stdout(io.StringIO()):
        from cflib.crazyflie.swarm import Swarm
        for scenario, mode in corpus() + plan(ctx):
            out = {}
            main = make_main(vsched, Swarm, scenario, out)

            def record(res, how):
                lines, want = model_lines(scenario, res, out, points)
                obs.append({'scenario': scenario, 'choices': list(res.choices), 'res': res, 'out': dict(out), 'lines': lines, 'want': want, 'how': how})
            if mode[0] == 'dfs':
                ex = s.explore(main, max_preemptions=mode[1], max_runs=mode[2])
                for res in ex:
                    record(res, 'dfs')
                n = len(scenario['uris'])
                ctx.count('dfs:n=%d:%s' % (n, 'complete' if ex.complete and mode[1] is None else 'bounded'))
            elif mode[0] == 'replay':
                record(s.run(main, policy=vsched.Replay(mode[1], strict=False)), 'corpus')
                for sd in range(3):
                    record(s.run(main, policy=vsched.Random(sd)), 'corpus')
            else:
                for _ in range(mode[1]):
                    res = s.run(main, policy=vsched.Random(ctx.rng.randrange(1 << 30), stay=ctx.rng.choice([0.0, 0.0, 0.5, 0.8])))
                    record(res, 'random')
    _OBS.clear()
    _OBS[id(ctx)] = obs
    return obs


def _desc(o):
    sc = o['scenario']
    return {'uris': sc['uris'], 'shared': sc.get('shared', {}), 'ops': [list(op) for op in sc['ops']], 'choices': o['choices']}


def correspond(ctx):
    obs = observe_all(ctx)
    lines = [l for o in obs for l in o['lines']]
    replies = ctx.lean(DRIVER, lines, timeout=1500)
    pos = 0
    for o in obs:
        sc = o['scenario']
        n = len(o['lines'])
        got = [r.split(' full=')[0] for r in replies[pos:pos + n]]
        pos += n
        kinds = tuple(op[0] for op in sc['ops'])
        results = tuple(x['res'].split(':')[0] for x in o['out'].get('ops', []))
        key = (tuple(sc['uris']), repr(sc['ops']), tuple(o['choices']))
        ctx.case({'uris': sc['uris'], 'ops': [list(op) for op in sc['ops']], 'how': o['how'], 'choices': len(o['choices'])}, key)
        ctx.count('mode:' + o['how'])
        ctx.count('members:%d' % len(set(sc['uris'])))
        for k, r in zip(kinds, results):
            ctx.count('op:%s:%s' % (k, r))
        if o['res'].outcome != 'ok' or o['res'].exc is not None:
            ctx.disagree('run-outcome', _desc(o), 'ok', '%s %r' % (o['res'].outcome, o['res'].exc))
            continue
        for l, w, g in zip(o['lines'], o['want'], got):
            if w != g:
                ctx.disagree('trace-acceptance', dict(_desc(o), line=l), g[:400], w[:400])
                break


def search(ctx):
    """the property evaluated directly on the real runs (no Lean needed)"""
    for o in observe_all(ctx):
        for key, what, detail in judge(o['scenario'], o['res'], o['out']):
            ctx.witness(key, what, _desc(o), detail=detail)
            break


def replay(ctx, rp):
    """re-run a recorded witness (scenario + schedule) on the current code; True iff it STILL FAILS"""
    import contextlib
    import io
    import logging
    from harness import vsched
    logging.disable(logging.CRITICAL)
    w = rp.get('witness', {}).get('input')
    if not w:
        print('replay: this file names broken obligations, not an input; run ./check C19 to re-check them:',
              [b.get('name') for b in rp.get('broken', [])])
        return False
    sc = {'uris': w['uris'], 'ops': [tuple(_unjson(op)) for op in w['ops']], 'shared': {k: {int(u): a for u, a in v.items()} for k, v in w.get('shared', {}).items()}}
    with vsched.Session(step_limit=4000, trace_points=report_points()) as s, contextlib.redirect_stdout(io.StringIO()):
        from cflib.crazyflie.swarm import Swarm
        out = {}
        res = s.run(make_main(vsched, Swarm, sc, out), policy=vsched.Replay(w['choices'], strict=False))
    bad = judge(sc, res, out)
    for b in bad:
        print('violated:', b[0], '-', b[1], b[2])
    return bool(bad)


def _unjson(op):
    res = []
    for x in op:
        if isinstance(x, dict):
            res.append({int(k): v for k, v in x.items()})
        else:
            res.append(x)
    return res

"""C20 - Link URIs select the right driver and parse to the right radio settings.

Tie A: RadioDriver.parse_uri's expressions (prefix test, path split expression, dongle rule, defaults, data-rate table,
address padding/unpack formats, rate_limit key), the scan result format strings, scan_selected's regex, every driver's
WrongUriType guard (regex / startswith text), init_drivers' class list, get_link_driver's try/except shape, open_link's
try/except shape and uri_helper's defaults are re-extracted into Gen/C20.lean.
Tie B: real RadioDriver.parse_uri / scan_interface / scan_selected (fake radio, fake serial-number lookup),
cflib.crtp.get_link_driver over the real driver classes (USB / socket boundary faked), Crazyflie.open_link, Python's
re.search / int() / str.format on the fragments the model implements, vs the Lean model (Driver/C20.lean).
"""
import ast
import contextlib
import io

from harness.lib import extract as X
from harness.lib.common import ExtractError, exc_enum

PID = 'C20'
LEAN_TARGETS = ['CfVerif.Props.C20']
PROPS_MODULES = ['CfVerif.Props.C20']
DRIVER = 'Driver/C20.lean'
REQUIRED_THEOREMS = []
TRUSTED = []
ASSUMPTIONS = []
RULE = ''

RADIO = 'cflib/crtp/radiodriver.py'
DRIVER_FILES = [('RadioDriver', RADIO, 'RadioDriver.parse_uri'), ('UsbDriver', 'cflib/crtp/usbdriver.py', 'UsbDriver.connect'),
                ('SerialDriver', 'cflib/crtp/serialdriver.py', 'SerialDriver.connect'), ('UdpDriver', 'cflib/crtp/udpdriver.py', 'UdpDriver.connect'),
                ('PrrtDriver', 'cflib/crtp/prrtdriver.py', 'PrrtDriver.connect'), ('TcpDriver', 'cflib/crtp/tcpdriver.py', 'TcpDriver.connect')]


# ------------------------------------------------------------------------------------------------------
# Tie A
def _const_str(n, what):
    X.expect(isinstance(n, ast.Constant) and isinstance(n.value, str), '%s: expected a string literal, got %s' % (what, ast.unparse(n)))
    return n.value


def _assign_map(fn):
    """{target text: [value nodes in source order]} for single-target assignments under fn"""
    res = {}
    nodes = sorted((n for n in ast.walk(fn) if isinstance(n, ast.Assign) and len(n.targets) == 1), key=lambda n: (n.lineno, n.col_offset))
    for n in nodes:
        res.setdefault(ast.unparse(n.targets[0]), []).append(n.value)
    return res


def _guard_of_test(test, assigns, uri_name, what):
    """translate the test of `if <test>: raise WrongUriType` into (kind, text): the URI is claimed iff the guard matches"""
    X.expect(isinstance(test, ast.UnaryOp) and isinstance(test.op, ast.Not), '%s: WrongUriType guard is not `not ...`: %s' % (what, ast.unparse(test)))
    e = test.operand
    if isinstance(e, ast.Name) and e.id in assigns:
        X.expect(len(assigns[e.id]) == 1, '%s: %s assigned more than once' % (what, e.id))
        e = assigns[e.id][0]
    X.expect(isinstance(e, ast.Call), '%s: unsupported WrongUriType guard %s' % (what, ast.unparse(e)))
    f = ast.unparse(e.func)
    if f == 're.search':
        X.expect(len(e.args) == 2 and not e.keywords and ast.unparse(e.args[1]) == uri_name, '%s: unsupported re.search call %s' % (what, ast.unparse(e)))
        return ('search', _const_str(e.args[0], what))
    if f == uri_name + '.startswith':
        X.expect(len(e.args) == 1 and not e.keywords, '%s: unsupported startswith call' % what)
        return ('startswith', _const_str(e.args[0], what))
    raise ExtractError('%s: unsupported WrongUriType guard %s' % (what, ast.unparse(e)))


def _wrong_uri_guards(fn, what):
    """all `raise WrongUriType(...)` statements of fn must be the sole body of an `if` directly in the function body (no
    enclosing condition): returns the guards in source order and the index of the last guard statement"""
    uri_name = fn.args.args[0].arg if fn.args.args[0].arg != 'self' else fn.args.args[1].arg
    assigns = {k: v for k, v in _assign_map(fn).items()}
    guards = []
    raises = [n for n in ast.walk(fn) if isinstance(n, ast.Raise) and n.exc is not None and 'WrongUriType' in ast.unparse(n.exc)]
    top = []
    for st in fn.body:
        if isinstance(st, ast.If) and len(st.body) == 1 and isinstance(st.body[0], ast.Raise) and st.body[0] in raises and not st.orelse:
            top.append(st)
    X.expect(len(top) == len(raises) and raises, '%s: a raise WrongUriType is not a top-level `if not ...: raise`' % what)
    for st in top:
        guards.append(_guard_of_test(st.test, assigns, uri_name, what))
    return guards


def _lean_pairs(l):
    return '[' + ', '.join('(%s, %s)' % (X.lstr(a), X.lstr(b)) for a, b in l) + ']'


def extract(ctx):
    g = X.GenFile(PID, [RADIO, 'cflib/crtp/__init__.py', 'cflib/crtp/{usb,serial,udp,prrt,tcp}driver.py', 'cflib/crazyflie/__init__.py',
                        'cflib/utils/uri_helper.py', 'cflib/drivers/crazyradio.py'])
    rt = X.parse(RADIO)
    dr = X.class_consts('cflib/drivers/crazyradio.py', 'Crazyradio')

    def dr_value(node, what):
        s = ast.unparse(node)
        name = s.rsplit('.', 1)[-1]
        X.expect(s.endswith('Crazyradio.' + name) and name in dr, '%s: not a Crazyradio data-rate constant: %s' % (what, s))
        return dr[name]

    # ---- driver scheme guards -----------------------------------------------------------------------
    lines = []
    for cls, path, qual in DRIVER_FILES:
        fn = X.find(X.parse(path), qual)
        guards = _wrong_uri_guards(fn, qual)
        lines.append('(%s, %s)' % (X.lstr(cls), _lean_pairs(guards)))
        # the connect method of every driver but the radio must contain its guards itself; RadioDriver.connect calls parse_uri first
    g.raw('def driverGuards : List (String × List (String × String)) := [\n  ' + ',\n  '.join(lines) + ']')
    conn = X.find(rt, 'RadioDriver.connect')
    first = [st for st in conn.body if not (isinstance(st, ast.Expr) and isinstance(st.value, ast.Constant))][0]
    g.string('radioConnectFirst', ast.unparse(first))
    calls = [ast.unparse(n) for n in ast.walk(conn) if isinstance(n, ast.Call) and ast.unparse(n.func).startswith('self._radio.set_')]
    g.strings('radioConnectSets', sorted(calls))

    # ---- init_drivers / get_link_driver ---------------------------------------------------------------
    ct = X.parse('cflib/crtp/__init__.py')
    steps = []

    def class_steps(stmts, cond):
        for st in stmts:
            if isinstance(st, ast.If):
                class_steps(st.body, (cond + ' and ' if cond else '') + ast.unparse(st.test))
                class_steps(st.orelse, (cond + ' and ' if cond else '') + 'not (' + ast.unparse(st.test) + ')')
            elif isinstance(st, ast.Expr) and isinstance(st.value, ast.Call) and ast.unparse(st.value.func) in ('CLASSES.extend', 'CLASSES.append'):
                a = st.value.args[0]
                names = [ast.unparse(e) for e in a.elts] if isinstance(a, ast.List) else [ast.unparse(a)]
                steps.append((cond, names))
            else:
                X.expect('CLASSES' not in ast.unparse(st), 'init_drivers: unsupported statement touching CLASSES: ' + ast.unparse(st)[:80])
    class_steps(X.find(ct, 'init_drivers').body, '')
    X.expect(steps, 'init_drivers: no CLASSES.extend/append found')
    g.raw('def classSteps : List (String × List String) := [' + ', '.join('(%s, %s)' % (X.lstr(c), X.lstrs(n)) for c, n in steps) + ']')
    gl = X.find(ct, 'get_link_driver')
    loops = [n for n in gl.body if isinstance(n, ast.For)]
    X.expect(len(loops) == 1 and ast.unparse(loops[0].iter) == 'CLASSES', 'get_link_driver: expected one `for ... in CLASSES`')
    tries = [n for n in loops[0].body if isinstance(n, ast.Try)]
    X.expect(len(tries) == 1 and len(loops[0].body) == 1 and not tries[0].finalbody and not tries[0].orelse, 'get_link_driver: loop body is not a single try')
    cname = ast.unparse(loops[0].target)
    g.strings('getLinkTry', [ast.unparse(s).replace(cname, 'cls') for s in tries[0].body])
    g.strings('getLinkHandlers', ['%s: %s' % (ast.unparse(h.type) if h.type else '*', '; '.join(ast.unparse(s) for s in h.body)) for h in tries[0].handlers])
    g.strings('getLinkAfterLoop', [ast.unparse(s) for s in gl.body[gl.body.index(loops[0]) + 1:]])

    # ---- parse_uri -------------------------------------------------------------------------------------
    pu = X.find(rt, 'RadioDriver.parse_uri')
    am = _assign_map(pu)

    def single(name):
        X.expect(name in am and len(am[name]) == 1, 'parse_uri: expected exactly one assignment to ' + name)
        return am[name][0]
    g.string('parsedUriExpr', ast.unparse(single('parsed_uri')))
    g.string('parsedQueryExpr', ast.unparse(single('parsed_query')))
    g.string('parsedPathExpr', ast.unparse(single('parsed_path')))
    ifs = [st for st in pu.body if isinstance(st, ast.If)]
    tests = [ast.unparse(st.test) for st in ifs]
    g.strings('parseUriTests', tests)
    # dongle rule
    dif = [st for st in ifs if 'netloc' in ast.unparse(st.test)]
    X.expect(len(dif) == 1, 'parse_uri: expected one `if` on parsed_uri.netloc')
    dif = dif[0]
    cmp_ = [n for n in ast.walk(dif.test) if isinstance(n, ast.Compare)]
    X.expect(len(cmp_) == 1 and isinstance(cmp_[0].ops[0], ast.Lt) and ast.unparse(cmp_[0].left) == 'len(parsed_uri.netloc)', 'parse_uri: dongle length test changed')
    g.nat('netlocLenBound', ast.literal_eval(cmp_[0].comparators[0]))
    devs = [ast.unparse(v) for v in am.get('devid', [])]
    g.strings('devidExprs', devs)
    tr = [n for n in ast.walk(dif) if isinstance(n, ast.Try)]
    X.expect(len(tr) == 1, 'parse_uri: expected one try in the serial branch')
    g.strings('devidHandlers', ['%s: %s' % (ast.unparse(h.type) if h.type else '*', ast.unparse(h.body[0]).split('(')[0]) for h in tr[0].handlers])
    # channel
    X.expect(len(am.get('channel', [])) == 2, 'parse_uri: expected default + parsed assignment of channel')
    g.int('channelDefault', ast.literal_eval(am['channel'][0]))
    g.string('channelExpr', ast.unparse(am['channel'][1]))
    # data rate
    drs = am.get('datarate', [])
    X.expect(len(drs) >= 2, 'parse_uri: datarate assignments not found')
    g.nat('datarateDefault', dr_value(drs[0], 'parse_uri datarate default'))
    table = []
    rif = [st for st in ifs if ast.unparse(st.test) == 'len(parsed_path) > 1']
    X.expect(len(rif) == 1, 'parse_uri: expected `if len(parsed_path) > 1`')
    for st in rif[0].body:
        X.expect(isinstance(st, ast.If) and not st.orelse and len(st.body) == 1 and isinstance(st.test, ast.Compare) and isinstance(st.test.ops[0], ast.Eq)
                 and ast.unparse(st.test.left) == 'parsed_path[1]' and isinstance(st.body[0], ast.Assign) and ast.unparse(st.body[0].targets[0]) == 'datarate',
                 'parse_uri: data-rate table is not a sequence of `if parsed_path[1] == <str>: datarate = <const>`')
        table.append((_const_str(st.test.comparators[0], 'rate'), dr_value(st.body[0].value, 'parse_uri rate')))
    g.raw('def rateTable : List (String × Nat) := [' + ', '.join('(%s, %d)' % (X.lstr(s), v) for s, v in table) + ']')
    # address
    mod_assigns = {ast.unparse(n.targets[0]): n.value for n in rt.body if isinstance(n, ast.Assign) and len(n.targets) == 1}
    ads = am.get('address', [])
    X.expect(len(ads) == 2 and isinstance(ads[0], ast.Name) and ads[0].id in mod_assigns, 'parse_uri: address default is not a module constant')
    g.nats('addressDefault', ast.literal_eval(mod_assigns[ads[0].id]))
    g.string('addressExpr', ast.unparse(ads[1]))
    ad = single('addr')
    X.expect(isinstance(ad, ast.Call) and isinstance(ad.func, ast.Attribute) and ad.func.attr == 'format' and len(ad.args) == 1, 'parse_uri: addr = <fmt>.format(x) expected')
    g.string('addrPadFmt', _const_str(ad.func.value, 'addr format'))
    g.string('addrPadArg', ast.unparse(ad.args[0]))
    sc = X.struct_calls(pu)
    X.expect(len(sc) == 1 and sc[0]['fn'] == 'unpack', 'parse_uri: expected one struct.unpack')
    g.string('addrUnpackFmt', sc[0]['fmt'] or '?')
    g.strings('addrUnpackArgs', sc[0]['args'])
    # rate limit
    rl = am.get('rate_limit', [])
    X.expect(len(rl) == 2 and ast.unparse(rl[0]) == 'None', 'parse_uri: rate_limit default/parsed assignments not found')
    qif = [st for st in ifs if 'parsed_query' in ast.unparse(st.test)]
    X.expect(len(qif) == 1 and isinstance(qif[0].test, ast.Compare) and isinstance(qif[0].test.ops[0], ast.In), 'parse_uri: `<key> in parsed_query` not found')
    key = _const_str(qif[0].test.left, 'rate_limit key')
    g.string('rateLimitKey', key)
    g.string('rateLimitExpr', ast.unparse(rl[1]))
    rets = [n for n in ast.walk(pu) if isinstance(n, ast.Return)]
    X.expect(len(rets) == 1, 'parse_uri: expected one return')
    g.string('parseUriReturn', ast.unparse(rets[0].value))

    # ---- scan_interface -----------------------------------------------------------------------------------
    si = X.find(rt, 'RadioDriver.scan_interface')
    g.nat('defaultAddrInt', ast.literal_eval(mod_assigns['DEFAULT_ADDR']))
    plain_if = [st for st in si.body if isinstance(st, ast.If) and 'DEFAULT_ADDR' in ast.unparse(st.test)]
    X.expect(len(plain_if) == 1, 'scan_interface: expected one `if address is None or address == DEFAULT_ADDR`')
    g.string('scanPlainTest', ast.unparse(plain_if[0].test))
    # data rate in force before the if
    pre = [n for st in si.body[:si.body.index(plain_if[0])] for n in ast.walk(st) if isinstance(n, ast.Call) and ast.unparse(n.func) == 'self._radio.set_data_rate']
    X.expect(pre, 'scan_interface: no set_data_rate before the scans')
    start_rate = dr_value(pre[-1].args[0], 'scan_interface')

    def scan_branch(stmts, what):
        rate, out = start_rate, []
        for st in stmts:
            calls = [n for n in ast.walk(st) if isinstance(n, ast.Call)]
            sets = [n for n in calls if ast.unparse(n.func) == 'self._radio.set_data_rate']
            if sets:
                rate = dr_value(sets[0].args[0], what)
                continue
            X.expect(isinstance(st, ast.AugAssign) and ast.unparse(st.target) == 'found' and isinstance(st.value, ast.ListComp), what + ': unexpected statement ' + ast.unparse(st)[:60])
            lc = st.value
            X.expect(len(lc.generators) == 1 and not lc.generators[0].ifs and ast.unparse(lc.generators[0].iter) == 'self._scan_radio_channels(self._radio)',
                     what + ': comprehension does not iterate the scanned channels')
            cvar = ast.unparse(lc.generators[0].target)
            X.expect(isinstance(lc.elt, ast.List) and len(lc.elt.elts) == 2, what + ': element is not [uri, comment]')
            f = lc.elt.elts[0]
            X.expect(isinstance(f, ast.Call) and isinstance(f.func, ast.Attribute) and f.func.attr == 'format', what + ': uri is not <fmt>.format(...)')
            out.append((rate, _const_str(f.func.value, what), [('chan' if ast.unparse(a) == cvar else ast.unparse(a)) for a in f.args]))
        return out
    for nm, stmts in (('scanPlain', plain_if[0].body), ('scanAddressed', plain_if[0].orelse)):
        br = scan_branch(stmts, 'scan_interface ' + nm)
        g.raw('def %s : List (Nat × String × List String) := [%s]' % (nm, ', '.join('(%d, %s, %s)' % (r, X.lstr(f), X.lstrs(a)) for r, f, a in br)))
    sam = _assign_map(si)
    X.expect('addr' in sam and len(sam['addr']) == 1, 'scan_interface: addr = <fmt>.format(address) not found')
    ad = sam['addr'][0]
    X.expect(isinstance(ad, ast.Call) and isinstance(ad.func, ast.Attribute) and ad.func.attr == 'format' and len(ad.args) == 1, 'scan_interface: addr = <fmt>.format(x) expected')
    g.string('scanAddrPadFmt', _const_str(ad.func.value, 'scan addr format'))
    sc = X.struct_calls(si)
    X.expect(len(sc) == 1 and sc[0]['fn'] == 'unpack', 'scan_interface: expected one struct.unpack')
    g.string('scanAddrUnpackFmt', sc[0]['fmt'] or '?')
    g.strings('scanAddrUnpackArgs', sc[0]['args'])

    # ---- scan_selected ------------------------------------------------------------------------------------
    ss = X.find(rt, 'RadioDriver.scan_selected')
    ssm = _assign_map(ss)
    X.expect('uri_data' in ssm and len(ssm['uri_data']) == 1, 'scan_selected: uri_data = re.search(...) not found')
    ud = ssm['uri_data'][0]
    X.expect(isinstance(ud, ast.Call) and ast.unparse(ud.func) == 're.search' and len(ud.args) == 2, 'scan_selected: uri_data is not re.search(pattern, link)')
    g.string('scanSelRegex', _const_str(ud.args[0], 'scan_selected regex'))
    g.string('scanSelChannelExpr', ast.unparse(ssm["one_to_scan['channel']"][0]))
    loops = [st for st in ss.body if isinstance(st, ast.For)]
    X.expect(len(loops) == 2, 'scan_selected: expected two loops')
    t1, t2 = [], []
    for st in loops[0].body:
        if isinstance(st, ast.If):
            X.expect(isinstance(st.test, ast.Compare) and isinstance(st.test.ops[0], ast.Eq) and not st.orelse, 'scan_selected: unexpected if')
            t1.append((ast.unparse(st.test.left), _const_str(st.test.comparators[0], 'scan_selected'), dr_value(st.body[0].value, 'scan_selected')))
    g.raw('def scanSelRateTable : List (String × String × Nat) := [' + ', '.join('(%s, %s, %d)' % (X.lstr(a), X.lstr(b), c) for a, b, c in t1) + ']')
    g.nat('scanSelRateDefault', dr_value(ssm['datarate'][0], 'scan_selected'))
    for st in loops[1].body:
        if isinstance(st, ast.If):
            X.expect(isinstance(st.test, ast.Compare) and isinstance(st.test.ops[0], ast.Eq) and not st.orelse, 'scan_selected: unexpected if')
            t2.append((dr_value(st.test.comparators[0], 'scan_selected'), _const_str(st.body[0].value, 'dr_string')))
    g.raw('def scanSelNameTable : List (Nat × String) := [' + ', '.join('(%d, %s)' % (a, X.lstr(b)) for a, b in t2) + ']')
    g.string('scanSelNameDefault', _const_str(ssm['dr_string'][0], 'dr_string default'))
    fm = [n for n in ast.walk(loops[1]) if isinstance(n, ast.Call) and isinstance(n.func, ast.Attribute) and n.func.attr == 'format']
    X.expect(len(fm) == 1, 'scan_selected: expected one format call in the result loop')
    g.string('scanSelFmt', _const_str(fm[0].func.value, 'scan_selected format'))
    g.strings('scanSelFmtArgs', [ast.unparse(a) for a in fm[0].args])

    # ---- Crazyflie.open_link -----------------------------------------------------------------------------
    ol = X.find(X.parse('cflib/crazyflie/__init__.py'), 'Crazyflie.open_link')
    body = [st for st in ol.body if not (isinstance(st, ast.Expr) and isinstance(st.value, ast.Constant))]
    tries = [st for st in body if isinstance(st, ast.Try)]
    X.expect(len(tries) == 1 and body[-1] is tries[0] and not tries[0].finalbody and not tries[0].orelse, 'open_link: expected a single trailing try/except')
    t = tries[0]
    g.strings('openLinkBefore', [ast.unparse(s) for s in body[:-1]])
    g.strings('openLinkHandlerTypes', [ast.unparse(h.type) if h.type else '*' for h in t.handlers])
    X.expect(isinstance(t.body[0], ast.Assign), 'open_link: try does not start with self.link = ...')
    g.string('openLinkAssign', ast.unparse(t.body[0]).replace('\n', ' '))
    X.expect(len(t.body) == 2 and isinstance(t.body[1], ast.If), 'open_link: try body is not `self.link = ...; if not self.link: ... else: ...`')
    g.string('openLinkNoDriverTest', ast.unparse(t.body[1].test))

    def calls_in(stmts):
        res = []
        for st in stmts:
            for n in ast.walk(st):
                if isinstance(n, ast.Call) and ast.unparse(n.func).startswith('self.') and not ast.unparse(n.func).startswith('self.link_statistics'):
                    res.append((n.lineno, n.col_offset, ast.unparse(n)))
        return [s for _, _, s in sorted(res)]
    g.strings('openLinkNoDriverCalls', calls_in(t.body[1].body))
    g.strings('openLinkHandlerCalls', calls_in(t.handlers[0].body))
    msg = [n for n in ast.walk(t.body[1]) if isinstance(n, ast.Assign) and ast.unparse(n.targets[0]) == 'message']
    X.expect(len(msg) == 1, 'open_link: message = ... not found')
    g.string('openLinkNoDriverMsg', ast.unparse(msg[0].value))

    # ---- uri_helper ---------------------------------------------------------------------------------------
    uh = X.parse('cflib/utils/uri_helper.py')
    f1, f2 = X.find(uh, 'uri_from_env'), X.find(uh, 'address_from_env')
    g.string('helperEnvName', _const_str(f1.args.defaults[0], 'uri_from_env env'))
    g.string('helperDefaultUri', _const_str(f1.args.defaults[1], 'uri_from_env default'))
    g.string('helperAddrEnvName', _const_str(f2.args.defaults[0], 'address_from_env env'))
    g.nat('helperDefaultAddr', ast.literal_eval(f2.args.defaults[1]))
    hm = _assign_map(f2)
    g.string('helperAddressExpr', ast.unparse(hm['address'][0]))
    rets = [ast.unparse(n.value) for n in sorted((n for n in ast.walk(f2) if isinstance(n, ast.Return)), key=lambda n: n.lineno)]
    g.strings('helperAddressReturns', rets)
    return {'C20.lean': g.render()}
